# class-attribute defaults of _InternalBaseTracer / NoopTracer  ->  gen/TracerDefaults.v
import ast

from . import find_class, need, parse


def bool_attrs(cls):
    out = {}
    for n in cls.body:
        if isinstance(n, ast.Assign) and len(n.targets) == 1 and isinstance(n.targets[0], ast.Name):
            if isinstance(n.value, ast.Constant) and isinstance(n.value.value, bool):
                out[n.targets[0].id] = n.value.value
    return out


def generate(repo):
    mod, fn = parse(repo, "pyccolo/tracer.py")
    base = bool_attrs(find_class(mod, "_InternalBaseTracer", fn))
    noop = bool_attrs(find_class(mod, "NoopTracer", fn))
    for k in ("instrument_all_files", "allow_reentrant_events", "multiple_threads_allowed",
              "should_patch_meta_path", "global_guards_enabled", "bytecode_caching_allowed"):
        need(k in base, mod, "default %s missing" % k, fn)
    L = ["(* GENERATED from tracer.py by tools/translators/gen_defaults.py -- do not edit *)", ""]
    for k, v in sorted(base.items()):
        L.append("Definition default_%s : bool := %s." % (k.lstrip("_"), "true" if v else "false"))
    for k, v in sorted(noop.items()):
        L.append("Definition noop_%s : bool := %s." % (k.lstrip("_"), "true" if v else "false"))
    return {"TracerDefaults.v": "\n".join(L) + "\n"}
