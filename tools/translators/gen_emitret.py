# tracer.py::_handle_normal_emit_return, _handle_skipall_emit_return ; emit_event.py::_make_ret  ->  gen/EmitRet.v
# A small translator for straight-line if/elif/else code over "return-value" objects (model/Val.v: rv).
import ast

from . import Mismatch, find_assign, find_class, find_func, need, parse

SENTINELS = {"Skip": "RSkip", "Null": "RNull", "SkipAll": "RSkipAll", "Pass": "RPass"}


class Tr:
    def __init__(self, fname, params):
        self.fname = fname
        self.n = 0
        self.params = params  # python name -> (gallina name, type)  type in {"rv","event","bool"}

    def fresh(self, base):
        self.n += 1
        return "%s_%d" % (base, self.n)

    # ---- expressions
    def rv(self, e, env):
        if isinstance(e, ast.Constant) and e.value is None:
            return "RNone"
        if isinstance(e, ast.Name):
            if e.id in env:
                g, t = env[e.id]
                need(t == "rv", e, "expected a value variable: %s" % e.id, self.fname)
                return g
            if e.id in SENTINELS:
                return SENTINELS[e.id]
            need(False, e, "unknown name %s" % e.id, self.fname)
        if isinstance(e, ast.Attribute) and isinstance(e.value, ast.Name) and e.value.id == "self" and e.attr == "sys_tracer":
            return "sys_tracer"
        if isinstance(e, ast.Tuple) and len(e.elts) == 2:
            return "(RTuple2 %s %s)" % (self.rv(e.elts[0], env), self.rv(e.elts[1], env))
        if isinstance(e, ast.Lambda):
            a = e.args
            need(a.vararg is not None and not a.args and not a.kwonlyargs and a.kwarg is None, e, "lambda *_: x expected", self.fname)
            return "(RConstThunk %s)" % self.rv(e.body, env)
        need(False, e, "unsupported value expression %s" % ast.dump(e)[:80], self.fname)

    def evt(self, e):
        need(isinstance(e, ast.Attribute) and isinstance(e.value, ast.Name) and e.value.id == "TraceEvent", e, "TraceEvent.x expected", self.fname)
        m = e.attr
        return "E_" + m if not m.startswith("_") else "E_priv" + m

    def b(self, e, env):
        if isinstance(e, ast.BoolOp):
            op = "orb" if isinstance(e.op, ast.Or) else "andb"
            out = self.b(e.values[-1], env)
            for v in reversed(e.values[:-1]):
                out = "(%s %s %s)" % (op, self.b(v, env), out)
            return out
        if isinstance(e, ast.UnaryOp) and isinstance(e.op, ast.Not):
            return "(negb %s)" % self.b(e.operand, env)
        if isinstance(e, ast.Compare) and len(e.ops) == 1:
            l, r = e.left, e.comparators[0]
            if isinstance(e.ops[0], (ast.Is, ast.IsNot)):
                s = "(rv_is %s %s)" % (self.rv(l, env), self.rv(r, env))
                return s if isinstance(e.ops[0], ast.Is) else "(negb %s)" % s
            if isinstance(e.ops[0], ast.Eq) and isinstance(l, ast.Name) and env.get(l.id, (None, None))[1] == "event":
                return "(event_eqb %s %s)" % (env[l.id][0], self.evt(r))
            if isinstance(e.ops[0], ast.In) and isinstance(l, ast.Name) and env.get(l.id, (None, None))[1] == "event":
                if isinstance(r, ast.Tuple):
                    out = "false"
                    for x in reversed(r.elts):
                        out = "(orb (event_eqb %s %s) %s)" % (env[l.id][0], self.evt(x), out)
                    return out
                if isinstance(r, ast.Name) and r.id == "_BEFORE_EXPR_EVENT_NAMES":
                    return "(is_before_expr_event %s)" % env[l.id][0]
        if isinstance(e, ast.Call) and isinstance(e.func, ast.Name) and e.func.id == "callable" and len(e.args) == 1:
            return "(rv_callable %s)" % self.rv(e.args[0], env)
        if isinstance(e, ast.Name) and env.get(e.id, (None, None))[1] == "bool":
            return env[e.id][0]
        need(False, e, "unsupported condition %s" % ast.dump(e)[:100], self.fname)

    def any_expr(self, e, env):
        """returns (gallina, type)"""
        if isinstance(e, ast.Tuple) and len(e.elts) == 2:
            a, ta = self.any_expr(e.elts[0], env)
            b_, tb = self.any_expr(e.elts[1], env)
            if (ta, tb) == ("rv", "rv"):
                return "(RTuple2 %s %s)" % (a, b_), "rv"
            return "(%s, %s)" % (a, b_), "%s*%s" % (ta, tb)
        try:
            return self.rv(e, env), "rv"
        except Mismatch:
            return self.b(e, env), "bool"

    # ---- statements: returns gallina expression for "the value returned by running stmts then rest"
    def assigned(self, stmts):
        out = []
        for s in stmts:
            if isinstance(s, ast.Assign):
                need(len(s.targets) == 1 and isinstance(s.targets[0], ast.Name), s, "simple assignment", self.fname)
                if s.targets[0].id not in out:
                    out.append(s.targets[0].id)
            elif isinstance(s, ast.If):
                for v in self.assigned(s.body) + self.assigned(s.orelse):
                    if v not in out:
                        out.append(v)
        return out

    def returns(self, stmts):
        return any(isinstance(s, ast.Return) or (isinstance(s, ast.If) and (self.returns(s.body) or self.returns(s.orelse))) for s in stmts)

    def block(self, stmts, env, cont):
        """cont(env) -> gallina for what follows (None if block must return)"""
        if not stmts:
            need(cont is not None, ast.Pass(), "fell off the end without return", self.fname)
            return cont(env)
        s, rest = stmts[0], stmts[1:]
        if isinstance(s, ast.Expr) and isinstance(s.value, ast.Constant):
            return self.block(rest, env, cont)
        if isinstance(s, ast.Return):
            g, t = self.any_expr(s.value, env)
            self.ret_type = t
            return g
        if isinstance(s, ast.Assign):
            need(len(s.targets) == 1 and isinstance(s.targets[0], ast.Name), s, "simple assignment", self.fname)
            g, t = self.any_expr(s.value, env)
            v = self.fresh(s.targets[0].id)
            env2 = dict(env)
            env2[s.targets[0].id] = (v, t)
            return "let %s := %s in\n  %s" % (v, g, self.block(rest, env2, cont))
        if isinstance(s, ast.If):
            c = self.b(s.test, env)
            if self.returns([s]):
                # no join needed when every path that continues just continues with rest
                def k(env_):
                    return self.block(rest, env_, cont)
                return "(if %s\n   then %s\n   else %s)" % (c, self.block(s.body, env, k), self.block(s.orelse, env, k))
            vs = [v for v in self.assigned([s])]
            for v in vs:
                need(v in env, s, "variable %s assigned in a branch must be defined before" % v, self.fname)

            def tup(env_):
                return "(" + ", ".join(env_[v][0] for v in vs) + ")" if len(vs) != 1 else env_[vs[0]][0]

            newnames = [self.fresh(v) for v in vs]
            env2 = dict(env)
            for v, nn in zip(vs, newnames):
                env2[v] = (nn, env[v][1])
            pat = "'(" + ", ".join(newnames) + ")" if len(vs) != 1 else newnames[0]
            return "let %s := (if %s\n   then %s\n   else %s) in\n  %s" % (
                pat, c, self.block(s.body, env, tup), self.block(s.orelse, env, tup), self.block(rest, env2, cont))
        need(False, s, "unsupported statement %s" % type(s).__name__, self.fname)


def tr_function(fn, fname, ptypes, gname, extra_params=""):
    tr = Tr(fname, None)
    args = [a.arg for a in fn.args.args if a.arg != "self"]
    need(args == list(ptypes), fn, "parameters of %s changed: %s" % (fn.name, args), fname)
    env = {a: (a, t) for a, t in ptypes.items()}
    body = tr.block(fn.body, env, None)
    sig = " ".join("(%s : %s)" % (a, t) for a, t in ptypes.items())
    return "Definition %s %s %s :=\n  %s.\n" % (gname, extra_params, sig, body)


def generate(repo):
    mod, fn = parse(repo, "pyccolo/tracer.py")
    cls = find_class(mod, "_InternalBaseTracer", fn)
    f1 = find_func(cls.body, "_handle_skipall_emit_return", fn)
    f2 = find_func(cls.body, "_handle_normal_emit_return", fn)
    mod2, fn2 = parse(repo, "pyccolo/emit_event.py")
    f3 = find_func(mod2.body, "_make_ret", fn2)
    v = find_assign(mod2.body, "_BEFORE_EXPR_EVENT_NAMES", fn2)
    need(ast.dump(v) == ast.dump(ast.parse("{evt.value for evt in BEFORE_EXPR_EVENTS}").body[0].value), v,
         "_BEFORE_EXPR_EVENT_NAMES must be {evt.value for evt in BEFORE_EXPR_EVENTS}", fn2)
    # sentinels really are distinct fresh objects
    for name in ("Null", "Pass", "Skip"):
        s = find_assign(mod.body, name, fn)
        need(ast.dump(s) == ast.dump(ast.parse("object()").body[0].value), s, "%s must be object()" % name, fn)
    s = find_assign(mod2.body, "SkipAll", fn2)
    need(ast.dump(s) == ast.dump(ast.parse("object()").body[0].value), s, "SkipAll must be object()", fn2)
    out = ["(* GENERATED from tracer.py / emit_event.py by tools/translators/gen_emitret.py -- do not edit *)",
           "From Coq Require Import Bool NArith.", "From PyccoloV Require Import gen.Events model.Val.", ""]
    out.append(tr_function(f1, fn, {"event": "event", "old_ret": "rv"}, "handle_skipall_emit_return", "(sys_tracer : rv)"))
    out.append(tr_function(f2, fn, {"event": "event", "old_ret": "rv", "new_ret": "rv"}, "handle_normal_emit_return", "(sys_tracer : rv)"))
    out.append(tr_function(f3, fn2, {"event": "event", "ret": "rv"}, "make_ret"))
    return {"EmitRet.v": "\n".join(out)}
