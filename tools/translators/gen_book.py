# ast_rewriter.AstRewriter.visit / tracer.add_bookkeeping / remove_bookkeeping  ->  gen/BookOrder.v
# In which order does a re-instrumentation of a path remove the old bookkeeper's keys and add the new one's, under which
# condition is the old one removed, and which tables do the two operations touch.
import ast

from . import Mismatch, find_class, find_func, need, parse

TABLES = ["ast_node_by_id", "containing_ast_by_id", "containing_stmt_by_id", "parent_stmt_by_id"]


def call_of(stmt, obj, meth):
    if isinstance(stmt, ast.Expr) and isinstance(stmt.value, ast.Call) and isinstance(stmt.value.func, ast.Attribute) and stmt.value.func.attr == meth \
            and isinstance(stmt.value.func.value, ast.Name) and stmt.value.func.value.id == obj:
        return [a.id if isinstance(a, ast.Name) else ("%s.%s" % (a.value.id, a.attr) if isinstance(a, ast.Attribute) and isinstance(a.value, ast.Name) else None)
                for a in stmt.value.args]
    return None


def generate(repo):
    mod, fn = parse(repo, "pyccolo/ast_rewriter.py")
    cls = find_class(mod, "AstRewriter", fn)
    gc_default = None
    for n in cls.body:
        if isinstance(n, ast.Assign) and isinstance(n.targets[0], ast.Name) and n.targets[0].id == "gc_bookkeeping":
            need(isinstance(n.value, ast.Constant) and isinstance(n.value.value, bool), n, "gc_bookkeeping must be a boolean literal", fn)
            gc_default = n.value.value
    need(gc_default is not None, cls, "class attribute gc_bookkeeping not found", fn)
    visit = find_func(cls.body, "visit", fn)
    i_old = i_new = i_rm = i_add = None
    for i, s in enumerate(visit.body):
        if isinstance(s, ast.Assign) and isinstance(s.targets[0], ast.Name) and s.targets[0].id == "old_bookkeeper":
            v = s.value
            need(isinstance(v, ast.Call) and isinstance(v.func, ast.Attribute) and v.func.attr == "get" and isinstance(v.func.value, ast.Attribute)
                 and v.func.value.attr == "ast_bookkeeper_by_fname", s, "old_bookkeeper must be ast_bookkeeper_by_fname.get(path)", fn)
            i_old = i
        if isinstance(s, ast.Assign) and len(s.targets) == 2 and isinstance(s.targets[0], ast.Name) and s.targets[0].id == "new_bookkeeper":
            t = s.targets[1]
            need(isinstance(t, ast.Subscript) and isinstance(t.value, ast.Attribute) and t.value.attr == "ast_bookkeeper_by_fname", s,
                 "new_bookkeeper must be registered in ast_bookkeeper_by_fname[path]", fn)
            i_new = i
        if isinstance(s, ast.If) and len(s.body) == 1 and not s.orelse and call_of(s.body[0], "last_tracer", "remove_bookkeeping") is not None \
                and call_of(s.body[0], "last_tracer", "remove_bookkeeping")[0] == "old_bookkeeper":
            need(i_rm is None, s, "two removals of the old bookkeeper", fn)
            args = call_of(s.body[0], "last_tracer", "remove_bookkeeping")
            need(args in (["old_bookkeeper", "module_id"], ["old_bookkeeper", "old_bookkeeper.module_id"]), s,
                 "remove_bookkeeping(old_bookkeeper, module_id | old_bookkeeper.module_id) expected", fn)
            remove_old_mid = args[1] == "old_bookkeeper.module_id"
            t = s.test
            need(isinstance(t, ast.BoolOp) and isinstance(t.op, ast.And) and len(t.values) == 3, s, "removal condition must be a conjunction of three", fn)
            a, b, c = t.values
            need(isinstance(a, ast.Compare) and isinstance(a.left, ast.Name) and a.left.id == "old_bookkeeper" and isinstance(a.ops[0], ast.IsNot)
                 and isinstance(a.comparators[0], ast.Constant) and a.comparators[0].value is None, a, "`old_bookkeeper is not None` expected", fn)
            need(isinstance(b, ast.Attribute) and b.attr == "gc_bookkeeping", b, "`self.gc_bookkeeping` expected", fn)
            need(isinstance(c, ast.UnaryOp) and isinstance(c.op, ast.Not) and isinstance(c.operand, ast.Call) and isinstance(c.operand.func, ast.Name)
                 and c.operand.func.id == "isinstance" and isinstance(c.operand.args[0], ast.Name) and c.operand.args[0].id == "node"
                 and isinstance(c.operand.args[1], ast.Tuple) and sorted(e.attr for e in c.operand.args[1].elts) == ["AsyncFunctionDef", "FunctionDef"],
                 c, "`not isinstance(node, (ast.FunctionDef, ast.AsyncFunctionDef))` expected", fn)
            i_rm = i
        if call_of(s, "last_tracer", "add_bookkeeping") is not None:
            need(i_add is None, s, "two additions", fn)
            need(call_of(s, "last_tracer", "add_bookkeeping") == ["new_bookkeeper", "module_id"], s, "add_bookkeeping(new_bookkeeper, module_id) expected", fn)
            i_add = i
    mids = [s for s in visit.body if isinstance(s, ast.Assign) and isinstance(s.targets[0], ast.Name) and s.targets[0].id == "module_id"]
    need(len(mids) == 1 and isinstance(mids[0].value, ast.IfExp), visit, "module_id = <default> if self._module_id is None else self._module_id", fn)
    dflt = mids[0].value.body
    need(isinstance(dflt, ast.Call) and isinstance(dflt.func, ast.Name) and dflt.func.id == "id" and len(dflt.args) == 1, mids[0], "the default module id is id(<something>)", fn)
    a0 = dflt.args[0]
    if isinstance(a0, ast.Name) and a0.id == "node":
        mid_registered = False
    else:
        need(isinstance(a0, ast.Subscript) and isinstance(a0.value, ast.Name) and a0.value.id == "orig_to_copy_mapping" and isinstance(a0.slice, ast.Call)
             and isinstance(a0.slice.func, ast.Name) and a0.slice.func.id == "id" and isinstance(a0.slice.args[0], ast.Name) and a0.slice.args[0].id == "node",
             mids[0], "id(node) or id(orig_to_copy_mapping[id(node)]) expected", fn)
        mid_registered = True
    need(None not in (i_old, i_new, i_rm, i_add), visit, "old/new bookkeeper, removal and addition not all found at the top level of AstRewriter.visit", fn)
    need(i_old < i_new and i_new < i_rm and i_new < i_add, visit, "the old bookkeeper must be read before the new one is registered, both before removal / addition", fn)
    # the two class methods
    tmod, tfn = parse(repo, "pyccolo/tracer.py")
    tcls = find_class(tmod, "_InternalBaseTracer", tfn)
    rm, ad = find_func(tcls.body, "remove_bookkeeping", tfn), find_func(tcls.body, "add_bookkeeping", tfn)
    cleared = []
    line_guarded = False
    for s in rm.body:
        c = s.value if isinstance(s, ast.Expr) else None
        if isinstance(c, ast.Call) and isinstance(c.func, ast.Name) and c.func.id == "clear_keys" and isinstance(c.args[0], ast.Attribute) and isinstance(c.args[1], ast.Attribute):
            need(c.args[0].attr == c.args[1].attr and isinstance(c.args[1].value, ast.Name) and c.args[1].value.id == "bookkeeper", s, "clear_keys(cls.T, bookkeeper.T) expected", tfn)
            cleared.append(c.args[0].attr)
        elif isinstance(s, ast.If):
            t = s.test
            need(isinstance(t, ast.Compare) and isinstance(t.left, ast.Name) and t.left.id == "module_id" and isinstance(t.ops[0], ast.IsNot), s, "`if module_id is not None:` expected", tfn)
            c = s.body[0].value if len(s.body) == 1 and isinstance(s.body[0], ast.Expr) else None
            need(isinstance(c, ast.Call) and isinstance(c.func, ast.Name) and c.func.id == "clear_keys" and isinstance(c.args[0], ast.Subscript)
                 and isinstance(c.args[0].value, ast.Attribute) and c.args[0].value.attr == "stmt_by_lineno_by_module_id" and isinstance(c.args[0].slice, ast.Name)
                 and c.args[0].slice.id == "module_id" and isinstance(c.args[1], ast.Attribute) and c.args[1].attr == "stmt_by_lineno", s,
                 "clear_keys(cls.stmt_by_lineno_by_module_id[module_id], bookkeeper.stmt_by_lineno) expected", tfn)
            line_guarded = True
        elif isinstance(s, ast.For):
            pass        # augmented_node_ids_by_spec (C14)
        else:
            raise Mismatch("%s:%s: unexpected statement in remove_bookkeeping" % (tfn, s.lineno))
    need(cleared == TABLES and line_guarded, rm, "remove_bookkeeping must clear %s and the line table (found %s)" % (TABLES, cleared), tfn)
    updated = []
    for s in ad.body:
        c = s.value if isinstance(s, ast.Expr) else None
        need(isinstance(c, ast.Call) and isinstance(c.func, ast.Attribute) and c.func.attr == "update" and len(c.args) == 1 and isinstance(c.args[0], ast.Attribute)
             and isinstance(c.args[0].value, ast.Name) and c.args[0].value.id == "bookkeeper", s, "T.update(bookkeeper.T) expected", tfn)
        tgt = c.func.value
        if isinstance(tgt, ast.Attribute):
            need(tgt.attr == c.args[0].attr, s, "table / bookkeeper field mismatch", tfn)
            updated.append(tgt.attr)
        else:
            need(isinstance(tgt, ast.Subscript) and isinstance(tgt.value, ast.Attribute) and tgt.value.attr == "stmt_by_lineno_by_module_id" and isinstance(tgt.slice, ast.Name)
                 and tgt.slice.id == "module_id" and c.args[0].attr == "stmt_by_lineno", s, "stmt_by_lineno_by_module_id[module_id].update(bookkeeper.stmt_by_lineno) expected", tfn)
            updated.append("lines")
    need(updated == TABLES + ["lines"], ad, "add_bookkeeping must update %s and the line table (found %s)" % (TABLES, updated), tfn)
    text = ("(* GENERATED from ast_rewriter.py and tracer.py by tools/translators/gen_book.py -- do not edit *)\n"
            "(* AstRewriter.visit: the old bookkeeper of the path is removed from the class-level tables before (true) or after (false) the new one is added *)\n"
            "Definition book_remove_first : bool := %s.\n"
            "(* AstRewriter.gc_bookkeeping (class default) *)\n"
            "Definition book_gc_default : bool := %s.\n"
            "(* the old bookkeeper's lines are cleared from the line table of ITS module id (true) or of the new one's (false) *)\n"
            "Definition book_remove_old_mid : bool := %s.\n"
            "(* the line tables are keyed by the id of the registered copy of the tree - one of the bookkeeper's own nodes, alive as long as its entries -\n"
            "   (true) or by the id of the tree handed to the rewriter (false) *)\n"
            "Definition book_mid_is_registered_node : bool := %s.\n"
            % ("true" if i_rm < i_add else "false", "true" if gc_default else "false", "true" if remove_old_mid else "false", "true" if mid_registered else "false"))
    return {"BookOrder.v": text}
