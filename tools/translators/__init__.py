# Fail-closed translators: parse /repo's *source text* with `ast`, match an expected shape, emit Coq text.
# An unrecognised shape raises Mismatch (file:line), which the check treats as a broken tie.
import ast
import os


class Mismatch(Exception):
    pass


def need(cond, node, msg, fname):
    if not cond:
        raise Mismatch("%s:%s: %s" % (fname, getattr(node, "lineno", "?"), msg))


def write_if_changed(path, text):
    old = None
    if os.path.exists(path):
        old = open(path).read()
    if old != text:
        os.makedirs(os.path.dirname(path), exist_ok=True)
        with open(path, "w") as f:
            f.write(text)


def parse(repo, rel):
    p = os.path.join(repo, rel)
    return ast.parse(open(p).read(), p), rel


def find_class(mod, name, fname):
    for n in mod.body:
        if isinstance(n, ast.ClassDef) and n.name == name:
            return n
    raise Mismatch("%s: class %s not found" % (fname, name))


def find_func(body, name, fname):
    for n in body:
        if isinstance(n, (ast.FunctionDef,)) and n.name == name:
            return n
    raise Mismatch("%s: function %s not found" % (fname, name))


def find_assign(body, name, fname):
    for n in body:
        if isinstance(n, ast.Assign) and len(n.targets) == 1 and isinstance(n.targets[0], ast.Name) and n.targets[0].id == name:
            return n.value
        if isinstance(n, ast.AnnAssign) and isinstance(n.target, ast.Name) and n.target.id == name and n.value is not None:
            return n.value
    raise Mismatch("%s: assignment to %s not found" % (fname, name))


def run_all(repo, outdir):
    from . import gen_events, gen_emitret, gen_defaults, gen_pred, gen_switches, gen_pyast, gen_book, gen_syshist

    errs = []
    for m in (gen_events, gen_emitret, gen_defaults, gen_pred, gen_switches, gen_pyast, gen_book, gen_syshist):
        try:
            for fn, text in m.generate(repo).items():
                write_if_changed(os.path.join(outdir, fn), text)
        except Mismatch as e:
            errs.append("translator %s: %s" % (m.__name__, e))
        except Exception as e:  # fail closed on anything
            import traceback

            errs.append("translator %s crashed:\n%s" % (m.__name__, traceback.format_exc()))
    return errs
