# tracer.py: _call_existing_tracer / _make_composed_tracer  ->  gen/SysFlags.v
#   sys_checks_uninstall : the third-party function is skipped while self.existing_tracer is None (user code called sys.settrace(None))
#   sys_wraps_foreign    : for a frame the tracer does not trace itself, the third party's local function is wrapped in a composed tracer
import ast

from . import Mismatch, find_class, find_func, need, parse


def is_none_test(t, name=None, attr=None):
    if not (isinstance(t, ast.Compare) and len(t.ops) == 1 and isinstance(t.ops[0], ast.Is) and isinstance(t.comparators[0], ast.Constant) and t.comparators[0].value is None):
        return False
    if name is not None:
        return isinstance(t.left, ast.Name) and t.left.id == name
    return isinstance(t.left, ast.Attribute) and t.left.attr == attr and isinstance(t.left.value, ast.Name) and t.left.value.id == "self"


def generate(repo):
    mod, fn = parse(repo, "pyccolo/tracer.py")
    cls = find_class(mod, "_InternalBaseTracer", fn)
    ce = find_func(cls.body, "_call_existing_tracer", fn)
    first = ce.body[0]
    need(isinstance(first, ast.If) and len(first.body) >= 1 and isinstance(first.body[-1], ast.Return) and isinstance(first.body[-1].value, ast.Constant)
         and first.body[-1].value.value is None, ce, "_call_existing_tracer must start with `if ...: return None`", fn)
    t = first.test
    if is_none_test(t, name="existing_tracer"):
        checks = False
    elif isinstance(t, ast.BoolOp) and isinstance(t.op, ast.Or) and len(t.values) == 2 and is_none_test(t.values[0], name="existing_tracer") \
            and is_none_test(t.values[1], attr="existing_tracer"):
        checks = True
    else:
        raise Mismatch("%s:%s: test of _call_existing_tracer not recognised" % (fn, first.lineno))
    # the rest: call the function, put the interpreter's trace function back if it changed, return the result
    calls = [n for n in ast.walk(ce) if isinstance(n, ast.Call) and isinstance(n.func, ast.Name) and n.func.id == "existing_tracer"]
    need(len(calls) == 1, ce, "_call_existing_tracer must call existing_tracer exactly once", fn)
    mk = find_func(cls.body, "_make_composed_tracer", fn)
    inner = [n for n in mk.body if isinstance(n, ast.FunctionDef)]
    need(len(inner) == 1, mk, "one inner function expected in _make_composed_tracer", fn)
    def evt_test(n, op):
        return isinstance(n, ast.If) and isinstance(n.test, ast.Compare) and isinstance(n.test.left, ast.Name) and n.test.left.id == "evt" \
            and isinstance(n.test.ops[0], op) and isinstance(n.test.comparators[0], ast.Constant) and n.test.comparators[0].value == "call"
    call_if = [n for n in inner[0].body if evt_test(n, ast.Eq)]
    noncall_if = [n for n in inner[0].body if evt_test(n, ast.NotEq)]
    need(len(call_if) + len(noncall_if) == 1, inner[0], "`if evt == \"call\":` or `if evt != \"call\":` expected once in the composed tracer", fn)
    if call_if:
        # older shape: the call case inside the `if`, other events fall through to a return that may hand a value to the interpreter
        chain_start = call_if[0].body[0]
        noncall_none, rebinds = False, False
    else:
        nc = noncall_if[0]
        need(not nc.orelse and isinstance(nc.body[-1], ast.Return) and isinstance(nc.body[-1].value, ast.Constant) and nc.body[-1].value.value is None
             and not any(isinstance(x, ast.Return) for st in nc.body[:-1] for x in ast.walk(st)), nc, "`if evt != \"call\":` must end in its only return, `return None`", fn)
        rebinds = any(isinstance(x, ast.Assign) and isinstance(x.targets[0], ast.Name) and x.targets[0].id == "existing_tracer"
                      and isinstance(x.value, ast.Name) and x.value.id == "existing_ret" for st in nc.body for x in ast.walk(st))
        noncall_none = True
        rest = inner[0].body[inner[0].body.index(nc) + 1:]
        chain = [n for n in rest if isinstance(n, ast.If) and isinstance(n.test, ast.BoolOp)]
        need(len(chain) >= 1, inner[0], "the call case (an if / elif chain on my_ret and existing_ret) expected after the non-call case", fn)
        chain_start = chain[0]
    # find the branch `elif my_ret is None:`
    node = chain_start
    branch = None
    while isinstance(node, ast.If):
        if is_none_test(node.test, name="my_ret"):
            branch = node
            break
        node = node.orelse[0] if len(node.orelse) == 1 else None
    need(branch is not None, chain_start, "branch `my_ret is None` of the call case not found", fn)
    b = branch.body
    if len(b) == 1 and isinstance(b[0], ast.Return) and isinstance(b[0].value, ast.Name) and b[0].value.id == "existing_ret":
        wraps = False
    elif len(b) == 2 and isinstance(b[0], ast.If) and is_none_test(b[0].test, name="existing_ret") and isinstance(b[0].body[0], ast.Return) \
            and isinstance(b[1], ast.Return) and isinstance(b[1].value, ast.Call) and isinstance(b[1].value.func, ast.Attribute) \
            and b[1].value.func.attr == "_make_composed_tracer" and len(b[1].value.args) >= 1 and isinstance(b[1].value.args[0], ast.Name) and b[1].value.args[0].id == "existing_ret":
        wraps = True
    else:
        raise Mismatch("%s:%s: branch `my_ret is None` of the composed tracer not recognised" % (fn, branch.lineno))
    text = ("(* GENERATED from tracer.py by tools/translators/gen_syshist.py -- do not edit *)\n"
            "(* _call_existing_tracer skips the third-party function while self.existing_tracer is None *)\n"
            "Definition sys_checks_uninstall : bool := %s.\n"
            "(* a frame the tracer does not trace itself gets a composed local function around the third party's *)\n"
            "Definition sys_wraps_foreign : bool := %s.\n"
            "(* for every event but 'call' the composed tracer returns None to the interpreter (the frame keeps its local function), whatever the handlers were given or left *)\n"
            "Definition sys_noncall_returns_none : bool := %s.\n"
            "(* when the third party's local function hands over to another local function, the frame's composed tracer follows *)\n"
            "Definition sys_rebinds_local : bool := %s.\n"
            % ("true" if checks else "false", "true" if wraps else "false", "true" if noncall_none else "false", "true" if rebinds else "false"))
    return {"SysFlags.v": text}
