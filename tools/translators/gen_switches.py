# emit_event.py: are the two re-entrancy switches process-wide module globals or per-thread?  ->  gen/Switches.v
import ast

from . import Mismatch, find_func, need, parse


def generate(repo):
    mod, fn = parse(repo, "pyccolo/emit_event.py")
    glob_assigned = set()
    local_cls = None
    for n in mod.body:
        if isinstance(n, ast.Assign) and len(n.targets) == 1 and isinstance(n.targets[0], ast.Name):
            glob_assigned.add(n.targets[0].id)
        if isinstance(n, ast.ClassDef) and any(
            (isinstance(b, ast.Attribute) and b.attr == "local" and isinstance(b.value, ast.Name) and b.value.id == "threading") for b in n.bases
        ):
            attrs = {s.targets[0].id: s.value for s in n.body if isinstance(s, ast.Assign) and isinstance(s.targets[0], ast.Name)}
            if {"allow_event_handling", "allow_reentrant_event_handling"} <= set(attrs):
                need(isinstance(attrs["allow_event_handling"], ast.Constant) and attrs["allow_event_handling"].value is True, n, "allow_event_handling must default to True", fn)
                need(isinstance(attrs["allow_reentrant_event_handling"], ast.Constant) and attrs["allow_reentrant_event_handling"].value is False, n, "allow_reentrant_event_handling must default to False", fn)
                local_cls = n.name
    f1 = find_func(mod.body, "_emit_event", fn)
    f2 = find_func(mod.body, "_emit_tracer_loop", fn)
    uses_global = any(isinstance(s, ast.Global) for f in (f1, f2) for s in ast.walk(f))
    if local_cls is not None and not uses_global and "_allow_event_handling" not in glob_assigned:
        # the instance the functions use must be an instance of that threading.local subclass
        inst = [n.targets[0].id for n in mod.body if isinstance(n, ast.Assign) and isinstance(n.value, ast.Call)
                and isinstance(n.value.func, ast.Name) and n.value.func.id == local_cls]
        need(len(inst) == 1, mod, "exactly one module-level instance of %s expected" % local_cls, fn)
        used = {a.value.id for f in (f1, f2) for a in ast.walk(f) if isinstance(a, ast.Attribute) and isinstance(a.value, ast.Name)
                and a.attr in ("allow_event_handling", "allow_reentrant_event_handling")}
        need(used == {inst[0]}, f1, "switch accesses must all go through %s (found %s)" % (inst[0], sorted(used)), fn)
        shared = False
    elif {"_allow_event_handling", "_allow_reentrant_event_handling"} <= glob_assigned and uses_global and local_cls is None:
        shared = True
    else:
        raise Mismatch("%s: cannot classify the re-entrancy switches as module globals or threading.local attributes" % fn)
    text = ("(* GENERATED from emit_event.py by tools/translators/gen_switches.py -- do not edit *)\n"
            "(* true: the two switches are process-wide module globals; false: attributes of a threading.local instance *)\n"
            "Definition switches_shared : bool := %s.\n" % ("true" if shared else "false"))
    return {"Switches.v": text}
