# emit_event.py: are the two re-entrancy switches process-wide module globals or per-thread?  ->  gen/Switches.v
import ast

from . import Mismatch, find_func, need, parse


def generate(repo):
    mod, fn = parse(repo, "pyccolo/emit_event.py")
    glob_assigned = set()
    local_cls = None
    for n in mod.body:
        if isinstance(n, ast.Assign) and len(n.targets) == 1 and isinstance(n.targets[0], ast.Name):
            glob_assigned.add(n.targets[0].id)
        if isinstance(n, ast.ClassDef) and any(
            (isinstance(b, ast.Attribute) and b.attr == "local" and isinstance(b.value, ast.Name) and b.value.id == "threading") for b in n.bases
        ):
            attrs = {s.targets[0].id: s.value for s in n.body if isinstance(s, ast.Assign) and isinstance(s.targets[0], ast.Name)}
            if {"allow_event_handling", "allow_reentrant_event_handling"} <= set(attrs):
                need(isinstance(attrs["allow_event_handling"], ast.Constant) and attrs["allow_event_handling"].value is True, n, "allow_event_handling must default to True", fn)
                need(isinstance(attrs["allow_reentrant_event_handling"], ast.Constant) and attrs["allow_reentrant_event_handling"].value is False, n, "allow_reentrant_event_handling must default to False", fn)
                local_cls = n.name
    f1 = find_func(mod.body, "_emit_event", fn)
    f2 = find_func(mod.body, "_emit_tracer_loop", fn)
    uses_global = any(isinstance(s, ast.Global) for f in (f1, f2) for s in ast.walk(f))
    if local_cls is not None and not uses_global and "_allow_event_handling" not in glob_assigned:
        # the instance the functions use must be an instance of that threading.local subclass
        inst = [n.targets[0].id for n in mod.body if isinstance(n, ast.Assign) and isinstance(n.value, ast.Call)
                and isinstance(n.value.func, ast.Name) and n.value.func.id == local_cls]
        need(len(inst) == 1, mod, "exactly one module-level instance of %s expected" % local_cls, fn)
        used = {a.value.id for f in (f1, f2) for a in ast.walk(f) if isinstance(a, ast.Attribute) and isinstance(a.value, ast.Name)
                and a.attr in ("allow_event_handling", "allow_reentrant_event_handling")}
        need(used == {inst[0]}, f1, "switch accesses must all go through %s (found %s)" % (inst[0], sorted(used)), fn)
        shared = False
    elif {"_allow_event_handling", "_allow_reentrant_event_handling"} <= glob_assigned and uses_global and local_cls is None:
        shared = True
    else:
        raise Mismatch("%s: cannot classify the re-entrancy switches as module globals or threading.local attributes" % fn)
    thunk_shared, store_all = saved_thunk_slot(repo, f2, fn)
    text = ("(* GENERATED from emit_event.py and tracer.py by tools/translators/gen_switches.py -- do not edit *)\n"
            "(* true: the two switches are process-wide module globals; false: attributes of a threading.local instance *)\n"
            "Definition switches_shared : bool := %s.\n"
            "(* the slot in which a before_stmt emission leaves the value for the exec-saved-thunk call:\n"
            "   true: one per tracer for the whole process; false: one per tracer and thread (threading.local) *)\n"
            "Definition thunk_shared : bool := %s.\n"
            "(* true: the emission stores the value on every tracer of the stack; false: only on tracers that may see the thread *)\n"
            "Definition thunk_store_all : bool := %s.\n" % tuple("true" if b else "false" for b in (shared, thunk_shared, store_all)))
    return {"Switches.v": text}


def is_self_attr(n, attr=None):
    return isinstance(n, ast.Attribute) and isinstance(n.value, ast.Name) and n.value.id == "self" and (attr is None or n.attr == attr)


def is_ret_read(n):
    """kwargs.get("ret")"""
    return (isinstance(n, ast.Call) and isinstance(n.func, ast.Attribute) and n.func.attr == "get" and isinstance(n.func.value, ast.Name)
            and n.func.value.id == "kwargs" and len(n.args) == 1 and isinstance(n.args[0], ast.Constant) and n.args[0].value == "ret" and not n.keywords)


def saved_thunk_slot(repo, loop_fn, fn_emit):
    mod, fn = parse(repo, "pyccolo/tracer.py")
    cls = None
    for n in mod.body:
        if isinstance(n, ast.ClassDef) and n.name == "_InternalBaseTracer":
            cls = n
    need(cls is not None, mod, "class _InternalBaseTracer not found", fn)
    init = find_func(cls.body, "__init__", fn)
    direct, local_slots = [], set()
    for a in ast.walk(init):
        tgt, val = None, None
        if isinstance(a, ast.Assign) and len(a.targets) == 1:
            tgt, val = a.targets[0], a.value
        elif isinstance(a, ast.AnnAssign):
            tgt, val = a.target, a.value
        if tgt is None or not is_self_attr(tgt):
            continue
        if tgt.attr == "_saved_thunk":
            need(isinstance(val, ast.Constant) and val.value is None, a, "_saved_thunk must start as None", fn)
            direct.append(a)
        if (isinstance(val, ast.Call) and isinstance(val.func, ast.Attribute) and val.func.attr == "local" and isinstance(val.func.value, ast.Name)
                and val.func.value.id == "threading" and not val.args and not val.keywords):
            local_slots.add(tgt.attr)
    props = [f for f in cls.body if isinstance(f, ast.FunctionDef) and f.name == "_saved_thunk"]
    # every other store / read in the class must go through self._saved_thunk
    for f in cls.body:
        if isinstance(f, ast.FunctionDef) and f.name not in ("_saved_thunk", "__init__"):
            for a in ast.walk(f):
                if isinstance(a, ast.Attribute) and a.attr in local_slots and a.attr.startswith("_saved_thunk"):
                    raise Mismatch("%s:%s: the saved-thunk slot is accessed outside its property" % (fn, a.lineno))
    if direct and not props:
        thunk_shared = True
    elif props and not direct:
        need(len(props) == 2, cls, "_saved_thunk must be a property with a getter and a setter", fn)
        getter = [f for f in props if any(isinstance(d, ast.Name) and d.id == "property" for d in f.decorator_list)]
        setter = [f for f in props if any(isinstance(d, ast.Attribute) and d.attr == "setter" and isinstance(d.value, ast.Name) and d.value.id == "_saved_thunk" for d in f.decorator_list)]
        need(len(getter) == 1 and len(setter) == 1, cls, "_saved_thunk getter / setter not recognised", fn)
        g, st = getter[0].body, setter[0].body
        need(len(g) == 1 and isinstance(g[0], ast.Return) and isinstance(g[0].value, ast.Call) and isinstance(g[0].value.func, ast.Name) and g[0].value.func.id == "getattr"
             and len(g[0].value.args) == 3 and is_self_attr(g[0].value.args[0]) and isinstance(g[0].value.args[1], ast.Constant)
             and isinstance(g[0].value.args[2], ast.Constant) and g[0].value.args[2].value is None, getter[0], "getter must be `return getattr(self.<slot>, <name>, None)`", fn)
        slot, field = g[0].value.args[0].attr, g[0].value.args[1].value
        need(slot in local_slots, getter[0], "the slot %s is not a threading.local() created in __init__" % slot, fn)
        param = setter[0].args.args[1].arg if len(setter[0].args.args) == 2 else None
        need(len(st) == 1 and isinstance(st[0], ast.Assign) and len(st[0].targets) == 1 and isinstance(st[0].targets[0], ast.Attribute) and st[0].targets[0].attr == field
             and is_self_attr(st[0].targets[0].value, slot) and isinstance(st[0].value, ast.Name) and st[0].value.id == param, setter[0],
             "setter must be `self.%s.%s = <parameter>`" % (slot, field), fn)
        thunk_shared = False
    else:
        raise Mismatch("%s: cannot classify the _saved_thunk slot (attribute set in __init__: %d, property functions: %d)" % (fn, len(direct), len(props)))
    # exec_saved_thunk takes the value of the calling thread's slot and clears it
    ex = find_func(cls.body, "exec_saved_thunk", fn)
    need(len(ex.body) >= 2 and isinstance(ex.body[0], ast.Assert) and isinstance(ex.body[0].test, ast.Compare) and is_self_attr(ex.body[0].test.left, "_saved_thunk")
         and isinstance(ex.body[0].test.ops[0], ast.IsNot), ex, "exec_saved_thunk must start with `assert self._saved_thunk is not None`", fn)
    a1 = ex.body[1]
    need(isinstance(a1, ast.Assign) and isinstance(a1.targets[0], ast.Tuple) and len(a1.targets[0].elts) == 2 and is_self_attr(a1.targets[0].elts[1], "_saved_thunk")
         and isinstance(a1.value, ast.Tuple) and is_self_attr(a1.value.elts[0], "_saved_thunk") and isinstance(a1.value.elts[1], ast.Constant) and a1.value.elts[1].value is None,
         a1, "exec_saved_thunk must take and clear the slot: `thunk, self._saved_thunk = self._saved_thunk, None`", fn)
    # the final store of the emission loop
    blocks = [s for s in loop_fn.body if isinstance(s, ast.If) and isinstance(s.test, ast.Compare) and isinstance(s.test.left, ast.Name) and s.test.left.id == "event"
              and isinstance(s.test.comparators[0], ast.Constant) and s.test.comparators[0].value == "before_stmt"]
    need(len(blocks) == 1 and not blocks[0].orelse, loop_fn, "one `if event == \"before_stmt\":` block expected at the end of _emit_tracer_loop", fn_emit)
    need(blocks[0] is loop_fn.body[-1], blocks[0], "the before_stmt store must be the last statement of _emit_tracer_loop", fn_emit)
    body = list(blocks[0].body)
    alias = None
    if len(body) == 2 and isinstance(body[0], ast.Assign) and isinstance(body[0].targets[0], ast.Name) and is_ret_read(body[0].value):
        alias = body[0].targets[0].id
        body = body[1:]
    need(len(body) == 1 and isinstance(body[0], ast.For) and isinstance(body[0].iter, ast.Name) and body[0].iter.id == "_TRACER_STACK"
         and isinstance(body[0].target, ast.Name) and not body[0].orelse and len(body[0].body) == 1, blocks[0], "`for tracer in _TRACER_STACK:` with one statement expected", fn_emit)
    var = body[0].target.id
    inner = body[0].body[0]

    def is_store(a):
        return (isinstance(a, ast.Assign) and len(a.targets) == 1 and isinstance(a.targets[0], ast.Attribute) and a.targets[0].attr == "_saved_thunk"
                and isinstance(a.targets[0].value, ast.Name) and a.targets[0].value.id == var
                and (is_ret_read(a.value) or (alias is not None and isinstance(a.value, ast.Name) and a.value.id == alias)))
    if is_store(inner):
        store_all = True
    else:
        t = inner.test if isinstance(inner, ast.If) else None
        need(t is not None and not inner.orelse and len(inner.body) == 1 and is_store(inner.body[0]) and isinstance(t, ast.BoolOp) and isinstance(t.op, ast.Or) and len(t.values) == 2
             and isinstance(t.values[0], ast.Compare) and isinstance(t.values[0].ops[0], ast.Eq) and isinstance(t.values[0].left, ast.Name) and t.values[0].left.id == "current_thread_id"
             and isinstance(t.values[0].comparators[0], ast.Name) and t.values[0].comparators[0].id == "_main_thread_id"
             and isinstance(t.values[1], ast.Attribute) and t.values[1].attr == "multiple_threads_allowed" and isinstance(t.values[1].value, ast.Name) and t.values[1].value.id == var,
             inner, "the before_stmt store is neither unconditional nor guarded by `current_thread_id == _main_thread_id or tracer.multiple_threads_allowed`", fn_emit)
        store_all = False
    return thunk_shared, store_all
