# predicate.py coalescing rules -> gen/PredCoalesce.v   (filled in with C11)
def generate(repo):
    return {}
