# predicate.py (Predicate / CompositePredicate decision logic), the delivery test of tracer.py::_emit_event and the
# composite the rewriter builds per event (ast_rewriter.py)  ->  gen/PredGen.v
# Straight-line boolean code only; recursion over predicate structures is hand-written in model/Pred.v on top of these.
import ast

from . import Mismatch, find_class, find_func, need, parse


class BoolTr:
    """boolean expression translator with a caller-supplied table for the leaves"""

    def __init__(self, fname, leaves):
        self.fname = fname
        self.leaves = leaves      # list of (matcher(expr) -> gallina | None)

    def tr(self, e):
        for m in self.leaves:
            g = m(e)
            if g is not None:
                return g
        if isinstance(e, ast.Constant) and isinstance(e.value, bool):
            return "true" if e.value else "false"
        if isinstance(e, ast.IfExp):
            return "(if %s then %s else %s)" % (self.tr(e.test), self.tr(e.body), self.tr(e.orelse))
        if isinstance(e, ast.BoolOp):
            op = "orb" if isinstance(e.op, ast.Or) else "andb"
            out = self.tr(e.values[-1])
            for v in reversed(e.values[:-1]):
                out = "(%s %s %s)" % (op, self.tr(v), out)
            return out
        if isinstance(e, ast.UnaryOp) and isinstance(e.op, ast.Not):
            return "(negb %s)" % self.tr(e.operand)
        need(False, e, "unsupported condition %s" % ast.dump(e)[:120], self.fname)


class BoolTrX(BoolTr):
    """the same expressions with Python's evaluation order and exceptions: every value is `option bool`, None = an exception was raised
    while evaluating it; `a or b`, `a and b`, `x if c else y` evaluate (and may raise in) only what Python evaluates.
    `optleaves`: the leaf terms that are already of type option bool (the others are total booleans)"""

    def __init__(self, fname, leaves, optleaves):
        BoolTr.__init__(self, fname, leaves)
        self.optleaves = set(optleaves)

    def tr(self, e):
        for m in self.leaves:
            g = m(e)
            if g is not None:
                return g if g in self.optleaves else "(Some %s)" % g
        if isinstance(e, ast.Constant) and isinstance(e.value, bool):
            return "(Some %s)" % ("true" if e.value else "false")
        if isinstance(e, ast.IfExp):
            return "(match %s with Some true => %s | Some false => %s | None => None end)" % (self.tr(e.test), self.tr(e.body), self.tr(e.orelse))
        if isinstance(e, ast.BoolOp):
            out = self.tr(e.values[-1])
            for v in reversed(e.values[:-1]):
                if isinstance(e.op, ast.Or):
                    out = "(match %s with Some true => Some true | Some false => %s | None => None end)" % (self.tr(v), out)
                else:
                    out = "(match %s with Some false => Some false | Some true => %s | None => None end)" % (self.tr(v), out)
            return out
        if isinstance(e, ast.UnaryOp) and isinstance(e.op, ast.Not):
            return "(option_map negb %s)" % self.tr(e.operand)
        need(False, e, "unsupported condition %s" % ast.dump(e)[:120], self.fname)


def guarded_call(mod, fname, elt, pv):
    """`g(pred, node)` where the module-level g is `try: return pred(node) / except Exception: return <bool>`: the bool, else None"""
    if not (isinstance(elt, ast.Call) and isinstance(elt.func, ast.Name) and len(elt.args) == 2 and not elt.keywords
            and isinstance(elt.args[0], ast.Name) and elt.args[0].id == pv and isinstance(elt.args[1], ast.Name)):
        return None
    fns = [n for n in mod.body if isinstance(n, ast.FunctionDef) and n.name == elt.func.id]
    need(len(fns) == 1, elt, "one module-level definition of %s" % elt.func.id, fname)
    fn = fns[0]
    need(len(fn.args.args) == 2 and not fn.args.vararg and not fn.args.kwarg and not fn.args.kwonlyargs and not fn.args.defaults and not fn.decorator_list, fn, "%s(pred, node)" % fn.name, fname)
    a0, a1 = fn.args.args[0].arg, fn.args.args[1].arg
    body = [s for s in fn.body if not (isinstance(s, ast.Expr) and isinstance(s.value, ast.Constant))]
    need(len(body) == 1 and isinstance(body[0], ast.Try) and not body[0].orelse and not body[0].finalbody and len(body[0].handlers) == 1, fn, "%s is one try / except" % fn.name, fname)
    t = body[0]
    need(len(t.body) == 1 and isinstance(t.body[0], ast.Return) and isinstance(t.body[0].value, ast.Call) and isinstance(t.body[0].value.func, ast.Name) and t.body[0].value.func.id == a0
         and len(t.body[0].value.args) == 1 and isinstance(t.body[0].value.args[0], ast.Name) and t.body[0].value.args[0].id == a1 and not t.body[0].value.keywords,
         fn, "try: return pred(node)", fname)
    h = t.handlers[0]
    need(isinstance(h.type, ast.Name) and h.type.id == "Exception" and len(h.body) == 1 and isinstance(h.body[0], ast.Return) and isinstance(h.body[0].value, ast.Constant)
         and isinstance(h.body[0].value.value, bool), fn, "except Exception: return <bool literal>", fname)
    return h.body[0].value.value


def is_self_attr(e, attr):
    return isinstance(e, ast.Attribute) and isinstance(e.value, ast.Name) and e.value.id == "self" and e.attr == attr


def is_name_attr(e, name, attr):
    return isinstance(e, ast.Attribute) and isinstance(e.value, ast.Name) and e.value.id == name and e.attr == attr


def single_return(fn, fname):
    body = [s for s in fn.body if not (isinstance(s, ast.Expr) and isinstance(s.value, ast.Constant))]
    need(len(body) == 1 and isinstance(body[0], ast.Return), fn, "%s: expected a single return statement" % fn.name, fname)
    return body[0].value


def gen_of(e, fname, var="pred", over=None):
    """`f(<elt> for pred in <iter>)` -> (f, elt, iter)"""
    need(isinstance(e, ast.Call) and isinstance(e.func, ast.Name) and len(e.args) == 1 and isinstance(e.args[0], ast.GeneratorExp), e, "any/all(... for pred in ...) expected", fname)
    g = e.args[0]
    need(len(g.generators) == 1 and not g.generators[0].ifs and isinstance(g.generators[0].target, ast.Name) and g.generators[0].target.id == var, e, "one plain generator expected", fname)
    return e.func.id, g.elt, g.generators[0].iter


def generate(repo):
    mod, fname = parse(repo, "pyccolo/predicate.py")
    P = find_class(mod, "Predicate", fname)
    C = find_class(mod, "CompositePredicate", fname)
    L = ["(* GENERATED from pyccolo/predicate.py, tracer.py::_emit_event and ast_rewriter.py -- do not edit *)",
         "From Coq Require Import List Bool Arith.", "Import ListNotations.", "",
         "Inductive ident : Set := IsTrue | IsFalse | IsOther.     (* `pred is Predicate.TRUE` / `is Predicate.FALSE` / neither *)",
         "Definition ident_eqb (a b : ident) : bool := match a, b with IsTrue, IsTrue | IsFalse, IsFalse | IsOther, IsOther => true | _, _ => false end.",
         "Inductive coalesced : Set := CTrue | CFalse | CCreate (is_any : bool).", ""]

    # ---- Predicate.__init__ default of `static`, and the two singletons
    inits = [n for n in P.body if isinstance(n, ast.FunctionDef) and n.name == "__init__"
             and not any(isinstance(d, ast.Name) and d.id == "overload" for d in n.decorator_list)]
    need(len(inits) == 1, P, "one non-overload Predicate.__init__", fname)
    init = inits[0]
    names = [a.arg for a in init.args.args]
    need("static" in names, init, "Predicate.__init__ has a `static` parameter", fname)
    dflt = init.args.defaults[len(init.args.defaults) - (len(names) - names.index("static"))]
    need(isinstance(dflt, ast.Constant) and isinstance(dflt.value, bool), init, "static default is a bool literal", fname)
    sing = {}
    for n in mod.body:
        if isinstance(n, ast.Assign) and len(n.targets) == 1 and is_name_attr(n.targets[0], "Predicate", "TRUE") or \
                isinstance(n, ast.Assign) and len(n.targets) == 1 and is_name_attr(n.targets[0], "Predicate", "FALSE"):
            v = n.value
            need(isinstance(v, ast.Call) and isinstance(v.func, ast.Name) and v.func.id == "Predicate" and len(v.args) == 1 and not v.keywords
                 and isinstance(v.args[0], ast.Lambda) and isinstance(v.args[0].body, ast.Constant) and isinstance(v.args[0].body.value, bool),
                 n, "Predicate.TRUE/FALSE = Predicate(lambda *_: <bool>)", fname)
            sing[n.targets[0].attr] = v.args[0].body.value
    need(sing == {"TRUE": True, "FALSE": False}, mod, "Predicate.TRUE is constantly True and Predicate.FALSE constantly False", fname)
    L.append("Definition singleton_static : bool := %s.     (* Predicate.TRUE / FALSE are built with the default `static` *)" % ("true" if dflt.value else "false"))

    # ---- Predicate.dynamic_call
    e = single_return(find_func(P.body, "dynamic_call", fname), fname)
    bt = BoolTr(fname, [lambda x: "static" if is_self_attr(x, "static") else None,
                        lambda x: "callv" if isinstance(x, ast.Call) and isinstance(x.func, ast.Name) and x.func.id == "self" and len(x.args) == 1 and not x.keywords else None])
    L.append("Definition base_dynamic_call (static callv : bool) : bool := %s." % bt.tr(e))
    L.append("Definition base_dynamic_call_x (static : bool) (callv : option bool) : option bool := %s." % BoolTrX(fname, bt.leaves, ["callv"]).tr(e))

    # ---- CompositePredicate.__init__
    cinit = find_func(C.body, "__init__", fname)
    got = {}
    for s in cinit.body:
        if isinstance(s, ast.Assign) and len(s.targets) == 1 and isinstance(s.targets[0], ast.Attribute) and isinstance(s.targets[0].value, ast.Name) and s.targets[0].value.id == "self":
            got[s.targets[0].attr] = s.value
    need(set(got) >= {"base_predicates", "dynamic_base_predicates", "static", "reducer"}, cinit, "CompositePredicate.__init__ sets base_predicates, dynamic_base_predicates, static, reducer", fname)
    d = got["dynamic_base_predicates"]
    need(isinstance(d, ast.ListComp) and isinstance(d.elt, ast.Name) and len(d.generators) == 1 and len(d.generators[0].ifs) == 1
         and isinstance(d.generators[0].iter, ast.Name) and d.generators[0].iter.id == "base_predicates", cinit, "[pred for pred in base_predicates if <cond>]", fname)
    v = d.elt.id
    bt = BoolTr(fname, [lambda x: "part_static" if is_name_attr(x, v, "static") else None])
    L.append("Definition comp_is_dynamic_part (part_static : bool) : bool := %s." % bt.tr(d.generators[0].ifs[0]))
    st = got["static"]
    need(isinstance(st, ast.Compare) and len(st.ops) == 1 and isinstance(st.ops[0], ast.Eq) and isinstance(st.left, ast.Call) and isinstance(st.left.func, ast.Name)
         and st.left.func.id == "len" and is_self_attr(st.left.args[0], "dynamic_base_predicates") and isinstance(st.comparators[0], ast.Constant) and st.comparators[0].value == 0,
         cinit, "self.static = len(self.dynamic_base_predicates) == 0", fname)
    L.append("Definition comp_static (ndyn : nat) : bool := Nat.eqb ndyn 0.")
    need(isinstance(got["reducer"], ast.Name) and got["reducer"].id == "reducer", cinit, "self.reducer = reducer", fname)

    # ---- CompositePredicate.__call__ : self.reducer(pred(node) for pred in predicates), predicates defaulting to all parts
    call = find_func(C.body, "__call__", fname)
    ret = [s for s in call.body if isinstance(s, ast.Return)]
    need(len(ret) == 1, call, "__call__ has one return", fname)
    r = ret[0].value
    need(isinstance(r, ast.Call) and is_self_attr(r.func, "reducer") and len(r.args) == 1 and isinstance(r.args[0], ast.GeneratorExp), call, "return self.reducer(<generator>)", fname)
    g = r.args[0]
    need(len(g.generators) == 1 and not g.generators[0].ifs and isinstance(g.generators[0].iter, ast.Name) and g.generators[0].iter.id == "predicates", call, "... for pred in predicates", fname)
    pv = g.generators[0].target.id
    on_exc = guarded_call(mod, fname, g.elt, pv)
    if on_exc is not None:
        mode = "true"
    elif isinstance(g.elt, ast.Call) and isinstance(g.elt.func, ast.Name) and g.elt.func.id == pv and len(g.elt.args) == 1 and not g.elt.keywords:
        mode = "true"
    elif isinstance(g.elt, ast.Call) and is_name_attr(g.elt.func, pv, "dynamic_call") and len(g.elt.args) == 1:
        mode = "false"
    else:
        need(False, call, "element of the reduction is pred(node) or pred.dynamic_call(node)", fname)
    L.append("Definition comp_parts_use_full_call : bool := %s.     (* the reduction evaluates pred(node) on each part (true) or pred.dynamic_call(node) (false) *)" % mode)
    L.append("Definition comp_part_guard (r : option bool) : option bool := %s.     (* a part that raises: %s *)"
             % (("match r with None => Some %s | Some _ => r end" % ("true" if on_exc else "false"), "caught, counts as %s" % on_exc) if on_exc is not None else ("r", "the exception leaves the composite")))
    dfl = [s for s in call.body if isinstance(s, ast.Assign) and isinstance(s.targets[0], ast.Name) and s.targets[0].id == "predicates"]
    need(len(dfl) == 1 and isinstance(dfl[0].value, ast.IfExp) and is_self_attr(dfl[0].value.body, "base_predicates"), call, "predicates defaults to self.base_predicates", fname)

    # ---- CompositePredicate.dynamic_call
    e = single_return(find_func(C.body, "dynamic_call", fname), fname)

    def self_call(x):
        if isinstance(x, ast.Call) and isinstance(x.func, ast.Name) and x.func.id == "self" and len(x.args) == 1:
            if not x.keywords:
                return "call_all"
            if len(x.keywords) == 1 and x.keywords[0].arg == "predicates" and is_self_attr(x.keywords[0].value, "dynamic_base_predicates"):
                return "call_dyn"
        return None
    bt = BoolTr(fname, [lambda x: "static" if is_self_attr(x, "static") else None, self_call])
    L.append("Definition comp_dynamic_call (static call_all call_dyn : bool) : bool := %s." % bt.tr(e))
    L.append("Definition comp_dynamic_call_x (static : bool) (call_all call_dyn : option bool) : option bool := %s." % BoolTrX(fname, bt.leaves, ["call_all", "call_dyn"]).tr(e))
    L.append("     (* call_all = self(node) over all parts, call_dyn = self(node, predicates=the dynamic parts) *)")

    # ---- any / all coalescing
    def coalesce(name):
        fn = find_func(C.body, name, fname)
        body = [s for s in fn.body if not (isinstance(s, ast.Expr) and isinstance(s.value, ast.Constant))]

        def leaf(x):
            if isinstance(x, ast.Compare) and len(x.ops) == 1 and isinstance(x.ops[0], ast.Eq) and isinstance(x.left, ast.Call) and isinstance(x.left.func, ast.Name) \
                    and x.left.func.id == "len" and isinstance(x.left.args[0], ast.Name) and x.left.args[0].id == "base_predicates" \
                    and isinstance(x.comparators[0], ast.Constant) and x.comparators[0].value == 0:
                return "(Nat.eqb (length ids) 0)"
            if isinstance(x, ast.Call) and isinstance(x.func, ast.Name) and x.func.id in ("any", "all") and len(x.args) == 1 and isinstance(x.args[0], ast.GeneratorExp):
                f, elt, it = gen_of(x, fname)
                need(isinstance(it, ast.Name) and it.id == "base_predicates", x, "... for pred in base_predicates", fname)
                need(isinstance(elt, ast.Compare) and len(elt.ops) == 1 and isinstance(elt.ops[0], ast.Is) and isinstance(elt.left, ast.Name) and elt.left.id == "pred"
                     and (is_name_attr(elt.comparators[0], "Predicate", "TRUE") or is_name_attr(elt.comparators[0], "Predicate", "FALSE")), x, "pred is Predicate.TRUE/FALSE", fname)
                which = "IsTrue" if elt.comparators[0].attr == "TRUE" else "IsFalse"
                return "(%s (ident_eqb %s) ids)" % ("existsb" if f == "any" else "forallb", which)
            return None
        bt = BoolTr(fname, [leaf])

        def retv(x):
            if is_name_attr(x, "Predicate", "TRUE"):
                return "CTrue"
            if is_name_attr(x, "Predicate", "FALSE"):
                return "CFalse"
            if isinstance(x, ast.Call) and is_name_attr(x.func, "cls", "_create") and len(x.args) == 1 and isinstance(x.args[0], ast.Name) and x.args[0].id == "base_predicates" \
                    and len(x.keywords) == 1 and x.keywords[0].arg == "reducer" and isinstance(x.keywords[0].value, ast.Name) and x.keywords[0].value.id in ("any", "all"):
                return "(CCreate %s)" % ("true" if x.keywords[0].value.id == "any" else "false")
            need(False, x, "return Predicate.TRUE / Predicate.FALSE / cls._create(base_predicates, reducer=any|all)", fname)
        out = None
        need(isinstance(body[-1], ast.Return), fn, "%s ends with a return" % name, fname)
        out = retv(body[-1].value)
        for s in reversed(body[:-1]):
            need(isinstance(s, ast.If) and not s.orelse and len(s.body) == 1 and isinstance(s.body[0], ast.Return), s, "if <cond>: return <const>", fname)
            out = "if %s then %s else %s" % (bt.tr(s.test), retv(s.body[0].value), out)
        return "Definition %s_coalesce (ids : list ident) : coalesced := %s." % (name, out)
    L.append(coalesce("any"))
    L.append(coalesce("all"))
    cr = find_func(C.body, "_create", fname)
    crr = [s for s in cr.body if isinstance(s, ast.Return)]
    need(len(crr) == 1 and isinstance(crr[0].value, ast.Call) and isinstance(crr[0].value.func, ast.Name) and crr[0].value.func.id == "cls", cr, "_create returns cls(base_predicates, reducer=reducer)", fname)

    # ---- tracer.py::_emit_event : the per-handler delivery test
    tmod, tname = parse(repo, "pyccolo/tracer.py")
    T = find_class(tmod, "_InternalBaseTracer", tname)
    em = find_func(T.body, "_emit_event", tname)
    tests = []
    for n in ast.walk(em):
        if isinstance(n, ast.If) and any(isinstance(x, ast.Attribute) and x.attr == "dynamic_call" for x in ast.walk(n.test)):
            tests.append(n)
    need(len(tests) == 1, em, "exactly one test mentioning dynamic_call in _emit_event", tname)

    def dleaf(x):
        sp = lambda y: isinstance(y, ast.Attribute) and isinstance(y.value, ast.Name) and y.value.id == "spec" and y.attr == "predicate"
        if isinstance(x, ast.Compare) and len(x.ops) == 1 and isinstance(x.ops[0], ast.Is) and sp(x.left) and is_name_attr(x.comparators[0], "Predicate", "TRUE"):
            return "is_true"
        if isinstance(x, ast.Attribute) and x.attr == "static" and sp(x.value):
            return "static"
        if isinstance(x, ast.Call) and isinstance(x.func, ast.Attribute) and x.func.attr == "dynamic_call" and sp(x.func.value) and len(x.args) == 1:
            return "dyn"
        if isinstance(x, ast.Call) and sp(x.func) and len(x.args) == 1:
            return "full"
        return None
    bt = BoolTr(tname, [dleaf])
    L.append("Definition deliver_test (is_true static dyn full : bool) : bool := %s." % bt.tr(tests[0].test))
    L.append("Definition deliver_test_x (is_true static : bool) (dyn full : option bool) : option bool := %s." % BoolTrX(tname, bt.leaves, ["dyn", "full"]).tr(tests[0].test))
    L.append("     (* is_true: spec.predicate is Predicate.TRUE; static: .static; dyn: .dynamic_call(node); full: spec.predicate(node) *)")
    # the handler is called in the `then` branch and skipped (new_ret = None) otherwise
    need(any(isinstance(x, ast.Call) and isinstance(x.func, ast.Attribute) and x.func.attr == "handler" for s in tests[0].body for x in ast.walk(s)), tests[0], "handler call in the then-branch", tname)
    need(not any(isinstance(x, ast.Call) and isinstance(x.func, ast.Attribute) and x.func.attr == "handler" for s in tests[0].orelse for x in ast.walk(s)), tests[0], "no handler call in the else-branch", tname)

    # ---- ast_rewriter.py : one composite per event = CompositePredicate.any(<all handlers' predicates of the event>)
    rmod, rname = parse(repo, "pyccolo/ast_rewriter.py")
    R = find_class(rmod, "AstRewriter", rname)
    vis = find_func(R.body, "visit", rname)
    uses = [n for n in ast.walk(vis) if isinstance(n, ast.Call) and isinstance(n.func, ast.Attribute) and isinstance(n.func.value, ast.Name) and n.func.value.id == "CompositePredicate"]
    need(len(uses) == 2 and all(u.func.attr == "any" for u in uses), vis, "AstRewriter.visit builds CompositePredicate.any(raw_predicates) (handlers, guard-exempt handlers)", rname)
    L.append("Definition site_reducer_is_any : bool := true.     (* AstRewriter.visit: CompositePredicate.any over every handler of the event, all tracers *)")
    return {"PredGen.v": "\n".join(L) + "\n"}
