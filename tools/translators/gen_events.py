# trace_events.py, extra_builtins.py, emit_event.py constants  ->  gen/Events.v, gen/Names.v
import ast
import json
import os

from . import Mismatch, find_assign, find_class, need, parse


def generate(repo):
    mod, fn = parse(repo, "pyccolo/trace_events.py")
    cls = find_class(mod, "TraceEvent", fn)
    members = []
    for n in cls.body:
        if isinstance(n, ast.Assign):
            need(len(n.targets) == 1 and isinstance(n.targets[0], ast.Name), n, "enum member shape", fn)
            need(isinstance(n.value, ast.Constant) and isinstance(n.value.value, str), n, "enum value must be a str literal", fn)
            members.append((n.targets[0].id, n.value.value))
    need(len(members) >= 90, cls, "suspiciously few TraceEvent members", fn)

    def evset(name):
        v = find_assign(mod.body, name, fn)
        need(isinstance(v, ast.Set), v, "%s must be a set literal" % name, fn)
        out = []
        for e in v.elts:
            need(isinstance(e, ast.Attribute) and isinstance(e.value, ast.Name) and e.value.id == "TraceEvent", e, "set element shape", fn)
            out.append(e.attr)
        return out

    sys_events = evset("SYS_TRACE_EVENTS")
    before_expr = evset("BEFORE_EXPR_EVENTS")
    a2e = find_assign(mod.body, "AST_TO_EVENT_MAPPING", fn)
    need(isinstance(a2e, ast.Dict), a2e, "AST_TO_EVENT_MAPPING must be a dict literal", fn)
    mapping = []
    for k, v in zip(a2e.keys, a2e.values):
        need(isinstance(k, ast.Attribute) and isinstance(v, ast.Attribute), k, "mapping entry shape", fn)
        mapping.append((k.attr, v.attr))
    names = [m for m, _ in members]
    for e in sys_events + before_expr + [v for _, v in mapping]:
        if e not in names:
            raise Mismatch("%s: unknown event %s" % (fn, e))

    def c(m):
        return "E_" + m.lstrip("_") if not m.startswith("_") else "E_priv" + m

    L = []
    L.append("(* GENERATED from %s by tools/translators/gen_events.py -- do not edit *)" % fn)
    L.append("From Coq Require Import List NArith Bool.\nImport ListNotations.\n")
    L.append("Inductive event : Set :=\n" + "\n".join("  | %s" % c(m) for m in names) + ".\n")
    L.append("Definition event_idx (e : event) : N :=\n  match e with\n" + "\n".join("  | %s => %d" % (c(m), i) for i, m in enumerate(names)) + "\n  end%N.\n")
    L.append("Definition all_events : list event :=\n  [" + "; ".join(c(m) for m in names) + "].\n")
    L.append("Definition event_eqb (a b : event) : bool := N.eqb (event_idx a) (event_idx b).\n")

    def memb(name, lst):
        return ("Definition %s (e : event) : bool :=\n  match e with\n" % name) + "".join("  | %s => true\n" % c(m) for m in lst) + "  | _ => false\n  end.\n"

    L.append(memb("is_sys_trace_event", sys_events))
    L.append(memb("is_before_expr_event", before_expr))
    # value of the member named `return_` etc: the string the runtime sees
    L.append("(* string value of each member, as an index into the same table (name = value except where noted) *)")
    diff = [(m, v) for m, v in members if m != v]
    L.append("(* members whose value differs from their name: %s *)\n" % diff)
    ev_v = "\n".join(L)

    # Names.v
    mod2, fn2 = parse(repo, "pyccolo/extra_builtins.py")
    consts = {}
    for n in mod2.body:
        if isinstance(n, ast.Assign) and isinstance(n.targets[0], ast.Name):
            v = n.value
            if isinstance(v, ast.Constant) and isinstance(v.value, str):
                consts[n.targets[0].id] = v.value
            elif isinstance(v, ast.JoinedStr):
                s = ""
                for part in v.values:
                    if isinstance(part, ast.Constant):
                        s += part.value
                    else:
                        need(isinstance(part, ast.FormattedValue) and isinstance(part.value, ast.Name) and part.value.id in consts, part, "f-string part", fn2)
                        s += consts[part.value.id]
                consts[n.targets[0].id] = s
    for k in ("PYCCOLO_BUILTIN_PREFIX", "EMIT_EVENT", "TRACE_LAMBDA", "EXEC_SAVED_THUNK", "TRACING_ENABLED", "FUNCTION_TRACING_ENABLED"):
        if k not in consts:
            raise Mismatch("%s: constant %s not found" % (fn2, k))
        if k != "PYCCOLO_BUILTIN_PREFIX" and not consts[k].startswith(consts["PYCCOLO_BUILTIN_PREFIX"]):
            raise Mismatch("%s: %s does not start with the builtin prefix" % (fn2, k))
    mod3, fn3 = parse(repo, "pyccolo/emit_event.py")
    for k in ("SANDBOX_FNAME", "SANDBOX_FNAME_PREFIX"):
        v = find_assign(mod3.body, k, fn3)
        need(isinstance(v, ast.Constant) and isinstance(v.value, str), v, "string constant", fn3)
        consts[k] = v.value
    table = {
        "events": names,
        "event_values": dict(members),
        "sys_events": sys_events,
        "before_expr_events": before_expr,
        "ast_to_event": mapping,
        "names": consts,
    }
    return {"Events.v": ev_v, "events.json": json.dumps(table, indent=1, sort_keys=True)}
