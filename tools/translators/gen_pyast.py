# Python's own `ast` module (the interpreter under /venv runs this translator) -> gen/PyAst.v:
# node kinds, statement kinds, and for each kind used by the erasure the position of each node-valued field.
import ast
import json
import re

from . import Mismatch

SCALAR_TYPES = ("identifier", "int", "string", "constant")


def field_is_scalar(cls, f):
    doc = cls.__doc__ or ""
    m = re.search(r"(\w+)[\*\?]?\s+%s\b" % re.escape(f), doc)
    return bool(m) and m.group(1) in SCALAR_TYPES


def kinds():
    return sorted(n for n in dir(ast) if isinstance(getattr(ast, n), type) and issubclass(getattr(ast, n), ast.AST) and not n.startswith("_"))


def layout():
    """for every kind: (scalar field names, node field names) in _fields order"""
    out = {}
    for n in kinds():
        cls = getattr(ast, n)
        sc = [f for f in cls._fields if field_is_scalar(cls, f)]
        nd = [f for f in cls._fields if not field_is_scalar(cls, f)]
        out[n] = (sc, nd)
    return out


def generate(repo):
    ks = kinds()
    code = {n: i + 1 for i, n in enumerate(ks)}
    lay = layout()
    L = ["(* GENERATED from the interpreter's `ast` module by tools/translators/gen_pyast.py -- do not edit *)",
         "From Coq Require Import NArith List Bool.", "Import ListNotations.", "Local Open Scope N_scope."]
    for n in ks:
        L.append("Definition k%s : N := %d." % (n, code[n]))
    stmts = [n for n in ks if issubclass(getattr(ast, n), ast.stmt)]
    exprs = [n for n in ks if issubclass(getattr(ast, n), ast.expr)]
    L.append("Definition is_stmt_kind (k : N) : bool := existsb (N.eqb k) [%s]." % "; ".join("k" + n for n in stmts))
    L.append("Definition is_expr_kind (k : N) : bool := existsb (N.eqb k) [%s]." % "; ".join("k" + n for n in exprs))
    # the field layouts the hand-written recognisers rely on: fail closed if CPython changes them
    expect = {
        "Call": ([], ["func", "args", "keywords"]), "keyword": (["arg"], ["value"]), "Name": (["id"], ["ctx"]),
        "Constant": (["value", "kind"], []), "IfExp": ([], ["test", "body", "orelse"]), "If": ([], ["test", "body", "orelse"]),
        "Try": ([], ["body", "handlers", "orelse", "finalbody"]), "ExceptHandler": (["name"], ["type", "body"]),
        "Lambda": ([], ["args", "body"]), "BoolOp": ([], ["op", "values"]), "Subscript": ([], ["value", "slice", "ctx"]),
        "Expr": ([], ["value"]), "Module": ([], ["body", "type_ignores"]), "BinOp": ([], ["left", "op", "right"]),
        "Compare": ([], ["left", "ops", "comparators"]), "While": ([], ["test", "body", "orelse"]),
        "For": ([], ["target", "iter", "body", "orelse", "type_comment"]) if False else (["type_comment"], ["target", "iter", "body", "orelse"]),
        "FunctionDef": (["name", "type_comment"], ["args", "body", "decorator_list", "returns", "type_params"]),
        "Slice": ([], ["lower", "upper", "step"]), "Tuple": ([], ["elts", "ctx"]), "Raise": ([], ["exc", "cause"]),
        "UnaryOp": ([], ["op", "operand"]), "Attribute": (["attr"], ["value", "ctx"]), "Delete": ([], ["targets"]),
        "arguments": ([], ["posonlyargs", "args", "vararg", "kwonlyargs", "kw_defaults", "kwarg", "defaults"]), "arg": (["arg", "type_comment"], ["annotation"]),
        "Starred": ([], ["value", "ctx"]),
    }
    for n, (sc, nd) in expect.items():
        if lay[n] != (sc, nd):
            raise Mismatch("ast.%s has fields %s (scalars %s), the erasure expects scalars %s nodes %s" % (n, getattr(ast, n)._fields, lay[n][0], sc, nd))
    import os
    res = json.load(open(os.path.join(os.path.dirname(os.path.abspath(__file__)), "..", "reserved_ids.json")))
    names = {"_X5ix_PYCCOLO_EVT_EMIT": "id_emit", "_X5ix_PYCCOLO_TRACE_LAM": "id_tlam", "_X5ix_PYCCOLO_EXEC_SAVED_THUNK": "id_thunk",
             "_X5ix_PYCCOLO_TRACING_ENABLED": "id_te", "_X5ix_PYCCOLO_FUNCTION_TRACING_ENABLED": "id_fte", "ret": "id_ret",
             "guards_by_handler_spec_id": "id_guards_kw", "x": "id_x", "y": "id_y", "guard": "id_guard_kw", "slice": "id_slice",
             "BaseException": "id_BaseException", "NameError": "id_NameError", "_X5ix_name_error": "id_name_error",
             "startswith": "id_startswith", "name": "id_name", "attr_or_subscript": "id_attr_or_subscript", "_X5ix": "id_prefix_str",
             "_X5ix_x": "id_cmp_x", "_X5ix_y": "id_cmp_y",
             "call_context": "id_call_context", "call_node_id": "id_call_node_id", "is_starred": "id_is_starred", "is_kwstarred": "id_is_kwstarred",
             "key": "id_key", "is_last": "id_is_last", "": "id_empty_str", "range": "id_range", "%s": "id_fmt_s"}
    # the reserved names must be the ones the library really uses
    import importlib.util
    eb = {}
    exec(open(os.path.join(repo, "pyccolo", "extra_builtins.py")).read(), eb)
    for pyname, attr in [("_X5ix_PYCCOLO_EVT_EMIT", "EMIT_EVENT"), ("_X5ix_PYCCOLO_TRACE_LAM", "TRACE_LAMBDA"), ("_X5ix_PYCCOLO_EXEC_SAVED_THUNK", "EXEC_SAVED_THUNK"),
                         ("_X5ix_PYCCOLO_TRACING_ENABLED", "TRACING_ENABLED"), ("_X5ix_PYCCOLO_FUNCTION_TRACING_ENABLED", "FUNCTION_TRACING_ENABLED"), ("_X5ix", "PYCCOLO_BUILTIN_PREFIX")]:
        if eb.get(attr) != pyname:
            raise Mismatch("extra_builtins.%s is %r, the erasure expects %r" % (attr, eb.get(attr), pyname))
    ids = ["Definition %s : N := %d." % (names[k], v) for k, v in res.items() if k in names]
    ids.append("Definition id_y_base : N := %d." % res["y_0"])
    ids.append("Definition guard_base : N := 5000.")
    ids.append("Definition event_base : N := 1000.")
    ids_v = "(* GENERATED from tools/reserved_ids.json (checked against extra_builtins.py) -- do not edit *)\nFrom Coq Require Import NArith.\nLocal Open Scope N_scope.\n" + "\n".join(ids) + "\n"
    table = {"kinds": code, "layout": {n: {"scalars": lay[n][0], "nodes": lay[n][1]} for n in ks}, "stmts": stmts}
    return {"PyAst.v": "\n".join(L) + "\n", "pyast.json": json.dumps(table, sort_keys=True), "Ids.v": ids_v}
