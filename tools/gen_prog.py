# Grammar-directed generator of small terminating Python programs (shared by the rewriter / bookkeeping checks).
# Every loop is bounded by construction; side effects (calls of t(k, v) that record k and return v) make evaluation
# order observable; no I/O other than the recorder, no randomness, no addresses.
import ast

PRELUDE = """
_rec = []
def t(k, v=None):
    _rec.append(k)
    return v
class Box:
    def __init__(self, v=0):
        self.v = v
        self.items = [1, 2, 3]
    def get(self, d=0):
        _rec.append("get")
        return self.v + d
    def __enter__(self):
        _rec.append("enter")
        return self
    def __exit__(self, *a):
        _rec.append("exit")
        return False
def deco(f):
    _rec.append("deco")
    return f
"""


class Gen:
    def __init__(self, rng, profile="core", max_depth=3):
        self.rng = rng
        self.profile = profile          # core | wide
        self.max_depth = max_depth
        self.k = 0
        self.fn = 0
        self.names = ["a", "b", "c", "d"]
        self.in_func = 0
        self.in_loop = 0
        self.fglobals = []

    def tick(self):
        self.k += 1
        return self.k

    # ---------------------------------------------------------------- expressions (typed: ints, conditions, other)
    def readable(self):
        return self.names if not self.in_func else self.names + ["x", "y", "p"]

    def writable(self):
        return self.names if not self.in_func else ["x", "y"] + self.fglobals

    def atom(self):
        r = self.rng.random()
        if r < 0.40:
            return self.rng.choice(self.readable())
        if r < 0.75:
            return str(self.rng.randrange(0, 9))
        return "t(%d, %s)" % (self.tick(), self.rng.randrange(1, 9))

    def expr(self, d=0):
        """an int-valued expression"""
        if d >= 2:
            return self.atom()
        r = self.rng.random()
        w = self.profile == "wide"
        if r < 0.25:
            return self.atom()
        if r < 0.45:
            return "(%s %s %s)" % (self.expr(d + 1), self.rng.choice(["+", "-", "*"]), self.expr(d + 1))
        if r < 0.52:
            return "(%s if %s else %s)" % (self.expr(d + 1), self.cond(d + 1), self.expr(d + 1))
        if r < 0.60:
            return "t(%d, %s)" % (self.tick(), self.expr(d + 1))
        if r < 0.64:
            return "len([%s])" % ", ".join(self.expr(d + 1) for _ in range(self.rng.randrange(0, 3)))
        if r < 0.66:
            return "len({%s, %s})" % (self.expr(d + 1), self.expr(d + 1))
        if r < 0.70:
            return "(%s, %s)[%d]" % (self.expr(d + 1), self.expr(d + 1), self.rng.randrange(2))
        if r < 0.74:
            return "{%d: %s}[%d]" % (3, self.expr(d + 1), 3)
        if r < 0.80:
            if self.rng.random() < 0.3:
                # a call in the MIDDLE of a chain whose arguments are chains themselves (each argument is a symbol of its own)
                arg = self.rng.choice(["bx.v", "bx.items[%d]" % self.rng.randrange(3), "bx.get(%s)" % self.atom(), "len(bx.items)", "abs(bx.v)"])
                return self.rng.choice(["bx.get(%s).real", "bx.get(%s).bit_length()", "abs(%s).real", "bx.get(%s).numerator.real",
                                        # a chain whose base is not a link: the symbols inside the base are symbols of their own
                                        "(%s + bx.v).real", "[%s][0].real", "(%s if a else bx.v).real",
                                        # a tuple display as index
                                        "{(1, 2): %s}[1, 2]", "{(1, 2): %s}[(1, 2)]"]) % arg
            return "bx.v" if self.rng.random() < 0.5 else "bx.get(%s)" % self.expr(d + 1)
        if r < 0.86:
            return "bx.items[%s]" % self.rng.choice(["0", "1", "-1"]) if not w or self.rng.random() < 0.5 else "len(bx.items[%s])" % self.rng.choice(["0:2", "1:", "::2", ":"])
        if r < 0.90:
            return "(lambda q: q + %s)(%s)" % (self.atom(), self.expr(d + 1))
        if r < 0.93:
            return "int(%s)" % self.cond(d + 1)
        if w and r < 0.97:
            body = "q + %s for q in range(%d) if q != %s" % (self.atom(), self.rng.randrange(1, 4), self.rng.randrange(0, 3))
            return self.rng.choice(["sum([%s])", "sum({%s})", "sum(%s)", "len({q: %s})" % body.replace(" for", " for", 1).split(" for", 1)[0] + " for" + body.split(" for", 1)[1] if False else "sum([%s])"]) % body
        if w:
            return self.rng.choice(['len(f"{%s}x")' % self.atom(), "-(%s)" % self.atom(), "(lambda *ar, **kw: len(ar) + len(kw))(%s, *[1, 2], z=%s)" % (self.atom(), self.atom()),
                                    "len({q: q + 1 for q in range(2)})"])
        return self.atom()

    def cond(self, d=0):
        r = self.rng.random()
        w = self.profile == "wide"
        if d >= 2 or r < 0.5:
            ops = self.rng.choice([["<"], ["=="], ["<", "<"], ["!=", "<="]]) if w else [self.rng.choice(["<", "==", ">="])]
            s = self.expr(d + 1)
            for o in ops:
                s += " %s %s" % (o, self.expr(d + 1))
            return "(%s)" % s
        if r < 0.8:
            return "(%s %s %s)" % (self.cond(d + 1), self.rng.choice(["and", "or"]), self.cond(d + 1))
        if r < 0.9:
            return "(not %s)" % self.cond(d + 1)
        return "bool(%s)" % self.expr(d + 1)

    def other(self):
        """an expression of any type, for expression statements and the junk variable u"""
        r = self.rng.random()
        if r < 0.3:
            return "[%s]" % ", ".join(self.expr(1) for _ in range(self.rng.randrange(0, 3)))
        if r < 0.40:
            return "(%s, %s)" % (self.expr(1), self.expr(1))
        if r < 0.45:
            return "{%s, %s}" % (self.expr(1), self.expr(1))          # a set display
        if r < 0.6:
            return "{%d: %s, %d: %s}" % (1, self.expr(1), 2, self.expr(1))
        if r < 0.7:
            return self.rng.choice(['"s"', "None", "True", "2.5", 'f"{a}-{b!r:>4}"', "..."])
        if r < 0.8:
            return self.cond()
        if r < 0.9 and self.profile == "wide":
            return self.rng.choice(["[q * 2 for q in range(3)]", "{q for q in range(2)}", "{q: q for q in range(2)}", "list(q for q in range(2))",
                                    "[q + r0 for q in range(2) for r0 in range(2) if q <= r0]"])
        return self.expr()

    # ---------------------------------------------------------------- statements
    def block(self, depth, n=None):
        n = n or self.rng.choice([1, 1, 2, 2, 3])
        out = []
        if self.in_func and depth >= 1 and self.rng.random() < 0.12:
            # a declaration inside a nested block of a function (valid only if the name is not used earlier in the function:
            # program() compiles the text and starts over otherwise); sometimes the block consists of nothing else
            name = self.rng.choice(["d", "c"])
            out.append("global %s" % name)
            if self.rng.random() < 0.8:
                out.append("%s = %s" % (name, self.expr(1)))
                n = max(n - 1, 0)
            else:
                return out
        for _ in range(n):
            out += self.stmt(depth)
        return out or ["pass"]

    def ind(self, lines):
        return ["    " + l for l in lines]

    def stmt(self, depth):
        r = self.rng.random()
        w = self.profile == "wide"
        deep = depth >= self.max_depth
        if r < 0.28 or deep:
            if self.rng.random() < 0.15:
                return ["u = %s" % self.other()]
            # (an index with a side effect: evaluated exactly once also when the subscript is a target)
            tgt = self.rng.choice(self.writable() + (["bx.v", "bx.items[0]", "bx.items[t(%d, 0)]" % self.tick()] if self.rng.random() < 0.3 else []))
            if self.rng.random() < 0.07:
                # a destructuring target whose elements evaluate something (attribute / subscript stores inside a target display)
                t2 = self.rng.choice(["bx.v", "bx.items[0]", "bx.items[(%s) * 0]" % self.atom(), "bx.items[-1]"])
                shape = self.rng.choice(["%s, %s = %s, %s", "[%s, %s] = %s, %s", "(%s, %s) = [%s, %s]"])
                a, b_ = (tgt, t2) if self.rng.random() < 0.5 else (t2, tgt)
                return [shape % (a, b_, self.expr(1), self.expr(1))]
            if self.rng.random() < 0.2:
                return ["%s %s= %s" % (tgt, self.rng.choice("+-*"), self.expr())]
            return ["%s = %s" % (tgt, self.expr())]
        if r < 0.36:
            return [self.other()]
        if r < 0.48:
            out = ["if %s:" % self.cond()] + self.ind(self.block(depth + 1))
            if self.rng.random() < 0.5:
                out += ["else:"] + self.ind(self.block(depth + 1))
            return out
        if r < 0.58:
            self.in_loop += 1
            v = self.rng.choice(["i", "j"])
            body = self.block(depth + 1)
            if self.rng.random() < 0.3:
                body += ["if %s == %d:" % (v, self.rng.randrange(0, 3)), "    " + self.rng.choice(["break", "continue"])]
            self.in_loop -= 1
            out = ["for %s in range(%d):" % (v, self.rng.randrange(1, 4))] + self.ind(body)
            if self.rng.random() < 0.2:
                out += ["else:"] + self.ind(self.block(depth + 1, 1))
            return out
        if r < 0.64:
            self.in_loop += 1
            cnt = "w%d" % self.tick()
            pre = ["%s = %d" % (cnt, self.rng.randrange(1, 4))]
            body = ["%s -= 1" % cnt] + self.block(depth + 1)
            self.in_loop -= 1
            return pre + ["while %s > 0:" % cnt] + self.ind(body)
        if r < 0.78 and not self.in_func:
            self.fn += 1
            name = "f%d" % self.fn
            self.in_func += 1
            saved_loop, self.in_loop = self.in_loop, 0
            self.fglobals = [self.rng.choice(self.names)] if self.rng.random() < 0.3 else []
            body = ["x = p", "y = %d" % self.rng.randrange(5)] + self.block(depth + 1)
            if self.fglobals:
                body = ["global %s" % self.fglobals[0]] + body
            if self.rng.random() < 0.3:
                # a leading constant expression statement: a docstring, or a constant that merely looks like one
                body = [self.rng.choice(['"""doc"""', '"""doc"""', "...", "7", "None", "b'x'"])] + body
            if self.rng.random() < 0.3:
                self.fn += 1
                inner = "g%d" % self.fn
                body += ["def %s(z=1):" % inner, "    nonlocal y" if self.rng.random() < 0.5 else "    pass", "    y = z + x" , "    return y", "x = %s(%s)" % (inner, self.atom())]
            r2 = self.rng.random()
            if r2 < 0.08:
                # leaves the function with a NameError that carries no `.name` (raised by the program itself) after visible work
                body += ["t(%d, 1)" % self.tick(), 'raise NameError("nn%d")' % self.tick()]
            elif r2 < 0.16:
                # ... or with an UnboundLocalError (a NameError subclass, `.name` is None on 3.12): local read before assignment
                # (read as an expression statement: inside a deferred thunk the read would be a closure-cell read, which raises a plain
                #  NameError - the recorded finding C08-unbound-local-in-thunk)
                body = ["if p == 99:", "    zz = 0"] + body + ["t(%d, 2)" % self.tick(), "zz"]
            body += ["return %s" % self.expr()] if self.rng.random() < 0.8 else []
            self.in_loop = saved_loop
            self.in_func -= 1
            self.fglobals = []
            ann = self.rng.random() < 0.4           # annotated parameters (evaluated at definition time, or kept as text under the future import)
            head = ["def %s(p%s=%s, *ar%s, q%s=1, **kw)%s:" % (name, ": int" if ann else "", self.rng.randrange(5), ": int" if ann else "", ": bool" if ann else "",
                                                              " -> int" if self.rng.random() < 0.3 else "")] if self.rng.random() < 0.4 else ["def %s(p%s=0):" % (name, ": int" if ann else "")]
            dec = ["@deco"] if self.rng.random() < 0.35 else []
            call = ["%s = %s(%s) or 0" % (self.rng.choice(self.names), name, self.expr(1))] * self.rng.choice([1, 1, 2])
            return dec + head + self.ind(body) + call
        if r < 0.86:
            exc = self.rng.choice(["ValueError", "KeyError", "(ValueError, TypeError)"])
            body = self.block(depth + 1)
            bare = self.rng.random() < 0.2
            if self.rng.random() < 0.5:
                body += ['raise ValueError("v%d")' % self.tick()]
            elif bare and self.rng.random() < 0.7:
                # a bare except must also catch exceptions that are not Exception subclasses
                body += [self.rng.choice(["raise KeyboardInterrupt()", "raise SystemExit(3)", "raise GeneratorExit()"])]
            out = ["try:"] + self.ind(body)
            out += ["except:" if bare else "except %s as e:" % exc] + self.ind(self.block(depth + 1, 1))
            if self.rng.random() < 0.3:
                out += ["else:"] + self.ind(self.block(depth + 1, 1))
            if self.rng.random() < 0.4:
                out += ["finally:"] + self.ind(self.block(depth + 1, 1))
            return out
        if r < 0.90:
            return ["with Box(%s) as bw:" % self.atom()] + self.ind(self.block(depth + 1))
        if r < 0.93:
            return ["del %s" % self.rng.choice(["bx.items[0]", "bx.items[0:1]"]), "bx.items.append(7)"]
        if r < 0.96 and w and not self.in_func:
            self.fn += 1
            name = "K%d" % self.fn
            return (["@deco"] if self.rng.random() < 0.3 else []) + ["class %s(Box):" % name] + ([self.rng.choice(['    """kdoc"""', '    """kdoc"""', "    7", "    ..."])] if self.rng.random() < 0.6 else []) + ["    cv = %s" % self.expr(1), "    def m(self):", "        return self.cv + %s" % self.rng.randrange(5),
                    "%s = %s().m()" % (self.rng.choice(self.names), name)]
        if r < 0.975 and w:
            return ["match %s:" % self.atom(), "    case 1:"] + self.ind(self.ind(self.block(depth + 1, 1))) + ["    case [x1, *_]:", "        u = x1", "    case _:"] + self.ind(self.ind(self.block(depth + 1, 1)))
        if 0.975 <= r < 0.99:
            if self.rng.random() < 0.4:
                # a method chain spanning several lines whose LAST call raises: the caller's line in the traceback is that of `.get`
                return ["u = (bx", "     .get(%s)" % self.atom(), "     .bit_length()", "     .real", '     .__add__(bx.get("s")))' if self.rng.random() < 0.5 else '     .bit_length(1))']
            return ['raise KeyError("k%d")' % self.tick()] if self.rng.random() < 0.5 else ["assert %s, %s" % (self.cond(), self.expr())]
        if r >= 0.99:
            return ["assert %s or True" % self.cond()]
        return ["%s = %s" % (self.rng.choice(self.writable()), self.expr())]

    def program(self, nstmts=None, head=False):
        """head: the program stands alone (nothing is put in front of it), so it may start with a docstring / a __future__ import"""
        lines = ["a = 1", "b = 2", "c = 3", "d = 4", "bx = Box(5)"]
        if head and self.rng.random() < 0.2:
            lines = ["from __future__ import annotations"] + lines
        if head and self.rng.random() < 0.25:
            # a module docstring, or a constant that merely looks like one (then the future import is no longer at the top: drop it)
            doc = self.rng.choice(['"""mdoc"""', '"""mdoc"""', "7", "b'x'"])
            if not doc.startswith('"') and lines[0].startswith("from __future__"):
                lines = lines[1:]
            lines = [doc] + lines
        for _ in range(nstmts or self.rng.choice([2, 3, 4, 5])):
            lines += self.stmt(0)
        src = "\n".join(lines) + "\n"
        try:
            compile(src, "<generated>", "exec")          # also the scoping errors (a name used before its global declaration)
        except SyntaxError:
            return self.program(nstmts, head)
        return src


def gen_program(rng, profile="core", nstmts=None, max_depth=3, head=False):
    return Gen(rng, profile, max_depth).program(nstmts, head)
