# ./check Cxx [--tier quick|thorough] [--replay FILE]     (DESIGN.md section 5)
import argparse
import importlib
import json
import os
import subprocess
import sys
import traceback

sys.path.insert(0, os.path.dirname(os.path.abspath(__file__)))
import lib  # noqa: E402


class Ctx:
    def __init__(self, prop, tier, seed):
        self.prop = prop
        self.tier = tier
        self.seed = seed
        self.rng = lib.rng_for(prop, seed)
        self.notes = []
        self.broken = []  # (kind, what, detail) : proof obligations / ties that no longer check

    def note(self, s):
        self.notes.append(s)
        print("note:", s, flush=True)

    def tie_broken(self, kind, what, detail=""):
        self.broken.append({"kind": kind, "what": what, "detail": detail[-4000:] if isinstance(detail, str) else detail})
        print("BROKEN %s: %s" % (kind, what), flush=True)


def main():
    ap = argparse.ArgumentParser()
    ap.add_argument("prop")
    ap.add_argument("--tier", default=os.environ.get("VERIF_TIER", "quick"))
    ap.add_argument("--replay")
    ap.add_argument("--no-build", action="store_true")
    a = ap.parse_args()
    seed = int(os.environ.get("VERIF_SEED", "0"))
    prop = a.prop
    clock = lib.Clock()
    os.makedirs(lib.WORK, exist_ok=True)
    plug = importlib.import_module("props." + prop)
    ctx = Ctx(prop, a.tier, seed)
    # replay inputs of the listed known findings always run first, so that each finding is re-established on every run
    ctx.known_replays = [k["replay"] for k in lib.load_known(prop) if k.get("kind") == "known" and k.get("replay")]
    # inputs of repaired findings: regression corpus (a fixed entry suppresses nothing; if the defect returns it is reported)
    ctx.fixed_replays = [k["replay"] for k in lib.load_known(prop) if k.get("kind") == "fixed" and k.get("replay")]

    if a.replay:
        rep = json.load(open(a.replay))
        script = ((rep.get("failure") or {}).get("case") or {}).get("script")
        if script:
            pr = subprocess.run(["/venv/bin/python", os.path.join(lib.VERIF, script)], cwd=os.path.join(lib.VERIF, os.path.dirname(script)),
                                env=dict(os.environ, PYTHONPATH="/repo", PYTHONHASHSEED="0", PYTHONDONTWRITEBYTECODE="1"),
                                stdout=subprocess.PIPE, stderr=subprocess.STDOUT, text=True, timeout=600)
            fails = {"what": pr.stdout[-1500:]} if pr.returncode == 1 else None
        else:
            fails = plug.replay(ctx, rep)
        if fails:
            print("replay: property %s FAILS on this tree: %s" % (prop, json.dumps(fails)[:2000]))
            print("VIOLATION property=%s replay=%s" % (prop, a.replay))
            sys.exit(1)
        print("replay: property %s holds on this input" % prop)
        sys.exit(0)

    # 1. translators (tie T)
    try:
        errs = lib.run_translators()
    except Exception:
        errs = [traceback.format_exc()]
    for e in errs:
        ctx.tie_broken("translator", e.splitlines()[-1] if e else "translator failed", e)

    # 2. proofs
    pa = {}
    files = []
    if not a.no_build:
        ok, out = lib.coq_make([f.replace(".v", ".vo") for f in plug.COQ_TARGETS])
        if not ok:
            ctx.tie_broken("proof", "coq build failed for %s" % plug.COQ_TARGETS, out)
        else:
            ok, pa, out = lib.print_assumptions(plug.PROP_FILE)
            if not ok:
                ctx.tie_broken("proof", "property file %s does not check" % plug.PROP_FILE, out)
            for th in plug.THEOREMS:
                if th not in pa:
                    ctx.tie_broken("proof", "theorem %s missing from %s" % (th, plug.PROP_FILE))
                elif pa[th] != "closed":
                    extra = [x for x in pa[th] if x not in getattr(plug, "ALLOWED_AXIOMS", [])]
                    if extra:
                        ctx.tie_broken("proof", "theorem %s depends on axioms %s" % (th, extra))
        bad = lib.grep_gate()
        if bad:
            ctx.tie_broken("proof", "forbidden vernacular in development: %s" % bad[:5])
        files = lib.closure_files(plug.PROP_FILE)
        if a.tier == "thorough" and not ctx.broken:
            # independent re-check of the compiled property file and everything it depends on, with the list of axioms
            mod = "PyccoloV." + plug.PROP_FILE.replace(".v", "").replace("/", ".")
            try:
                pr = subprocess.run(["timeout", "1500", "coqchk", "-o", "-silent", "-Q", ".", "PyccoloV", mod], cwd=os.path.join(lib.VERIF, "coq"),
                                    capture_output=True, text=True)
                out = pr.stdout + pr.stderr
                summary = out[out.find("CONTEXT SUMMARY"):] if "CONTEXT SUMMARY" in out else out[-1500:]
                wanted = ["* Axioms: <none>", "type-in-type: <none>", "unsafe (co)fixpoints: <none>", "positivity is assumed: <none>"]
                if pr.returncode != 0 or not all(w in summary for w in wanted):
                    ctx.tie_broken("proof", "coqchk does not accept %s or reports axioms / unchecked definitions" % mod, summary[-3000:])
                else:
                    ctx.note("coqchk -o %s: Axioms <none>; no type-in-type, unsafe fixpoints or assumed positivity" % mod)
            except Exception as e:
                ctx.tie_broken("proof", "coqchk could not be run: %s" % e)
    model_ok = not any(b["kind"] == "proof" and "build failed" in b["what"] for b in ctx.broken)

    # 3. correspondence (tie K) and oracle (the property itself on the implementation)
    res = plug.run(ctx, model_ok)
    #   res: dict(evaluations, distinct_nontrivial, rule, samples, traces_validated, failures=[...], extra={})
    failures = res.get("failures", [])

    # 3b. script replays: a finding whose observation needs more than the harness of the property offers (code running after the tracing
    #     context, finalizers, re-instrumentation, exotic scopes) carries a self-contained demonstration under /verif/demos: it imports
    #     pyccolo from PYTHONPATH (= /repo), exits 1 when the violation shows and 0 when it does not.  A `known` entry is thereby
    #     re-established on every run; a `fixed` entry is a regression test (exit 1 = the defect is back: a violation).
    script_runs = 0
    for k in lib.load_known(prop):
        if not k.get("script"):
            continue
        path = os.path.join(lib.VERIF, k["script"])
        env = dict(os.environ, PYTHONPATH="/repo", PYTHONHASHSEED="0", PYTHONDONTWRITEBYTECODE="1")
        try:
            pr = subprocess.run(["/venv/bin/python", path], cwd=os.path.dirname(path), env=env, stdout=subprocess.PIPE, stderr=subprocess.STDOUT, text=True, timeout=600)
            rc_, out_ = pr.returncode, pr.stdout
        except subprocess.TimeoutExpired:
            rc_, out_ = 124, "timeout"
        script_runs += 1
        if rc_ == 1:
            failures.append({"signature": k["signature"] if k.get("kind") == "known" else "unlisted", "what": "demonstration %s shows the violation: %s" % (k["script"], out_[-600:]),
                             "kind": "script", "case": {"script": k["script"], "finding": k["id"]}, "kind_": "oracle"})
        elif rc_ != 0:
            ctx.tie_broken("correspondence", "demonstration %s of finding %s neither passed nor showed the violation (exit %d)" % (k["script"], k["id"], rc_), out_[-1500:])
    res.setdefault("distribution", {})["finding_demonstrations_run"] = script_runs

    # 4. known findings
    known = lib.load_known(prop)
    unlisted = []
    listed_hit = {}
    for f in failures:
        sig = f.get("signature")
        hit = [k for k in known if k.get("kind") == "known" and k["signature"] == sig]
        if hit:
            listed_hit.setdefault(hit[0]["id"], (hit[0], f))
        else:
            unlisted.append(f)
    for kid, (k, f) in sorted(listed_hit.items()):
        print("KNOWN-FINDING: property=%s %s" % (prop, k["what"]))
    stale = [k["id"] for k in known if k.get("kind") == "known" and k["id"] not in listed_hit]

    # 5. evidence
    nob = lib.count_obligations(files) if files else 0
    coverage = {
        "obligations": max(nob, 1),
        "discharged": nob if not any(b["kind"] == "proof" for b in ctx.broken) else 0,
        "checker_cmd": "cd /verif/coq && make %s && coqc -Q . PyccoloV %s  (Print Assumptions parsed)"
        % (" ".join(f.replace(".v", ".vo") for f in plug.COQ_TARGETS), plug.PROP_FILE),
        "trusted_base": plug.TRUSTED_BASE,
        "theorems": {k: v for k, v in pa.items()},
        "proof_files": files,
        "evaluations": res.get("evaluations", 0),
        "distinct_nontrivial": res.get("distinct_nontrivial", 0),
        "rule": res.get("rule", ""),
        "samples": res.get("samples", [])[:5],
        "traces_validated_against_impl": res.get("traces_validated", 0),
        "input_distribution": res.get("distribution", {}),
        "broken": ctx.broken,
        "known_findings_reproduced": sorted(listed_hit),
        "known_findings_not_reproduced": stale,
        "notes": ctx.notes,
    }
    coverage.update(res.get("extra", {}))
    nviol = len(unlisted) + (1 if (ctx.broken and not unlisted) else 0)
    lib.write_evidence(prop, a.tier, seed, coverage, clock(), nviol, plug.ASSUMPTIONS)

    # 6. verdict
    if unlisted:
        f = unlisted[0]
        rep = {"property": prop, "seed": seed, "tier": a.tier, "failure": f, "broken": ctx.broken,
               "replay_cmd": "./check %s --replay <this file>" % prop}
        path = lib.write_replay(prop, rep)
        print("violation detail:", json.dumps(f, default=str)[:1500])
        print("VIOLATION property=%s replay=%s" % (prop, path))
        sys.exit(1)
    if ctx.broken:
        rep = {"property": prop, "seed": seed, "tier": a.tier, "failure": None, "broken": ctx.broken,
               "searched": {"evaluations": res.get("evaluations", 0), "rule": res.get("rule", "")},
               "note": "a proof obligation or model/implementation tie no longer checks; the search over the "
                       "implementation found no input on which the property itself fails"}
        path = lib.write_replay(prop, rep)
        print("VIOLATION property=%s replay=%s no-failing-input-found" % (prop, path))
        sys.exit(1)
    print("OK property=%s tier=%s evaluations=%d wall=%.1fs" % (prop, a.tier, res.get("evaluations", 0), clock()))
    sys.exit(0)


if __name__ == "__main__":
    main()
