# C11 - conditional handlers run exactly where their condition says
import ast
import json

import lib
from props import rwcommon as rc

ID = "C11"
PROP_FILE = "props/C11.v"
COQ_TARGETS = ["props/C11.v"]
THEOREMS = ["C11_condition_meaning", "C11_any", "C11_all", "C11_any_empty_refuted", "C11_invoked_char", "C11_exact_partial", "C11_exact_sole",
            "C11_no_miss", "C11_exact_refuted", "C11_guard_partial", "C11_unguarded_site", "C11_guard_refuted",
            "C11_raising_conditions", "C11_raising_conditions_guarded", "C11_raising_evaluation"]
TRUSTED_BASE = [
    "Coq 8.16.1 kernel, vm_compute for the in-coqc correspondence",
    "tools/translators/gen_pred.py: regenerates every boolean decision of predicate.py (dynamic_call, .static, any/all coalescing), the delivery test of "
    "tracer.py::_emit_event and the rewriter's per-event composite into gen/PredGen.v (fail-closed shape matching)",
    "model/Pred.v: hand-written recursion over predicate structures, the site / delivery / local-guard composition (tied by the two correspondences below)",
    "tools/impl/ref_instr.py as the definition of the occurrences of an event (C02), the data language of node conditions interpreted on the plain AST",
]
ASSUMPTIONS = ["handlers are observing; AST bookkeeping is on (dynamic conditions receive the node)",
               "conditions are functions of the node (they may raise on nodes they were not written for: that counts as not satisfied); a stateful condition is outside the quantifier "
               "(a dynamic condition is evaluated at rewrite time too, by design: `static decision at rewrite time ... dynamic re-check at delivery`)", "composites are built with CompositePredicate.any / .all (never empty)",
               "local guards follow the documented protocol: the names are defined (False) in the module before use"]

SIG_STATIC = "a wholly static condition is not re-checked at delivery: with another handler on the same event the handler also runs at nodes its condition rejects"
SIG_GUARD = "local guards are tested once per emission site: a set guard of one handler silences every handler of that site"
SIG_ANY_EMPTY = "CompositePredicate.any([]) is Predicate.TRUE, not the empty disjunction"


# ------------------------------------------------------------------ predicate structures (K-pred, K-inv)

def gen_spec(rng, ncond, depth=0):
    r = rng.random()
    if depth >= 3 or r < 0.45:
        r2 = rng.random()
        if r2 < 0.12:
            return {"t": "true"}
        if r2 < 0.22:
            return {"t": "false"}
        return {"t": "base", "static": rng.random() < 0.5, "c": rng.randrange(ncond)}
    k = rng.choice([1, 2, 2, 3])
    return {"t": rng.choice(["any", "all"]), "parts": [gen_spec(rng, ncond, depth + 1) for _ in range(k)]}


def coq_pred(s):
    if s["t"] == "true":
        return "PTrue"
    if s["t"] == "false":
        return "PFalse"
    if s["t"] == "base":
        return "(PBase %s %d)" % ("true" if s["static"] else "false", s["c"])
    return "(%s [%s])" % ("pany" if s["t"] == "any" else "pall", "; ".join(coq_pred(p) for p in s["parts"]))


def coq_env(bits):
    return "(fun c => nth (N.to_nat c) [%s] false)" % "; ".join("true" if b else "false" for b in bits)


def coq_envx(vals):
    """truth values of the base conditions at one node; None = the condition raises there"""
    return "(fun c => nth (N.to_nat c) [%s] None)" % "; ".join("None" if b is None else ("Some true" if b else "Some false") for b in vals)


def gen_table(rng, ncond, n):
    """table[c][i]: base condition c at node i - True / False / None (it raises: a condition written for another node shape)"""
    pr = rng.choice([0.0, 0.0, 0.15, 0.35])
    return [[None if rng.random() < pr else rng.random() < 0.5 for _ in range(n)] for _ in range(ncond)]


HEADER = """From Coq Require Import List NArith Bool.
Import ListNotations.
From PyccoloV Require Import gen.PredGen model.Pred.
Local Open Scope N_scope.
Definition oenc (r : option bool) : N := match r with Some false => 0 | Some true => 1 | None => 2 end.
"""
DEC = {0: False, 1: True, 2: "raise"}


def coq_bool(x):
    return x is True or x == "true"


def k_pred(ctx, rng, n):
    cases = []
    for _ in range(n):
        ncond = 4
        nenv = 6
        cases.append({"kind": "pred", "pred": gen_spec(rng, ncond), "table": gen_table(rng, ncond, nenv)})
    # directed: the coalescing corners
    for s in ([], [{"t": "true"}], [{"t": "false"}], [{"t": "false"}, {"t": "false"}], [{"t": "true"}, {"t": "base", "static": True, "c": 0}],
              [{"t": "false"}, {"t": "base", "static": False, "c": 1}]):
        for t in ("any", "all"):
            cases.append({"kind": "pred", "pred": {"t": t, "parts": s}, "table": [[True, False], [False, True], [True, True], [False, False]]})
    # directed: a part that raises before / after a deciding part, alone, nested, static
    B = lambda c, st=False: {"t": "base", "static": st, "c": c}
    for pr in (B(0), B(0, True), {"t": "any", "parts": [B(0), B(1)]}, {"t": "any", "parts": [B(1), B(0)]}, {"t": "all", "parts": [B(0), B(1)]}, {"t": "all", "parts": [B(1), B(0)]},
               {"t": "all", "parts": [B(0, True), B(1)]}, {"t": "any", "parts": [{"t": "all", "parts": [B(0), B(1)]}, B(2)]}):
        cases.append({"kind": "pred", "pred": pr, "table": [[None, None, True, None], [True, False, None, None], [True, True, False, None]]})
    rcode, impl, out = lib.impl_run("c11_pred.py", cases, timeout=600)
    if impl is None:
        raise RuntimeError("implementation harness failed:\n" + out[-3000:])
    L = [HEADER]
    for i, c in enumerate(cases):
        envs = [[c["table"][k][e] for k in range(len(c["table"]))] for e in range(len(c["table"][0]))]
        L.append("Eval vm_compute in (let p := %s in (ident_of p, p_static p, map (fun envx => (oenc (fst (evalx envx p)), oenc (snd (evalx envx p)))) [%s]))."
                 % (coq_pred(c["pred"]), "; ".join(coq_envx(b) for b in envs)))
    rc_, o = lib.coq_eval("c11_kpred", "\n".join(L) + "\n", timeout=600)
    vals = lib.parse_marked(o) if rc_ == 0 else []
    bad = []
    if rc_ != 0 or len(vals) != len(cases):
        ctx.tie_broken("correspondence", "K-pred: coqc failed (%d values for %d cases)" % (len(vals), len(cases)), o[-2000:])
        return len(cases), 0
    okc = 0
    for c, im, v in zip(cases, impl, vals):
        if "crash" in im:
            bad.append({"case": c, "impl": im})
            continue
        m = lib.parse_coq_list(v)
        mod = {"ident": m[0], "static": coq_bool(m[1]), "rows": [[DEC[a], DEC[b]] for a, b in m[2]]}
        if mod != {k: im[k] for k in ("ident", "static", "rows")}:
            bad.append({"case": c, "model": mod, "impl": im})
        else:
            okc += 1
    if bad:
        ctx.tie_broken("correspondence", "K-pred: model and predicate.py disagree on %d of %d structures" % (len(bad), len(cases)), json.dumps(bad[0])[-3000:])
    return len(cases), okc


def gen_inv(rng):
    ncond, n = 4, 6
    table = gen_table(rng, ncond, n)
    tracers = []
    guarded = rng.random() < 0.4
    for _ in range(rng.choice([1, 1, 2])):
        hs = []
        for _ in range(rng.choice([1, 2, 2, 3])):
            h = {"pred": gen_spec(rng, ncond, depth=1)}
            if guarded and rng.random() < 0.7:
                h["guard"] = [rng.choice([None, 0, 0, 1]) for _ in range(n)]
            hs.append(h)
        tracers.append(hs)
    G = {}
    if guarded:
        for i in range(n):
            G[str(i)] = {str(g): rng.random() < 0.4 for g in (0, 1) if rng.random() < 0.6}
    return {"kind": "inv", "table": table, "n": n, "tracers": tracers, "G": G}


def k_inv(ctx, rng, n):
    cases = [dict(r) for r in getattr(ctx, "known_replays", []) + getattr(ctx, "fixed_replays", []) if r.get("kind") == "inv"]
    cases += [gen_inv(rng) for _ in range(n)]
    # directed: the two recorded findings and the mixed composites that were repaired
    T = [[True, False, True, False, True, False], [True, True, False, False, True, True], [False] * 6, [True] * 6]
    cases.append({"kind": "inv", "table": T, "n": 6, "tracers": [[{"pred": {"t": "base", "static": True, "c": 0}}, {"pred": {"t": "true"}}]], "G": {}})
    cases.append({"kind": "inv", "table": T, "n": 6, "tracers": [[{"pred": {"t": "any", "parts": [{"t": "base", "static": True, "c": 0}, {"t": "base", "static": False, "c": 1}]}}]], "G": {}})
    cases.append({"kind": "inv", "table": T, "n": 6, "tracers": [[{"pred": {"t": "all", "parts": [{"t": "base", "static": True, "c": 0}, {"t": "base", "static": False, "c": 1}]}}], [{"pred": {"t": "true"}}]], "G": {}})
    cases.append({"kind": "inv", "table": T, "n": 6, "tracers": [[{"pred": {"t": "true"}, "guard": [0] * 6}, {"pred": {"t": "true"}, "guard": [1] * 6}]],
                  "G": {"2": {"0": True}, "4": {"0": False, "1": True}}})
    # directed: one handler's condition raises where the other's holds, both registration orders, one and two tracers (fixed c224119)
    TR = [[None, None, True, False, None, True], [True, False, True, None, None, False], [False] * 6, [True] * 6]
    h0, h1 = {"pred": {"t": "base", "static": False, "c": 0}}, {"pred": {"t": "base", "static": False, "c": 1}}
    for trs in ([[h0, h1]], [[h1, h0]], [[h0], [h1]], [[h1], [h0]], [[{"pred": {"t": "all", "parts": [h0["pred"], h1["pred"]]}}, h1]]):
        cases.append({"kind": "inv", "table": TR, "n": 6, "tracers": trs, "G": {}})
    rcode, impl, out = lib.impl_run("c11_pred.py", cases, timeout=900)
    if impl is None:
        raise RuntimeError("implementation harness failed:\n" + out[-3000:])
    L = [HEADER]
    for c in cases:
        hs = [h for t in c["tracers"] for h in t]
        preds = "[" + "; ".join(coq_pred(h["pred"]) for h in hs) + "]"
        cur = {}
        rows = []
        for i in range(c["n"]):
            cur.update({int(k): v for k, v in (c["G"].get(str(i)) or {}).items()})
            env = coq_envx([c["table"][k][i] for k in range(len(c["table"]))])
            Gf = "(fun g => nth (N.to_nat g) [%s] false)" % "; ".join("true" if cur.get(g) else "false" for g in range(2))
            gs = [h["guard"][i] for h in hs if h.get("guard") is not None and h["guard"][i] is not None]
            hl = "; ".join("(%s, %s)" % (coq_pred(h["pred"]), ("Some %d" % h["guard"][i]) if h.get("guard") is not None and h["guard"][i] is not None else "None") for h in hs)
            rows.append("map (fun pg : pred * option N => oenc (invoked_gx %s %s %s [%s] (fst pg) (snd pg))) [%s]" % (env, Gf, preds, "; ".join(map(str, gs)), hl))
        L.append("Eval vm_compute in [%s]." % "; ".join(rows))
    rc_, o = lib.coq_eval("c11_kinv", "\n".join(L) + "\n", timeout=900)
    vals = lib.parse_marked(o) if rc_ == 0 else []
    if rc_ != 0 or len(vals) != len(cases):
        ctx.tie_broken("correspondence", "K-inv: coqc failed (%d values for %d cases)" % (len(vals), len(cases)), o[-2000:])
        return cases, impl, 0
    bad, okc = [], 0
    for c, im, v in zip(cases, impl, vals):
        m = lib.parse_coq_list(v)
        aborted = any(b == 2 for row in m for b in row)        # the model says an exception leaves the rewrite
        if "crash" in im:
            if aborted and "escaped the rewrite" in im["crash"]:
                okc += 1
            else:
                bad.append({"case": c, "impl": im, "model_says_rewrite_aborted": aborted})
            continue
        flat = [(ti, hi) for ti, t in enumerate(c["tracers"]) for hi in range(len(t))]
        model_calls = sorted([ti, hi, i] for i, row in enumerate(m) for (ti, hi), b in zip(flat, row) if b == 1)
        if aborted or model_calls != sorted(im["calls"]):
            bad.append({"case": c, "model_calls": model_calls, "impl_calls": sorted(im["calls"])})
        else:
            okc += 1
    if bad:
        ctx.tie_broken("correspondence", "K-inv: model and implementation disagree on which handler runs at which node in %d of %d arrangements" % (len(bad), len(cases)),
                       json.dumps(bad[0])[-3000:])
    return cases, impl, okc


def meaning(spec, i, table):
    t = spec["t"]
    if t == "true":
        return True
    if t == "false":
        return False
    if t == "base":
        return table[spec["c"]][i] is True        # a condition that raises for the node is not satisfied by it
    vals = [meaning(p, i, table) for p in spec["parts"]]
    return any(vals) if t == "any" else all(vals)


def is_static(spec):
    if spec["t"] in ("true", "false"):
        return False
    if spec["t"] == "base":
        return spec["static"]
    # coalescing first (as the classmethods do)
    parts = spec["parts"]
    if spec["t"] == "any" and (not parts or any(p["t"] == "true" for p in parts)) or spec["t"] == "all" and all(p["t"] == "true" for p in parts):
        return False
    if spec["t"] == "any" and all(p["t"] == "false" for p in parts) or spec["t"] == "all" and any(p["t"] == "false" for p in parts):
        return False
    return all(is_static(p) for p in parts)


def inv_oracle(cases, impl):
    """the property itself on the synthetic arrangements: handler runs at node i iff its condition holds there and its guard is not set"""
    fails = []
    for c, im in zip(cases, impl):
        if "crash" in im:
            fails.append({"what": "arrangement crashed: " + im["crash"], "case": c, "signature": "unlisted", "kind": "crash"})
            continue
        hs = [(ti, hi, h) for ti, t in enumerate(c["tracers"]) for hi, h in enumerate(t)]
        got = {(a, b, i) for a, b, i in im["calls"]}
        cur = {}
        for i in range(c["n"]):
            cur.update({int(k): v for k, v in (c["G"].get(str(i)) or {}).items()})
            for ti, hi, h in hs:
                g = h["guard"][i] if h.get("guard") is not None else None
                want = meaning(h["pred"], i, c["table"]) and not (g is not None and cur.get(g))
                if ((ti, hi, i) in got) != want:
                    others_guard_set = any(h2.get("guard") is not None and h2["guard"][i] is not None and cur.get(h2["guard"][i]) for _, _, h2 in hs if h2 is not h)
                    if not want and (ti, hi, i) in got and is_static(h["pred"]) and len(hs) > 1:
                        sig = SIG_STATIC
                    elif want and (ti, hi, i) not in got and others_guard_set:
                        sig = SIG_GUARD
                    else:
                        sig = "unlisted"
                    fails.append({"what": "handler %d of tracer %d %s at node %d" % (hi, ti, "ran" if (ti, hi, i) in got else "did not run", i), "expected_to_run": want,
                                  "case": c, "signature": sig, "kind": "inv"})
                    break
            else:
                continue
            break
    return fails


# ------------------------------------------------------------------ the property on generated programs (oracle)

EVENT_POOL = ["load_name", "after_int", "after_binop", "after_call", "after_assign_rhs", "after_stmt", "after_attribute_load", "after_subscript_load",
              "after_compare", "after_argument", "list_elt", "tuple_elt", "dict_value", "after_if_test", "after_return", "before_call", "after_for_iter",
              "after_string", "before_stmt", "after_bool", "left_binop_arg", "right_binop_arg"]
INTERNAL = {"after_stmt", "before_subscript_load", "before_subscript_store", "before_subscript_del"}
TYPES = ["Name", "Constant", "BinOp", "Call", "Assign", "Expr", "Attribute", "Subscript", "Compare", "AugAssign", "Return", "If", "For"]


def gen_node_pred(rng, depth=0):
    r = rng.random()
    if depth >= 2 or r < 0.6:
        k = rng.choice(["type", "name", "op", "const", "line", "col", "true"])
        dyn = rng.random() < 0.6
        if k == "type":
            return {"kind": "type", "arg": rng.sample(TYPES, 4), "dynamic": dyn}
        if k == "name":
            return {"kind": "name", "arg": rng.sample(["a", "b", "c", "d", "x", "y", "p", "bx", "t"], 3), "dynamic": dyn}
        if k == "op":
            return {"kind": "op", "arg": rng.sample(["Add", "Sub", "Mult"], 2), "dynamic": dyn}
        if k == "const":
            return {"kind": "const", "arg": rng.randrange(2), "dynamic": dyn}
        if k == "true":
            return {"kind": "true"}
        return {"kind": k, "arg": rng.randrange(2 if k == "line" else 3), "dynamic": dyn}
    return {"combine": rng.choice(["any", "all"]), "parts": [gen_node_pred(rng, depth + 1) for _ in range(rng.choice([1, 2, 3]))]}


def node_meaning(spec, node):
    if spec.get("combine"):
        vals = [node_meaning(p, node) for p in spec["parts"]]
        return any(vals) if spec["combine"] == "any" else all(vals)
    k, a = spec["kind"], spec.get("arg")
    if k == "true":
        return True
    if k == "false":
        return False
    if k == "type":
        return type(node).__name__ in a
    if k == "name":
        return isinstance(node, ast.Name) and node.id in a
    if k == "op":
        return isinstance(node, ast.BinOp) and type(node.op).__name__ in a
    if k == "const":
        return isinstance(node, ast.Constant) and isinstance(node.value, int) and not isinstance(node.value, bool) and node.value % 2 == a
    if k == "line":
        return getattr(node, "lineno", 0) % 2 == a
    if k == "col":
        return getattr(node, "col_offset", 0) % 3 == a
    raise ValueError(k)


def node_static(spec):
    if spec.get("combine"):
        parts = spec["parts"]
        if spec["combine"] == "any" and any(p.get("kind") == "true" for p in parts):
            return False
        if spec["combine"] == "all" and all(p.get("kind") == "true" for p in parts):
            return False
        return all(node_static(p) for p in parts)
    if spec["kind"] in ("true", "false"):
        return False
    return not spec.get("dynamic", False)


def gen_prog_case(rng):
    ntr = rng.choice([1, 1, 2])
    tracers = []
    for _ in range(ntr):
        hs = []
        for _ in range(rng.choice([1, 2, 2, 3])):
            hs.append({"events": rng.sample(EVENT_POOL, rng.choice([1, 2, 4])), "pred": gen_node_pred(rng)})
        tracers.append({"handlers": hs, "guards": rng.random() < 0.4})
    ref = sorted({e for t in tracers for h in t["handlers"] for e in h["events"]})
    return {"src": rc.gen_program(rng), "tracers": tracers, "reference": ref, "export": False}


def gen_guard_case(rng):
    """the suite's local-guard scenario on generated programs: the guard is named after the variable, the handler sets it at
    the first load it sees; every later load of that variable, in every scope of the module, must be skipped - also by a
    second handler of the same event that names the same guard (it comes later in the same delivery)"""
    hs = [{"events": ["load_name"], "pred": {"kind": "true"}, "guard": {"by": "id"}, "sets_guard": True}]
    if rng.random() < 0.5:
        hs.append({"events": ["load_name"], "pred": gen_node_pred(rng) if rng.random() < 0.5 else {"kind": "true"}, "guard": {"by": "id"}, "sets_guard": rng.random() < 0.3})
        if rng.random() < 0.5:
            hs.reverse()
    if rng.random() < 0.5:
        hs.append({"events": ["after_binop", "after_int"], "pred": gen_node_pred(rng)})
    def make_dynamic(p):
        # guard scenarios are about guards: keep the recorded static-condition finding out of them
        if p.get("combine"):
            for q in p["parts"]:
                make_dynamic(q)
        elif p.get("kind") not in ("true", "false"):
            p["dynamic"] = True
    for h in hs:
        make_dynamic(h["pred"])
    return {"src": rc.gen_program(rng), "tracers": [{"handlers": hs, "guards": False}], "reference": ["load_name", "after_binop", "after_int"], "export": False, "guard_case": True}


def prog_oracle(c, im):
    if "crash" in im:
        return {"what": "harness crashed: " + im["crash"], "tb": im.get("tb"), "kind": "crash"}
    if "rewrite_exc" in im or "compile_exc" in im:
        return {"what": "rewriter failed: " + (im.get("rewrite_exc") or im.get("compile_exc")), "kind": "rewrite"}
    if im.get("exc") != im.get("ref_exc"):
        return {"what": "run ends differently under instrumentation", "expected": im.get("ref_exc"), "observed": im.get("exc"), "kind": "exception"}
    tree = ast.parse(c["src"])
    by_pos = {}
    for n in ast.walk(tree):
        by_pos.setdefault(json.dumps([type(n).__name__, getattr(n, "lineno", None), getattr(n, "col_offset", None), getattr(n, "end_lineno", None), getattr(n, "end_col_offset", None)]), n)
    ref = im["ref"]
    allh = [(ti, hi, h) for ti, t in enumerate(c["tracers"]) for hi, h in enumerate(t["handlers"])]
    want = {(ti, hi): [] for ti, hi, _ in allh}
    want_char = {(ti, hi): [] for ti, hi, _ in allh}
    set_names = set()          # local guard names currently set in the module (a handler with sets_guard sets its own at each call)
    for r in ref:
        if r[1] is None:
            continue
        node = by_pos.get(json.dumps(r[1]))
        if node is None:
            continue
        # BaseTracer itself registers unconditional helper handlers on these events: they count as "another handler of the event"
        some = r[0] in INTERNAL or any(r[0] in h2["events"] and node_meaning(h2["pred"], node) for _, _, h2 in allh)
        for ti, hi, h in allh:          # delivery order: stack order, then definition order
            if r[0] not in h["events"]:
                continue
            m = node_meaning(h["pred"], node)
            gname = getattr(node, "id", None) if h.get("guard") else None
            if gname is not None and gname in set_names:
                continue                # skipped exactly while the name is set
            if m:
                want[(ti, hi)].append(r[:2])
                if h.get("sets_guard") and gname is not None:
                    set_names.add(gname)
            if some and (node_static(h["pred"]) or m):
                want_char[(ti, hi)].append(r[:2])
    for ti, hi, h in allh:
        got = [r[:2] for r in im["streams"][ti] if len(r) > 3 and r[3] == hi and r[1] is not None]
        w = want[(ti, hi)]
        if got != w:
            shared = sum(1 for _, _, h2 in allh if set(h2["events"]) & set(h["events"])) > 1 or bool(set(h["events"]) & INTERNAL)
            region = node_static(h["pred"]) and shared and got == want_char[(ti, hi)] and not any(h2.get("guard") for _, _, h2 in allh)
            i = next((k for k in range(max(len(got), len(w))) if (got[k] if k < len(got) else None) != (w[k] if k < len(w) else None)), 0)
            return {"what": "handler %d of tracer %d was invoked for %d occurrences, its condition%s selects %d (first difference at %d)"
                    % (hi, ti, len(got), " and local guard" if h.get("guard") else "", len(w), i),
                    "observed": got[i] if i < len(got) else None, "expected": w[i] if i < len(w) else None, "kind": "static-shared" if region else "exact",
                    "handler": h}
    return None


def prog_signature(f):
    return SIG_STATIC if f.get("kind") == "static-shared" else "unlisted"


def run_prog(cases):
    out = []
    for i in range(0, len(cases), 30):
        r, res, o = lib.impl_run("c02_stream.py", cases[i:i + 30], timeout=1200)
        if res is None:
            raise RuntimeError("implementation harness failed:\n" + o[-3000:])
        out += res
    return out


def fails_on_impl(c):
    if c.get("kind") == "inv":
        r, impl, o = lib.impl_run("c11_pred.py", [c], timeout=300)
        f = inv_oracle([c], impl)
        return f[0] if f else None
    if c.get("kind") == "any_empty":
        r, impl, o = lib.impl_run("c11_pred.py", [{"kind": "pred", "pred": {"t": "any", "parts": []}, "table": [[False]]}], timeout=300)
        return {"what": "CompositePredicate.any([]) evaluates to True on every node", "kind": "any-empty"} if impl and impl[0].get("rows") == [[True, True]] else None
    return prog_oracle(c, run_prog([c])[0])


def run(ctx, model_ok):
    rng = ctx.rng
    quick = ctx.tier == "quick"
    n1, ok1 = (0, 0)
    failures = []
    if model_ok:
        n1, ok1 = k_pred(ctx, rng, 300 if quick else 3000)
    inv_cases, inv_impl, ok2 = k_inv(ctx, rng, 150 if quick else 1500) if model_ok else ([], [], 0)
    seen_sigs = set()
    for f in inv_oracle(inv_cases, inv_impl):
        if f["signature"] not in seen_sigs or (f["signature"] == "unlisted" and len(failures) < 3):
            seen_sigs.add(f["signature"])
            failures.append(f)
    # any([]) (recorded finding)
    fe = fails_on_impl({"kind": "any_empty"})
    if fe:
        fe.update({"case": {"kind": "any_empty"}, "signature": SIG_ANY_EMPTY})
        failures.append(fe)
    # generated programs
    cases = [dict(rp) for rp in getattr(ctx, "fixed_replays", []) if "src" in rp]
    n3 = 120 if quick else 1200
    while len(cases) < n3:
        cases.append(gen_guard_case(rng) if rng.random() < 0.2 else gen_prog_case(rng))
    impl = run_prog(cases)
    nocc = 0
    for c, im in zip(cases, impl):
        f = prog_oracle(c, im)
        nocc += len(im.get("ref", []))
        if f:
            sig = prog_signature(f)
            if sig in seen_sigs and sig != "unlisted":
                continue
            if sig == "unlisted" and sum(1 for x in failures if x["signature"] == "unlisted") >= 3:
                continue
            seen_sigs.add(sig)
            f.update({"case": {k: c[k] for k in ("src", "tracers", "reference")}, "signature": sig})
            failures.append(f)
    shapes = {}
    for c in cases:
        for t in c["tracers"]:
            for h in t["handlers"]:
                k = ("guarded" if h.get("guard") else ("composite" if h["pred"].get("combine") else h["pred"]["kind"])) + ("/static" if node_static(h["pred"]) else "/dynamic")
                shapes[k] = shapes.get(k, 0) + 1
    return {
        "evaluations": n1 + len(inv_cases) + len(cases),
        "distinct_nontrivial": len({lib.digest(c) for c, im in zip(cases, impl) if len(im.get("ref", [])) >= 5}) + len({lib.digest(c) for c in inv_cases}),
        "rule": "(K-pred) random predicate structures (depth <= 3, Predicate.TRUE/FALSE, static / dynamic base conditions, any / all, coalescing corners) x 6 truth "
                "assignments: identity class, .static, p(node), p.dynamic_call(node) of the real predicate.py vs model in coqc; (K-inv) 1-2 real tracers x 1-3 after_int "
                "handlers carrying such conditions and optional local guards on a 6-node program that sets the guard names itself: which handler ran at which node vs "
                "invoked_g in coqc, and vs the property (condition holds and own guard unset); (oracle) generated programs (see C01) x handlers with conditions from a data "
                "language (node type, name, operator, constant parity, line, column; static or dynamic; any / all) on 22 events: occurrences each handler saw vs the "
                "reference stream filtered by the condition evaluated on the plain AST; plus the suite's local-guard scenario (guard named after the variable, set at the "
                "first load) on generated programs; non-trivial (oracle) = >= 5 reference occurrences",
        "samples": [{"handlers": cases[-1]["tracers"][0]["handlers"][:2], "src_tail": cases[-1]["src"][-200:]}, {"arrangement": inv_cases[-1] if inv_cases else None}],
        "traces_validated": ok1 + ok2,
        "distribution": {"k_pred_structures": n1, "k_pred_agree": ok1, "k_inv_arrangements": len(inv_cases), "k_inv_agree": ok2, "programs": len(cases),
                         "reference_occurrences": nocc, "handler_condition_shapes": shapes},
        "failures": failures, "extra": {},
    }


def replay(ctx, rep):
    case = (rep.get("failure") or {}).get("case")
    return fails_on_impl(case) if case else None
