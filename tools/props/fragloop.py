# K-loop: model/FragLoop.v (while loops and guards on top of FragSem.v) against the real rewriter, CPython and the real runtime,
# with handlers that activate / deactivate loop guards by rule
import json
import random

import lib
from props import rwfrag

LOOP_EVENTS = rwfrag.FRAG_EVENTS + ["before_while_loop_body", "after_while_loop_iter", "after_while_test"]
NAMES = ["a", "b", "c", "d", "i", "j"]

HEADER = """From Coq Require Import List ZArith NArith Bool Arith.
Import ListNotations.
From PyccoloV Require Import gen.Events model.Tree model.Erase model.RwFrag model.FragSem model.FragLoop.
Local Open Scope N_scope.
Definition encv (v : val) : Z * Z := match v with VInt z => (0, z) | VBool b => (1, if b then 1 else 0) | VNone => (2, 0) | VStr s => (3, Z.of_N s) | VFun _ | VBuiltin _ => (4, 0) | VRange _ _ => (9, 0) end%Z.
Definition enco (o : option val) : Z * Z := match o with Some v => encv v | None => (4, 0)%Z end.
Definition ence (en : entry) := (event_idx (fst (fst en)), snd (fst en), enco (snd en)).
Definition encx (x : option lexc) : N := match x with None => 0 | Some (LX ENameError) => 1 | Some (LX ETypeError) => 2 | Some (LX EZeroDiv) => 3 | Some LFuel => 8 | Some LBrk => 6 | Some LCnt => 7 end.
Definition encenv (r : env) (names : list N) := map (fun x => match r x with Some v => encv v | None => (5, 0)%Z end) names.
Definition guard_eqb (a b : guard) : bool := N.eqb (guard_id a) (guard_id b).
Definition mkpol (rules : list (nat * bool * guard)) (log : list entry) (g : guard) : bool :=
  fold_left (fun acc rule => let '(k, b, g') := rule in if Nat.leb k (length log) && guard_eqb g g' then b else acc) rules true.
Definition one (c : rcfg) (ge : bool) (rules : list (nat * bool * guard)) (names : list N) (s o : tree) :=
  match of_lmodule s with
  | None => None
  | Some m =>
      let im := linstr_module c ge m in
      let a := lexec_l Py.binop Py.cmpop Py.unop Py.truth Py.cval Py.is_and c (mkpol rules) 60 im (fun _ => None) VNone [] in
      let p := lexec_l Py.binop Py.cmpop Py.unop Py.truth Py.cval Py.is_and c (mkpol rules) 60 m (fun _ => None) VNone [] in
      let rf := lref_module Py.binop Py.cmpop Py.unop Py.truth Py.cval Py.is_and c (mkpol rules) 60 ge m (fun _ => None) in
      Some (tree_eqb (tl_module im) o,
            (encx (l_exc a), encenv (l_env a) names, map ence (filter_log c (l_log a))),
            (encx (rl_exc rf), encenv (rl_env rf) names, map ence (filter_log c (rl_log rf))),
            (encx (l_exc p), encenv (l_env p) names))
  end.
"""


class GLoop(rwfrag.GSem):
    def loop(self, depth, var):
        k = self.rng.choice([1, 2, 2, 3])
        self.in_loop = getattr(self, "in_loop", 0) + 1
        body = self.stmts(depth + 1, self.rng.choice([1, 2]), loops=(var == "i"))
        self.in_loop -= 1
        # the counter is advanced first, so that `continue` cannot skip it
        out = ["%s = 0" % var, "while %s < %d:" % (var, k), "    %s = %s + 1" % (var, var)] + ["    " + l for l in body]
        if self.rng.random() < 0.3:
            out += ["else:"] + ["    " + l for l in self.stmts(depth + 1, 1, loops=False)]
        return out

    def stmts(self, depth, n, loops=True):
        out = []
        for _ in range(n):
            r = self.rng.random()
            if getattr(self, "in_loop", 0) and r < 0.18:
                # break / continue, bare or under a condition
                kw = self.rng.choice(["break", "continue"])
                if self.rng.random() < 0.75:
                    out += ["if %s:" % self.expr(), "    " + kw]
                else:
                    out.append(kw)
            elif loops and r < 0.4 and depth <= 1:
                out += self.loop(depth, "i" if depth == 0 else "j")
            elif r < 0.65:
                out.append("%s = %s" % (" = ".join(self.rng.sample(["a", "b", "c", "d"], self.rng.choice([1, 1, 2]))), self.expr()))
            elif r < 0.8:
                out.append(self.expr())
            elif r < 0.85:
                out.append("pass")
            elif depth < 2:
                out.append("if %s:" % self.expr())
                out += ["    " + l for l in self.stmts(depth + 1, self.rng.choice([1, 2]), loops=False)]
                if self.rng.random() < 0.5:
                    out.append("else:")
                    out += ["    " + l for l in self.stmts(depth + 1, 1, loops=False)]
            else:
                out.append(self.expr())
        return out

    def program(self):
        body = self.stmts(0, self.rng.choice([1, 2, 3]))
        if not any(l.startswith("while") for l in body):
            body += self.loop(0, "i")
        # 20%: a module docstring (kept as written, first, silent)
        return ("'d'\n" if self.rng.random() < 0.2 else "") + "a = 1\nb = 2\nc = 3\n" + "\n".join(body) + "\n"


def expr_atoms_fix(g):
    return g


def gen_cases(rng, n):
    cases = []
    for i in range(n):
        g = GLoop(random.Random(rng.random()))
        mode = rng.choice(["all", "single", "half", "sparse", "dense", "loops"])
        if mode == "all":
            ev = list(LOOP_EVENTS)
        elif mode == "single":
            ev = [rng.choice(LOOP_EVENTS)]
        elif mode == "loops":
            ev = ["before_while_loop_body", "after_while_loop_iter", "after_while_test"] + [e for e in rwfrag.FRAG_EVENTS if rng.random() < 0.3]
        else:
            d = {"half": 0.5, "sparse": 0.15, "dense": 0.85}[mode]
            ev = [e for e in LOOP_EVENTS if rng.random() < d] or [rng.choice(LOOP_EVENTS)]
        # guard rules: at the k-th delivered event switch a guard of some loop off (activate) or on again; loop nodes are resolved later by index
        rules = []
        for _ in range(rng.choice([0, 1, 2, 3, 4])):
            rules.append([rng.randrange(1, 40), rng.random() < 0.3, rng.choice(["test", "body", "body"]), rng.randrange(0, 3)])
        cases.append({"src": g.program(), "events": ev, "guards": rng.random() < 0.75, "rules": rules})
    return cases


def resolve_rules(c):
    """rule loop ordinals -> traversal indices of the while nodes of the source (computed here from the source text alone)"""
    import ast
    tree = ast.parse(c["src"])
    order = []

    def trav(n):
        order.append(n)
        for _, f in ast.iter_fields(n):
            if isinstance(f, ast.AST):
                trav(f)
            elif isinstance(f, list):
                for x in f:
                    if isinstance(x, ast.AST):
                        trav(x)
    trav(tree)
    whiles = [i for i, n in enumerate(order) if isinstance(n, ast.While)]
    out = []
    for k, on, kind, w in c["rules"]:
        if whiles:
            out.append([k, on, kind, whiles[w % len(whiles)]])
    return sorted(out, key=lambda x: x[0])


def check(ctx, rng, n, extra_cases=()):
    ev_idx = {e: i for i, e in enumerate(json.load(open(lib.os.path.join(lib.VERIF, "coq", "gen", "events.json")))["events"])}
    cases = gen_cases(rng, n)
    for c in cases:
        c["rules"] = resolve_rules(c)
    cases = [dict(x) for x in extra_cases] + cases
    out = []
    for i in range(0, len(cases), 40):
        r, res, o = lib.impl_run("c10_sem.py", cases[i:i + 40], timeout=1200)
        if res is None:
            raise RuntimeError("implementation harness failed:\n" + o[-3000:])
        out += res
    shard = 8
    texts = []
    for i in range(0, len(cases), shard):
        L = [HEADER]
        for j, (c, im) in enumerate(zip(cases[i:i + shard], out[i:i + shard])):
            if "src_tree" not in im:
                L.append("Eval vm_compute in (@None nat).")
                continue
            subs = "; ".join(rwfrag.coq_event(e) for e in c["events"])
            names = "; ".join(str(im["names"].get(x, 99)) for x in NAMES)
            rules = "; ".join("(%d%%nat, %s, %s %d)" % (k, "true" if on else "false", "GTest" if kind == "test" else "GBody", nn) for k, on, kind, nn in c["rules"])
            L.append("Definition s%d := %s.\nDefinition o%d := %s.\nEval vm_compute in one {| sub := fun e => existsb (event_eqb e) [%s] |} %s [%s] [%s] s%d o%d."
                     % (j, im["src_tree"], j, im["out_tree"], subs, "true" if c["guards"] else "false", rules, names, j, j))
        texts.append(("fragloop_%d" % i, "\n".join(L) + "\n"))
    res = lib.coq_eval_many(texts, timeout=900)
    ok, bad, violations = 0, [], []
    dist = {"raising": 0, "log_entries": 0, "guards_enabled": 0, "rules": 0, "rules_fired": 0,
            "programs_with_break": sum(1 for c in cases if "break" in c["src"]), "programs_with_continue": sum(1 for c in cases if "continue" in c["src"])}
    for i in range(0, len(cases), shard):
        rc_, o = res["fragloop_%d" % i]
        vals = lib.parse_marked(o) if rc_ == 0 else []
        chunk = cases[i:i + shard]
        if rc_ != 0 or len(vals) != len(chunk):
            bad.append({"coqc_failed": o[-1200:]})
            continue
        for c, v, im in zip(chunk, vals, out[i:i + shard]):
            if "crash" in im:
                bad.append({"case": c, "crash": im["crash"], "tb": im.get("tb")})
                continue
            p = lib.parse_coq_list(v)
            if not (isinstance(p, tuple) and p[0] == "Some"):
                bad.append({"case": c, "model": "of_lmodule failed: the program is outside the fragment", "printed": v[:200]})
                continue
            same_tree, (mx, menv, mlog), (rx, renv, rlog), (px, penv) = p[1]
            impl_log = [(ev_idx[e], nid) + rwfrag.enc_val(val) for e, nid, val in im["log"]]
            impl_env = [rwfrag.enc_val(im["bindings"][x]) if x in im["bindings"] else (5, 0) for x in NAMES]
            plain_env = [rwfrag.enc_val(im["plain_bindings"][x]) if x in im["plain_bindings"] else (5, 0) for x in NAMES]
            mlog_ = [(e, nid) + tuple(val) for e, nid, val in mlog]
            rlog_ = [(e, nid) + tuple(val) for e, nid, val in rlog]
            problems = []
            # the property itself: the reference is the source semantics plus the event stream gated by the guards as C10 / C02 state it
            if rwfrag.EXC.get(im["exc"], 9) != rx or [tuple(x) for x in renv] != impl_env or rlog_ != impl_log:
                k = next((t for t, (x, y) in enumerate(zip(rlog_ + [None] * len(impl_log), impl_log + [None] * len(rlog_))) if x != y), None)
                violations.append({"what": "real run under the guard schedule differs from the reference (source semantics + event stream gated by the guards): "
                                           "exception %s vs %s, bindings equal: %s, first stream difference at %s" % (im["exc"], rx, [tuple(x) for x in renv] == impl_env, k),
                                   "case": c, "expected_at": rlog_[k:k + 3] if k is not None else None, "observed_at": impl_log[k:k + 3] if k is not None else None,
                                   "guards_found": im.get("guards_found"), "kind": "loop-guards"})
                continue
            if same_tree is not True:
                problems.append("tl_module (linstr_module c ge m) differs from the real rewriter's output")
            if rwfrag.EXC.get(im["exc"], 9) != mx or [tuple(x) for x in menv] != impl_env or mlog_ != impl_log:
                problems.append("evaluation of the instrumented term under the guard policy differs from the real run (exception / bindings / event stream)")
            if rwfrag.EXC.get(im["plain_exc"], 9) != px or [tuple(x) for x in penv] != plain_env:
                problems.append("evaluation of the source term differs from plain CPython")
            if problems:
                bad.append({"case": c, "problems": problems, "impl": {"exc": im["exc"], "env": impl_env, "log": impl_log[:60]},
                            "model": {"exc": mx, "env": menv, "log": mlog_[:60]}, "ref": {"exc": rx, "env": renv, "log": rlog_[:60]}})
            else:
                ok += 1
                dist["log_entries"] += len(impl_log)
                dist["raising"] += 1 if im["exc"] else 0
                dist["guards_enabled"] += 1 if c["guards"] else 0
                dist["rules"] += len(c["rules"])
                dist["rules_fired"] += sum(1 for r_ in c["rules"] if c["guards"] and r_[0] <= len(impl_log))
    if bad:
        ctx.tie_broken("correspondence", "K-loop: model/FragLoop.v (rewriter on loops, guards, evaluation under a guard policy, gated reference stream) and the real "
                       "rewriter / CPython / runtime disagree on %d of %d programs" % (len(bad), len(cases)), json.dumps(bad[0])[-4000:])
    return len(cases), ok, dist, violations
