# C03 - what a tracer sees for an event does not depend on which other events are on
import json

import lib
from props import rwcommon as rc

ID = "C03"
PROP_FILE = "props/C03.v"
COQ_TARGETS = ["props/C03.v"]
THEOREMS = ["C03_proj_sound", "C03_only_subscribed", "C03_kept_sites_all", "C03_rw_frag_canonical", "C03_rw_frag_proj", "C03_frag_projection", "C03_prog_projection"]
TRUSTED_BASE = [
    "Coq 8.16.1 kernel, vm_compute for the per-pair projection certificates",
    "tools/impl/astexport.py (AST -> Coq term, interning shared by the two rewrites, id canonicalisation), tools/translators/gen_pyast.py + gen_events.py",
    "the laws of C03_proj_sound (premises of the theorem): each root rewrite of the K-erasure preserves behaviour and the sub-stream of the K events "
    "(facts about CPython's evaluation under observing handlers inside an enabled tracing context); validated by the stream oracle, not proved",
]
ASSUMPTIONS = ["handlers are observing (return nothing, never activate guards); the program mentions no _X5ix name",
               "helper sites allowed for a subscription: the two private events, and after_stmt when after_module_stmt is subscribed"]

HELPERS = {"_load_saved_slice", "_load_saved_expr_stmt_ret"}


def gen_pair(rng):
    evs, deferred = rc.all_ast_events()
    mode = rng.choice(["all", "all", "dense", "half"])
    if mode == "all":
        e2 = list(evs)
    else:
        d = {"dense": 0.9, "half": 0.5}[mode]
        e2 = [e for e in evs if rng.random() < d] or list(evs)
    m1 = rng.choice(["single", "single", "pair", "sparse", "half"])
    if m1 == "single":
        e1 = [rng.choice(e2)]
    elif m1 == "pair":
        b = [e for e in e2 if e.startswith("before_") and "after_" + e[7:] in e2]
        e1 = [rng.choice(b)] if b else [rng.choice(e2)]
        if b:
            e1.append("after_" + e1[0][7:])
    else:
        d = {"sparse": 0.1, "half": 0.5}[m1]
        e1 = [e for e in e2 if rng.random() < d] or [rng.choice(e2)]
    return e1, e2


def gen_case(rng):
    e1, e2 = gen_pair(rng)
    return {"src": rc.gen_program(rng), "e1": e1, "e2": e2, "guards": rng.random() < 0.5}


def to_impl(c, export=True):
    return {"src": c["src"], "export": export,
            "configs": [[{"events": c["e1"], "guards": c["guards"]}], [{"events": c["e2"], "guards": c["guards"]}]]}


def run_impl(cases, export=True):
    out = []
    for i in range(0, len(cases), 25):
        r, res, o = lib.impl_run("c03_multi.py", [to_impl(c, export) for c in cases[i:i + 25]], timeout=1800)
        if res is None:
            raise RuntimeError("implementation harness failed:\n" + o[-3000:])
        out += res
    return out


def allowed(sub):
    s = set(sub) | HELPERS
    if "after_module_stmt" in sub:
        s.add("after_stmt")
    return s


def oracle_case(c, im):
    if "crash" in im:
        return {"what": "harness crashed: " + im["crash"], "tb": im.get("tb"), "kind": "crash"}
    r1, r2 = im["configs"]
    for r, nm in ((r1, "E1"), (r2, "E2")):
        if "crash" in r or "rewrite_exc" in r or "compile_exc" in r:
            return {"what": "rewrite under %s failed: %s" % (nm, r.get("crash") or r.get("rewrite_exc") or r.get("compile_exc")), "kind": "rewrite"}
    for r, sub, nm in ((r1, c["e1"], "E1"), (r2, c["e2"], "E2")):
        extra = sorted(set(r["sites"]) - allowed(sub))
        if extra:
            return {"what": "the rewrite under %s contains emission sites for unsubscribed events %s" % (nm, extra), "kind": "sites", "event": extra[0]}
    if r1.get("exc") != r2.get("exc"):
        return {"what": "the two runs end differently", "expected": r2.get("exc"), "observed": r1.get("exc"), "kind": "exception"}
    k = set(c["e1"])
    s1 = r1["streams"][0]
    s2 = [row for row in r2["streams"][0] if row[0] in k]
    for i in range(max(len(s1), len(s2))):
        a = s1[i] if i < len(s1) else None
        b = s2[i] if i < len(s2) else None
        if a != b:
            return {"what": "stream under E1 differs from the stream under E2 filtered to E1 at occurrence %d (%d vs %d occurrences)" % (i, len(s1), len(s2)),
                    "index": i, "under_E1": a, "under_E2_filtered": b, "kind": "stream", "event": (a or b)[0]}
    return None


def fails_on_impl(c):
    return oracle_case(c, run_impl([c], export=False)[0])


def shrink(c, f):
    """reduce E1 to the event the failure is about, then drop events from E2 while the failure persists"""
    cur, curf = c, f
    ev = f.get("event")
    if ev and ev in c["e1"] and len(c["e1"]) > 1:
        cand = dict(c, e1=[ev])
        f2 = fails_on_impl(cand)
        if f2:
            cur, curf = cand, f2
    extra = [e for e in cur["e2"] if e not in cur["e1"]]
    # bisect the extra events
    while len(extra) > 1:
        half = extra[: len(extra) // 2]
        other = extra[len(extra) // 2:]
        for part in (half, other):
            cand = dict(cur, e2=cur["e1"] + part)
            f2 = fails_on_impl(cand)
            if f2:
                cur, curf, extra = cand, f2, part
                break
        else:
            break
    return cur, curf


def signature(c, f):
    return "unlisted"


PROJ_HEADER = """From Coq Require Import List ZArith NArith Bool.
Import ListNotations.
From PyccoloV Require Import model.Tree model.Erase model.Prune.
Local Open Scope N_scope.
"""


def proj_certificates(rows, shard=5, timeout=900, prefix="c03_cert"):
    """rows: (out1_text, out2_text, [K event names], [E1 names], [E2 names]) -> list of None | dict(proj, only1, only2)"""
    ev = json.load(open(lib.os.path.join(lib.COQ, "gen", "events.json")))["events"]
    code = {e: 1000 + i for i, e in enumerate(ev)}
    shards = [(i, rows[i:i + shard]) for i in range(0, len(rows), shard)]
    texts = []
    for i, rs in shards:
        L = [PROJ_HEADER]
        for j, (o1, o2, k, s1, s2) in enumerate(rs):
            lst = lambda xs: "[" + "; ".join(str(code[e]) for e in xs) + "]"
            L.append("Definition a%d := %s.\nDefinition b%d := %s.\nEval vm_compute in (check_proj %s a%d b%d, check_only_subscribed %s a%d, check_only_subscribed %s b%d)."
                     % (j, o1, j, o2, lst(k), j, j, lst(s1), j, lst(s2), j))
        texts.append(("%s_%d" % (prefix, i), "\n".join(L) + "\n"))
    outs = lib.coq_eval_many(texts, timeout=timeout)
    res = []
    for i, rs in shards:
        rcode, out = outs["%s_%d" % (prefix, i)]
        vals = lib.parse_marked(out) if rcode == 0 else []
        if rcode != 0 or len(vals) != len(rs):
            res += [None] * len(rs)
        else:
            for v in vals:
                b = [x.strip() == "true" for x in v.strip("() ").split(",")]
                res.append({"proj": b[0], "only1": b[1], "only2": b[2]} if len(b) == 3 else None)
    return res


CORPUS = [
    # module-level expression statements: after_module_stmt needs the after_stmt helper site
    {"src": "a = 1\na + 1\nt(1, a)\n", "e1": ["after_module_stmt"], "e2": ["after_module_stmt", "after_stmt", "before_stmt", "load_name"], "guards": False},
    # function docstring with / without before_stmt (fixed finding C02-docstring-after-stmt)
    {"src": "def f1(p=0):\n    \"\"\"doc\"\"\"\n    return p\na = f1(1)\n", "e1": ["after_stmt"], "e2": ["after_stmt", "before_stmt"], "guards": True},
    # subscripts: saved-slice plumbing only when a before_subscript event is on
    {"src": "bx = Box(5)\na = bx.items[1]\nbx.items[0] = a\ndel bx.items[0:1]\n", "e1": ["after_subscript_slice", "load_name"],
     "e2": ["after_subscript_slice", "load_name", "before_subscript_load", "before_subscript_store", "before_subscript_del", "after_subscript_load"], "guards": True},
    # comparison chains with a deferred before_compare (fixed finding C08-compare-chain)
    {"src": "a = 1\nc = 3\nu = (2 < 1 < t(3, c))\nv = (1 < 2 < t(4, c) < 9)\n", "e1": ["load_name", "compare_arg"], "e2": ["load_name", "compare_arg", "before_compare", "after_compare"], "guards": True},
    # loops and functions: bracket events with and without guards
    {"src": "def f1(p=0):\n    x = p\n    for i in range(2):\n        x = x + i\n    return x\na = f1(2)\n", "e1": ["after_for_loop_iter", "after_assign_rhs"],
     "e2": ["after_for_loop_iter", "after_assign_rhs", "before_for_loop_body", "before_function_body", "after_function_execution", "before_stmt", "after_stmt"], "guards": True},
]


def run(ctx, model_ok):
    rng = ctx.rng
    n = 40 if ctx.tier == "quick" else 800
    cases = [dict(rp) for rp in getattr(ctx, "known_replays", []) + getattr(ctx, "fixed_replays", [])] + [dict(c) for c in CORPUS]
    # every AST event alone against ALL events, on hand-written feature programs (statement expansion, docstring look-alikes,
    # chains, loops, brackets ...): interactions between one event's sites and any other event's show up here
    import battery
    bat = sorted(battery.programs().items())
    evs, _ = rc.all_ast_events()
    reps = len(bat)
    for i, e in enumerate(evs):
        for r in range(reps):
            name, src = bat[(i + r + ctx.seed) % len(bat)]
            cases.append({"src": src, "e1": [e], "e2": list(evs), "guards": rng.random() < 0.5, "battery": name})
    nbat = len(cases)
    while len(cases) < nbat + n:
        cases.append(gen_case(rng))
    impl = run_impl(cases)
    failures = []
    occ = 0
    for c, im in zip(cases, impl):
        f = oracle_case(c, im)
        if "configs" in im and "streams" in im["configs"][0]:
            occ += len(im["configs"][0]["streams"][0])
        if f and len(failures) < 3:
            small, f = shrink(c, f) if f.get("kind") in ("stream", "exception", "sites") else (c, f)
            f.update({"case": small, "signature": signature(small, f)})
            failures.append(f)
    rows, idx = [], []
    for i, im in enumerate(impl):
        cf = im.get("configs", [{}, {}])
        if "battery" in cases[i] and ctx.tier == "quick" and i % 8 != ctx.seed % 8:
            continue                # quick tier: certificates for one in eight of the battery pairs (the oracle runs on all of them)
        if all("out_tree" in r for r in cf) and max(r["out_nodes"] for r in cf) <= 9000:
            rows.append((cf[0]["out_tree"], cf[1]["out_tree"], cases[i]["e1"], cases[i]["e1"], cases[i]["e2"]))
            idx.append(i)
    ok = {"proj": 0, "only1": 0, "only2": 0}
    bad = []
    if model_ok and rows:
        res = proj_certificates(rows)
        for i, r in zip(idx, res):
            if r is None:
                bad.append({"case": cases[i], "coqc_failed": True})
                continue
            for k in ok:
                ok[k] += 1 if r[k] else 0
            if not all(r.values()):
                bad.append({"case": cases[i], "result": r})
        if bad:
            ctx.tie_broken("certificate", "projection / only-subscribed certificate fails on %d of %d pairs of rewrites" % (len(bad), len(rows)), json.dumps(bad[0])[-3000:])
    sizes = {}
    for c in cases:
        key = "|E1|=%s,|E2|=%s" % ("1" if len(c["e1"]) == 1 else ("2-9" if len(c["e1"]) < 10 else "10+"), "all" if len(c["e2"]) >= 80 else "part")
        sizes[key] = sizes.get(key, 0) + 1
    # the fragment semantics (model/FragSem.v, theorem C03_frag_projection) against the real rewriter, CPython and the real runtime
    ksem = (0, 0, {})
    if model_ok:
        from props import rwfrag
        ksem = rwfrag.check_sem(ctx, rng, 30 if ctx.tier == "quick" else 300)
    res = {
        "evaluations": len(cases),
        "distinct_nontrivial": len({lib.digest(c) for c, im in zip(cases, impl)
                                    if "configs" in im and "streams" in im["configs"][0] and len(im["configs"][0]["streams"][0]) >= 3}),
        "rule": "(a) 6 hand-written feature programs x every AST event alone vs all events; (b) generated programs (see C01) x pairs E1 within E2 (E2 = all AST events incl. the deferred ones, or density 0.9/0.5; E1 = one event, a before/after "
                "pair, density 0.1/0.5 of E2) x global guards on/off; both rewrites exported and run; stream under E1 compared with the stream under E2 "
                "filtered to E1 (event, node type, node span, value), in order; non-trivial = >=3 occurrences under E1; distinct by sha1",
        "samples": [{"e1": cases[-1]["e1"][:6], "e2_size": len(cases[-1]["e2"]), "guards": cases[-1]["guards"], "src_tail": cases[-1]["src"][-300:]}],
        "traces_validated": ok["proj"],
        "distribution": {"k_sem_fragment_programs": ksem[0], "k_sem_agreeing": ksem[1], "pairs": sizes, "occurrences_compared_under_E1": occ, "certificates_checked": len(rows), "certificates_ok": ok,
                         "programs_raising": sum(1 for im in impl if "configs" in im and im["configs"][0].get("exc"))},
        "failures": failures, "extra": {"certificate_failures": len(bad)},
    }
    if model_ok:
        # loops and functions (model/FragProg.v, theorem C03_prog_projection) against the real rewriter, CPython and the real runtime
        from props import fragprog
        fragprog.run_into(ctx, rng, res, 16 if ctx.tier == "quick" else 300)
    return res


def replay(ctx, rep):
    case = (rep.get("failure") or {}).get("case")
    if case and case.get("frag") == "prog":
        from props import fragprog
        return fragprog.replay_case(case)
    return fails_on_impl(case) if case else None
