# C12 - imports are instrumented exactly when the tracer opts the file in
import json

import lib
from props import impcommon as ic

ID = "C12"
PROP_FILE = "props/C12.v"
COQ_TARGETS = ["props/C12.v"]
THEOREMS = ["C12_iff", "C12_plain_iff", "C12_other_loader", "C12_other_thread", "C12_accepting_stay_enabled", "C12_later_iff", "C12_after_context", "C12_later_now"]
TRUSTED_BASE = [
    "Coq 8.16.1 kernel, vm_compute for the in-coqc correspondence",
    "model/Import.v part 1: hand transcription of the decisions of TraceFinder.find_spec, TraceLoader.get_tracers_for_path / source_to_code / exec_module "
    "and _file_passes_filter_impl (validated by the correspondence); importlib itself (finder protocol, sys.modules, loaders) is not modelled",
    "tools/impl/c12_proc.py (one real process per run), tools/props/impcommon.py (package generator)",
]
ASSUMPTIONS = ["handlers are observing; a tracer's file_passes_filter_for_event either is the default or rejects exactly the two import events; imports happen on the thread that entered the context",
               "behaviour of an instrumented module equal to the plain one rests on C01; here module namespaces are compared"]

EVENT_SETS = [["load_name", "after_stmt"], ["after_assign_rhs", "before_call", "after_return"], ["after_function_execution", "before_for_loop_body", "after_comprehension_elt", "load_name"],
              ["before_stmt", "after_binop", "after_module_stmt"], ["after_lambda_body", "after_if_test", "after_call", "after_stmt"]]
IN_CTX = ["pk/__init__.py", "pk/a.py", "pk/b.py", "sub/__init__.py", "sub/c.py"]

SIG_FOREIGN = "a tracer is switched off while a module it does not accept is being imported: functions of modules it does accept deliver nothing when called during that import"


def gen_case(rng):
    n = rng.choice([1, 2, 2, 3])
    tracers = []
    for i in range(n):
        mode = rng.random()
        if mode < 0.15:
            acc = "ALL"
        else:
            acc = [f for f in ic.FILES if rng.random() < rng.choice([0.2, 0.5, 0.8])]
        tracers.append({"cls": "Tr%s" % "ABC"[i], "accept": acc, "events": rng.choice(EVENT_SETS), "guards": rng.random() < 0.6})
        if rng.random() < 0.2:
            # the class narrows its events per file (file_passes_filter_for_event): the two import events are rejected for every file;
            # whether a file is instrumented is decided by should_instrument_file alone
            tracers[-1]["no_import_events"] = True
    return {"seed": rng.randrange(10 ** 6), "tracers": tracers, "pre_e": rng.random() < 0.4, "reimport": rng.random() < 0.4,
            "reload": rng.choice([None, None, "pk.b", "px.e", "pk.sub.c"]), "evict": rng.choice([None, None, None, "pk.b", "px.e"]),
            # px.g: its spec (and loader) is obtained inside the context, the module is executed after every context / inside a second context of the first tracer
            "deferred": rng.choice([None, "after", "after", "first"]),
            # files opted in by an earlier context of every tracer (tracing_enabled_file), which has ended: no effect on what follows
            "optin_before": rng.sample(ic.FILES, rng.choice([1, 2])) if rng.random() < 0.3 else []}


def accepts(t, f):
    return t["accept"] == "ALL" or f in t["accept"]


def payloads(c):
    imports = ["pk"] + (["pk.a", "pk.sub.c"] if c["reimport"] else []) + ["px.e"]
    # importlib.reload of a loaded module / a fresh import after eviction from sys.modules, inside the context
    imports += (["reload:" + c["reload"]] if c.get("reload") else []) + (["evict:" + c["evict"]] if c.get("evict") else [])
    base = {"imports": imports, "optin_before": c.get("optin_before", []), "pre": ["px.e"] if c["pre_e"] else [], "post": ["px.d"], "calls": ["pk.a.fa", "px.e.fe"], "post_calls": ["pk.a.fa", "pk.b.fb"]}
    # fa / fb take an argument: call them through zero-argument wrappers defined below in the layout
    base["calls"] = ["pk.call_fa", "px.e.fe"]
    base["post_calls"] = ["pk.call_fa"]
    plain = dict(base)
    if c.get("deferred"):
        plain["post"] = base["post"] + ["px.g"]
        base["deferred"] = {"module": "px.g", "load": c["deferred"]}
    out = [plain]                                                       # plain
    out.append(dict(base, tracers=c["tracers"]))                        # stacked
    for t in c["tracers"]:
        out.append(dict(base, tracers=[t]))                             # each alone
    for t in c["tracers"]:
        out.append(dict(base, tracers=[dict(t, accept="ALL")]))         # each alone, accepting every file (reference for "delivers its events")
    return out


def layout(c):
    import random
    files = ic.gen_layout(random.Random(c["seed"]))
    files["pk/__init__.py"] += "def call_fa():\n    return a.fa(3)\n"
    return files


def run_cases(cases):
    hs = []
    index = []
    for ci, c in enumerate(cases):
        files = layout(c)
        for pi, p in enumerate(payloads(c)):
            hs.append((files, [p]))
            index.append((ci, pi))
    res = ic.run_histories(hs)
    out = [[] for _ in cases]
    for (ci, pi), r in zip(index, res):
        out[ci].append(r[0])
    return out


def per(events, ti, f=None):
    return [e[1:4] for e in events if e[0] == ti and (f is None or e[1] == f)]


def losses(observed, ideal_full):
    """observed, ideal_full: lists of [file, event, node, modules being imported]; returns the ideal events missing from
    `observed` when it is a subsequence of the ideal, else None"""
    out, j = [], 0
    for e in ideal_full:
        if j < len(observed) and observed[j] == e:
            j += 1
        else:
            out.append(e)
    return out if j == len(observed) else None


def oracle_case(c, rs):
    n = len(c["tracers"])
    plain, stacked, solos, alls = rs[0], rs[1], rs[2:2 + n], rs[2 + n:2 + 2 * n]
    for k, r in enumerate(rs):
        if "crash" in r:
            return {"what": "process %d crashed: %s" % (k, r["crash"][-300:]), "kind": "crash"}
        if r["errors"]:
            return {"what": "process %d: %s" % (k, r["errors"][0][:4]), "kind": "error", "process": k}
    want_g = plain["ns"].pop("px.g", None)
    for k, r in enumerate(rs[1:], 1):
        got_g = r["ns"].pop("deferred:px.g", None)
        if c.get("deferred"):
            # the deferred module: same contents as the plain import; events only for the first tracer of the process, only when it loads inside
            # that tracer's second context and the tracer accepts the file
            trs = c["tracers"] if k == 1 else [c["tracers"][(k - 2) % n]]
            who = sorted({e[0] for e in r.get("deferred_events", [])})
            exp = [0] if c["deferred"] == "first" and (k >= 2 + n or accepts(trs[0], "px/g.py")) else []
            if got_g != want_g:
                return {"what": "process %d: the module loaded later through a loader obtained inside the context differs from the plain import: %s" % (k, got_g), "kind": "deferred-ns", "process": k}
            if who != exp:
                return {"what": "process %d: a loader obtained inside the context and used %s delivered events to tracers %s, expected %s"
                                % (k, "after every context" if c["deferred"] == "after" else "inside a second context of the first tracer", who, exp), "kind": "deferred", "process": k}
        if r["ns"] != plain["ns"] or r.get("call_results") != plain.get("call_results") or r.get("post_call_results") != plain.get("post_call_results"):
            diff = [m for m in plain["ns"] if r["ns"].get(m) != plain["ns"][m]]
            return {"what": "process %d: module contents / results differ from the plain import (%s)" % (k, diff), "kind": "namespace", "process": k}
        if r["post_events"] or r["finder_left"] or r["cache_fn_patched"]:
            return {"what": "process %d: after the context the import system still instruments (events %d, finder left %s, cache functions patched %s)"
                    % (k, r["post_events"], r["finder_left"], r["cache_fn_patched"]), "kind": "after", "process": k}
    loaded = set(IN_CTX) | (set() if c["pre_e"] else {"px/e.py"})
    inv = {m: f for f, m in ic.MODULE_OF.items()}
    for k in ("reload", "evict"):                 # loaded again inside the context
        if c.get(k):
            loaded.add(inv[c[k]])
    for ti, t in enumerate(c["tracers"]):
        for f in ic.FILES:
            ev = per(stacked["events"], ti, f)
            if ev and not accepts(t, f):
                return {"what": "tracer %d received %d events from %s, which it does not accept" % (ti, len(ev), f), "kind": "extra", "tracer": ti, "file": f}
            if ev and f not in loaded:
                return {"what": "tracer %d received events from %s, which was not imported inside the context" % (ti, f), "kind": "extra", "tracer": ti, "file": f}
            if accepts(t, f) and f in loaded and not ev and f != "sub/__init__.py" and "px/__init__.py" != f:
                return {"what": "tracer %d accepts %s but received nothing from it" % (ti, f), "kind": "missing", "tracer": ti, "file": f}
        # what the tracer must receive: everything its accept-everything run sees in the files it accepts
        ideal = [e[1:5] for e in alls[ti]["events"] if e[0] == 0 and accepts(t, e[1]) and e[1] in loaded]
        for label, got in (("under the stack", [e[1:5] for e in stacked["events"] if e[0] == ti]), ("as the only tracer", [e[1:5] for e in solos[ti]["events"]])):
            if got == ideal:
                continue
            lost = losses(got, ideal)
            # the recorded finding: events raised while some module the tracer does NOT accept is being imported (anywhere in the chain)
            explained = lost is not None and all(any(not accepts(t, m) for m in e[3]) for e in lost)
            return {"what": "tracer %d %s: %d events from the files it accepts, %d when it accepts every file%s"
                    % (ti, label, len(got), len(ideal), "" if lost is None else " (%d lost, first: %s)" % (len(lost), lost[0])),
                    "kind": "foreign-exec" if explained else "events", "tracer": ti}
    # a module loaded several times inside the context (first import, importlib.reload, fresh import after eviction) delivers the events of
    # its own body every time: in the accept-everything run of each tracer the body's stream is the same block repeated
    for k in ("reload", "evict"):
        if not c.get(k):
            continue
        f = inv[c[k]]
        loads = (1 if (f in IN_CTX or (f == "px/e.py" and not c["pre_e"])) else 0) + (1 if c.get("reload") == c[k] else 0) + (1 if c.get("evict") == c[k] else 0)
        for ti in range(n):
            body = [e[1:4] for e in alls[ti]["events"] if e[1] == f and e[4] and e[4][0] == f]
            if loads >= 2 and body:
                blk = len(body) // loads
                if len(body) % loads or any(body[i * blk:(i + 1) * blk] != body[:blk] for i in range(loads)):
                    return {"what": "%s is loaded %d times inside the context (%s) but its body's events do not arrive %d times: %d events in all for tracer %d"
                                    % (f, loads, k, loads, len(body), ti), "kind": "reload", "tracer": ti, "file": f}
    return None


def signature(f):
    return SIG_FOREIGN if f.get("kind") == "foreign-exec" else "unlisted"


def fails_on_impl(c):
    return oracle_case(c, run_cases([c])[0])


HEADER = """From Coq Require Import List NArith Bool.
Import ListNotations.
From PyccoloV Require Import model.Import.
Local Open Scope N_scope.
"""


def k_imp(ctx, cases, results):
    """who was each module rewritten for: observed (tracers with events from the file) vs compile_of"""
    L = [HEADER]
    for c in cases:
        ts = []
        for ti, t in enumerate(c["tracers"]):
            acc = "(fun _ => true)" if t["accept"] == "ALL" else "(fun f => existsb (N.eqb f) [%s])" % "; ".join(str(ic.FILES.index(f)) for f in t["accept"])
            ts.append("{| t_id := %d; t_accepts := %s; t_import_events := fun _ => %s; t_enabled := true |}" % (ti, acc, "false" if t.get("no_import_events") else "true"))
        later = "[]" if c.get("deferred") != "first" else "(firstn 1 st)"
        L.append("Eval vm_compute in (let st := [%s] in (map (fun f => match compile_of st f true true with Stock => [] | Rewritten l => l end) [%s], "
                 "match compile_later st %s %d true true with Stock => [] | Rewritten l => l end))."
                 % ("; ".join(ts), "; ".join(str(ic.FILES.index(f)) for f in IN_CTX), later, ic.FILES.index("px/g.py")))
    rc_, o = lib.coq_eval("c12_kimp", "\n".join(L) + "\n", timeout=600)
    vals = lib.parse_marked(o) if rc_ == 0 else []
    if rc_ != 0 or len(vals) != len(cases):
        ctx.tie_broken("correspondence", "K-imp: coqc failed (%d values for %d cases)" % (len(vals), len(cases)), o[-2000:])
        return 0
    bad, okc = [], 0
    for c, rs, v in zip(cases, results, vals):
        m, m_later = lib.parse_coq_list(v)
        if any("crash" in r for r in rs):
            continue
        if c.get("deferred") and sorted(m_later) != sorted({e[0] for e in rs[1].get("deferred_events", [])}):
            bad.append({"case": c, "model_deferred": sorted(m_later), "observed_deferred": sorted({e[0] for e in rs[1].get("deferred_events", [])})})
            continue
        obs = []
        for f in IN_CTX:
            if f == "sub/__init__.py":
                obs.append(None)
                continue
            obs.append(sorted({e[0] for e in rs[1]["events"] if e[1] == f}))
        mod = [sorted(x) if f != "sub/__init__.py" else None for x, f in zip(m, IN_CTX)]
        if mod != obs:
            bad.append({"case": c, "model": mod, "observed": obs})
        else:
            okc += 1
    if bad:
        ctx.tie_broken("correspondence", "K-imp: model and implementation disagree on which tracers a module is instrumented for in %d of %d stacks" % (len(bad), len(cases)),
                       json.dumps(bad[0])[-3000:])
    return okc


CORPUS = [
    {"seed": 1, "tracers": [{"cls": "TrA", "accept": ["pk/a.py"], "events": EVENT_SETS[0], "guards": True}, {"cls": "TrB", "accept": ["pk/b.py", "sub/c.py"], "events": EVENT_SETS[0], "guards": True}],
     "pre_e": False, "reimport": True},
    {"seed": 2, "tracers": [{"cls": "TrA", "accept": ["pk/a.py", "pk/b.py", "px/e.py"], "events": EVENT_SETS[2], "guards": True}], "pre_e": True, "reimport": False},
    {"seed": 3, "tracers": [{"cls": "TrA", "accept": "ALL", "events": EVENT_SETS[1], "guards": False}, {"cls": "TrB", "accept": [], "events": EVENT_SETS[0], "guards": True}],
     "pre_e": False, "reimport": False},
]


def run(ctx, model_ok):
    rng = ctx.rng
    n = 24 if ctx.tier == "quick" else 240
    cases = [dict(r) for r in getattr(ctx, "known_replays", []) + getattr(ctx, "fixed_replays", []) if "tracers" in r and "seed" in r] + [dict(c) for c in CORPUS]
    while len(cases) < n:
        cases.append(gen_case(rng))
    results = run_cases(cases)
    failures, seen = [], set()
    nproc = sum(len(r) for r in results)
    for c, rs in zip(cases, results):
        f = oracle_case(c, rs)
        if f:
            sig = signature(f)
            if sig in seen or (sig == "unlisted" and sum(1 for x in failures if x["signature"] == "unlisted") >= 3):
                continue
            seen.add(sig)
            f.update({"case": c, "signature": sig})
            failures.append(f)
    okc = k_imp(ctx, cases, results) if model_ok else 0
    shapes = {}
    for c in cases:
        k = "%d tracers%s%s" % (len(c["tracers"]), ", one accepts all" if any(t["accept"] == "ALL" for t in c["tracers"]) else "", ", pre-imported module" if c["pre_e"] else "")
        shapes[k] = shapes.get(k, 0) + 1
    return {
        "evaluations": nproc,
        "distinct_nontrivial": len({lib.digest(c) for c, rs in zip(cases, results) if len(rs) > 1 and "events" in rs[1] and len(rs[1]["events"]) >= 5}),
        "rule": "generated package layouts (package with sub-package, relative / absolute / from-imports, functions of one module running while another is imported, loops, "
                "comprehensions, lambdas; re-imports; a module imported before the context; a module imported after it) x stacks of 1-3 tracers with independent filename "
                "filters (random subsets, accept-everything, accept-nothing); every stack is run as real processes: plain, stacked, each tracer alone, each tracer alone "
                "accepting every file; non-trivial = >= 5 events in the stacked process; distinct by sha1",
        "samples": [{"tracers": [{"accept": t["accept"], "events": t["events"]} for t in cases[-1]["tracers"]], "pre_e": cases[-1]["pre_e"], "reimport": cases[-1]["reimport"]}],
        "traces_validated": okc,
        "distribution": {"stacks": shapes, "processes": nproc, "k_imp_agree": okc, "events_in_stacked_runs": sum(len(rs[1].get("events", [])) for rs in results if len(rs) > 1)},
        "failures": failures, "extra": {},
    }


def replay(ctx, rep):
    case = (rep.get("failure") or {}).get("case")
    return fails_on_impl(case) if case else None
