# C20 - TraceStack: K-stack correspondence (model/Stack.v vs trace_stack.py) + list-of-dicts reference oracle
import copy
import json

import lib

ID = "C20"
PROP_FILE = "props/C20.v"
COQ_TARGETS = ["props/C20.v"]
THEOREMS = ["C20_frames_preserved", "C20_push_resets", "C20_push_pop_restores", "C20_read_depth_1",
            "C20_read_deeper", "C20_clear_restores", "C20_registers_every_field"]
TRUSTED_BASE = [
    "Coq 8.16.1 kernel, vm_compute for the in-coqc correspondence",
    "model/Stack.v is a hand transcription of trace_stack.py over pure values (no aliasing); tied by K-stack",
    "tools/props/C20.py generator/canonicaliser, tools/impl/c20_stack.py harness",
    "set/dict iteration order of field names is an input: theorems hold for every NoDup order",
]
ASSUMPTIONS = [
    "operations reach containers and stacks only through the tracer's attributes (no externally held references)",
    "declared containers are empty (a non-empty declared container is reset to an empty one: outside the reading)",
]

NFIELDS = 9


# ---------------------------------------------------------------- generator
def gen_val(rng, allow_cont=True):
    k = rng.choice(["none", "int", "bool", "str", "float", "cont", "cont", "nest"] if allow_cont else ["none", "int", "bool", "str"])
    if k == "nest":
        # a list / dict whose elements are lists (mutable values inside a mutable value): a push must reset the field to a DEEP copy
        return ["nest", rng.choice([0, 1]), [sorted(rng.sample(range(1, 9), rng.choice([0, 1, 2]))) for _ in range(rng.choice([1, 2, 3]))]]
    if k == "none":
        return ["none"]
    if k == "int":
        return ["int", rng.randrange(-3, 50)]
    if k == "bool":
        return ["bool", rng.random() < 0.5]
    if k == "str":
        return ["str", rng.randrange(0, 9)]
    if k == "float":
        return ["float", rng.randrange(0, 9)]
    # declared with contents in a third of the cases: a push resets the field to a fresh copy of THAT value
    return ["cont", rng.choice([0, 0, 1, 2, 3]), sorted(rng.sample(range(1, 9), rng.choice([1, 2]))) if rng.random() < 0.35 else []]


def gen_decl(rng):
    counter = [0]

    def fresh():
        counter[0] += 1
        return "f%d" % counter[0]

    def block(depth):
        items = []
        n = rng.randrange(0, 4) if depth else rng.randrange(1, 5)
        man = 0
        for _ in range(n):
            r = rng.random()
            if r < 0.18 and depth < 2 and counter[0] < NFIELDS - 2:
                name = fresh()
                items.append(["stack", name, block(depth + 1)])
            elif r < 0.38:
                man += 1
                for _ in range(rng.randrange(1, 3)):
                    items.append(["field", fresh(), gen_val(rng), man])
            else:
                items.append(["field", fresh(), gen_val(rng), None])
        return items

    tops = []
    for _ in range(rng.choice([1, 1, 1, 2])):
        name = fresh()
        tops.append(["stack", name, block(0)])
    return tops


def stacks_of(items):
    for it in items:
        if it[0] == "stack":
            yield it[1]
            yield from stacks_of(it[2])


def fields_of(items, with_vals=False):
    for it in items:
        if it[0] == "field":
            yield (it[1], it[2]) if with_vals else it[1]
        else:
            yield from fields_of(it[2], with_vals)


def manual_of(decl, s):
    def find(items):
        for it in items:
            if it[0] == "stack":
                if it[1] == s:
                    return it[2]
                r = find(it[2])
                if r is not None:
                    return r
        return None

    items = find(decl)
    # every needing_manual_initialization block adds its fields
    return [it[1] for it in items if it[0] == "field" and it[3] is not None]


def gen_ops(rng, decl, n):
    stacks = list(stacks_of(decl))
    fields = dict(fields_of(decl, True))
    ops = []
    z = [100]
    depth = {s: 0 for s in stacks}
    profile = rng.choice(["nested", "nested", "free"])
    open_ = []
    while len(ops) < n:
        r = rng.random()
        s = rng.choice(stacks)
        if r < 0.25:
            ops.append(["push", s])
            open_.append(s)
            depth[s] += 1
            # usually initialise manual fields right away and run the exit check
            if rng.random() < 0.85:
                for m in manual_of(decl, s):
                    ops.append(["set", m, gen_val(rng, False)])
            if rng.random() < 0.8:
                ops.append(["check", s])
                ops_has_check = True
        elif r < 0.45:
            live = [x for x in stacks if depth[x] > 0]
            if live and rng.random() < 0.85:
                s = rng.choice(live)
            depth[s] = max(0, depth[s] - 1)
            if profile == "nested" and open_:
                s = open_.pop()
            elif s in open_:
                open_.reverse(); open_.remove(s); open_.reverse()
            ops.append(["pop", s])
        elif r < 0.65 and fields:
            g = rng.choice(sorted(fields))
            if fields[g][0] == "nest" and rng.random() < 0.85:
                z[0] += 1
                ops.append(["appendin", g, rng.randrange(0, len(fields[g][2]) + (1 if rng.random() < 0.1 else 0)), z[0]])
            elif fields[g][0] == "cont" and rng.random() < 0.8:
                z[0] += 1
                ops.append(["append", g, z[0]])
            else:
                ops.append(["set", g, gen_val(rng, rng.random() < 0.3)])
        elif r < 0.85 and fields:
            g = rng.choice(sorted(fields))
            h = -rng.randint(1, max(1, depth[s])) if rng.random() < 0.7 else rng.choice([-1, -2, -3, 0, 1, -4])
            ops.append(["read", s, g, h])
        elif r < 0.93:
            ops.append(["len", s])
        elif r < 0.97:
            ops.append(["clear", s])
            open_ = [x for x in open_ if x != s]
        else:
            ops.append(["pop", s])
    # "check" without a preceding un-checked push for that stack cannot be executed on the implementation
    fixed, pend = [], {}
    for o in ops:
        if o[0] == "push":
            pend[o[1]] = pend.get(o[1], 0) + 1
        if o[0] == "check":
            if pend.get(o[1], 0) == 0:
                continue
            pend[o[1]] -= 1
        fixed.append(o)
    return fixed[: n + 6]


# ---------------------------------------------------------------- Coq text
def fN(name):
    return name[1:] + "%N"


def coq_val(v):
    t = v[0]
    if t == "none":
        return "VNone"
    if t == "int":
        return "(VInt (%d)%%Z)" % v[1]
    if t == "bool":
        return "(VBool %s)" % ("true" if v[1] else "false")
    if t == "str":
        return "(VStr %d%%N)" % v[1]
    if t == "float":
        return "(VFloat %d%%N)" % v[1]
    if t == "cont":
        return "(VCont %d%%N [%s])" % (v[1], "; ".join("(%d)%%Z" % z for z in v[2]))
    if t == "nest":
        return "(VNest %d%%N [%s])" % (v[1], "; ".join("[%s]" % "; ".join("(%d)%%Z" % z for z in l) for l in v[2]))
    raise ValueError(v)


def coq_item(it):
    if it[0] == "field":
        man = "None" if it[3] is None else "(Some %d%%N)" % it[3]
        return "DField %s %s %s" % (fN(it[1]), coq_val(it[2]), man)
    return "DStack %s [%s]" % (fN(it[1]), "; ".join(coq_item(x) for x in it[2]))


def coq_op(o):
    k = o[0]
    if k == "push":
        return "OPush %s" % fN(o[1])
    if k == "check":
        return "OPushCheck %s" % fN(o[1])
    if k == "set":
        return "OSet %s %s" % (fN(o[1]), coq_val(o[2]))
    if k == "append":
        return "OAppend %s (%d)%%Z" % (fN(o[1]), o[2])
    if k == "appendin":
        return "OAppendIn %s %d%%nat (%d)%%Z" % (fN(o[1]), o[2], o[3])
    if k == "read":
        return "ORead %s %s (%d)%%Z" % (fN(o[1]), fN(o[2]), o[3])
    if k == "len":
        return "OLen %s" % fN(o[1])
    if k == "pop":
        return "OPop %s" % fN(o[1])
    if k == "clear":
        return "OClear %s" % fN(o[1])
    raise ValueError(o)


def coq_cases_file(cases):
    L = ["From Coq Require Import List ZArith NArith.", "Import ListNotations.", "From PyccoloV Require Import model.Stack proofs.StackProofs.",
         "Definition one (tops : list item) (ops : list op) :=",
         "  (wf_b (init_decls tops), init_mgr tops, init_decls tops, run_trace (init_decls tops) (init_mgr tops) ops)."]
    for c in cases:
        L.append("Eval vm_compute in one [%s] [%s]." % ("; ".join(coq_item(t) for t in c["decl"]), "; ".join(coq_op(o) for o in c["ops"])))
    return "\n".join(L) + "\n"


# ---------------------------------------------------------------- canonicalisation of the model's printed output
def parse_model_output(out):
    return [parse_one(v) for v in lib.parse_marked(out)]


def parse_one(v):
    if True:
        # records print as {| auto := [...]; manual := [...] |}: turn into a tuple the list parser understands
        import re

        def rec(m):
            return "(Build_decl " + m.group(1) + " " + m.group(2) + ")"

        # decls: list of (field, {| auto := A; manual := M |})
        v2 = v
        while True:
            m = re.search(r"\{\|\s*auto := (.*?);\s*manual := (\[[^\]]*\])\s*\|\}", v2, flags=re.S)
            if not m:
                break
            v2 = v2[: m.start()] + "(Build_decl " + m.group(1) + " " + m.group(2) + ")" + v2[m.end():]
        parsed = lib.parse_coq_list(v2)
        wfb, mgr0, decls, trace = parsed
        names = {}
        reg = {}
        for s, d in decls:
            auto = ["f%d" % a[0] for a in d[1]]
            man = ["f%d" % x for x in d[2]]
            names["f%d" % s] = auto + man
            reg["f%d" % s] = {"auto": sorted(auto), "manual": sorted(man)}

        def conv_val(name, v):
            if v == "VNone":
                return ["none"]
            tag = v[0]
            if tag == "VInt":
                return ["int", v[1]]
            if tag == "VBool":
                return ["bool", v[1]]
            if tag == "VStr":
                return ["str", v[1]]
            if tag == "VFloat":
                return ["float", v[1]]
            if tag == "VCont":
                return ["cont", v[1], list(v[2])]
            if tag == "VNest":
                return ["nest", v[1], [list(l) for l in v[2]]]
            if tag == "VStack":
                ns = names[name]
                return ["stack", [{n: conv_val(n, x) for n, x in zip(ns, fr)} for fr in v[1]]]
            raise ValueError(v)

        def conv_mgr(m):
            return {"f%d" % f: conv_val("f%d" % f, x) for f, x in m}

        def conv_out(o, name=None):
            if o == "Done":
                return ["done"]
            if isinstance(o, tuple) and o[0] == "OutVal":
                return ["val", conv_val(name, o[1])]
            if isinstance(o, tuple) and o[0] == "OutLen":
                return ["len", o[1]]
            return [o]

        return {"wf": wfb, "init": conv_mgr(mgr0), "reg": reg, "trace": trace, "conv_mgr": conv_mgr, "conv_out": conv_out}


# ---------------------------------------------------------------- the property's reference: a list of dicts per stack
class Ref:
    """Pure list-of-dicts reference written from the property statement.  A stack value is ["stack", [dict, ...]]."""

    def __init__(self, decl):
        self.decl = decl
        self.m = {}
        self.reg = {}
        self.init = {}
        for top in decl:
            self._declare(top)

    def _declare(self, it):
        if it[0] == "field":
            self.m[it[1]] = copy.deepcopy(it[2])
            self.init[it[1]] = it[2]
            return [it[1]]
        self.m[it[1]] = ["stack", []]
        self.init[it[1]] = ["stack", []]
        keys = []
        for x in it[2]:
            keys += self._declare(x)
        man = manual_of(self.decl, it[1])
        self.reg[it[1]] = {"auto": [k for k in keys if k not in man], "manual": man}
        return [it[1]] + keys

    def initial(self, f):
        v = self.init[f]
        if v[0] == "cont":
            return ["cont", v[1], list(v[2])]  # a fresh copy of the container it was declared with
        if v[0] == "nest":
            return ["nest", v[1], [list(l) for l in v[2]]]      # ... a deep one
        if v[0] == "stack":
            return ["stack", []]               # a fresh empty stack
        return copy.deepcopy(v)

    def step(self, o):
        k, m = o[0], self.m
        if k == "push":
            r = self.reg[o[1]]
            names = r["auto"] + r["manual"]
            if any(n not in m for n in names):
                return ["ErrKey"]
            saved = {n: copy.deepcopy(m[n]) for n in names}
            m[o[1]][1].append(saved)
            for n in r["auto"]:
                m[n] = self.initial(n)
            for n in r["manual"]:
                del m[n]
            return ["done"]
        if k == "check":
            return ["done"] if all(n in m for n in self.reg[o[1]]["manual"]) else ["ErrValue"]
        if k == "set":
            m[o[1]] = copy.deepcopy(o[2])
            return ["done"]
        if k == "append":
            c = m.get(o[1])
            if c is None or c[0] != "cont" or c[1] == 3:
                return ["ErrAttr"]
            c[2].append(o[2])
            return ["done"]
        if k == "appendin":
            c = m.get(o[1])
            if c is None or c[0] != "nest":
                return ["ErrAttr"]
            if o[2] >= len(c[2]):
                return ["ErrIndex"]
            c[2][o[2]].append(o[3])
            return ["done"]
        if k == "read":
            r = self.reg[o[1]]
            if o[2] not in r["auto"] + r["manual"]:
                return ["ErrKey"]
            fr = m[o[1]][1]
            try:
                return ["val", copy.deepcopy(fr[o[3]][o[2]])]
            except IndexError:
                return ["ErrIndex"]
        if k == "len":
            return ["len", len(m[o[1]][1])]
        if k == "pop":
            fr = m[o[1]][1]
            if not fr:
                return ["ErrIndex"]
            saved = fr.pop()
            m.update(copy.deepcopy(saved))
            return ["done"]
        if k == "clear":
            fr = m[o[1]][1]
            if fr:
                first = fr[0]
                m[o[1]] = ["stack", []]
                m.update(copy.deepcopy(first))
            return ["done"]
        raise ValueError(o)


def oracle_case(case, impl):
    """Property-level comparison of the implementation with the reference; returns a failure dict or None."""
    if "crash" in impl:
        return {"what": "implementation crashed: " + impl["crash"]}
    ref = Ref(case["decl"])
    if ref.m != impl["init"]:
        return {"what": "initial attributes differ", "expected": ref.m, "observed": impl["init"]}
    for i, (o, (r, snap)) in enumerate(zip(case["ops"], impl["steps"])):
        e = ref.step(o)
        if e[0].startswith("Err") and r[0].startswith("Err"):
            e = r                              # which exception class an invalid operation raises is not part of the property
        if e != r:
            return {"what": "outcome of op %d %s" % (i, o), "expected": e, "observed": r, "step": i}
        if ref.m != snap:
            bad = sorted(k for k in set(ref.m) | set(snap) if ref.m.get(k) != snap.get(k))
            return {"what": "attributes after op %d %s differ on %s" % (i, o, bad), "step": i,
                    "expected": {k: ref.m.get(k) for k in bad}, "observed": {k: snap.get(k) for k in bad}}
    return None


def signature(case, fail):
    return "unlisted"


def nontrivial(case):
    ks = {o[0] for o in case["ops"]}
    return "push" in ks and "pop" in ks and len(case["ops"]) >= 5


def normalize(decl, ops):
    """drop `check` ops that have no successful, not yet checked push of the same stack before them (they cannot be
    executed on the implementation: the exit half of `with stack.push():` only exists after a successful entry)"""
    ref = Ref(decl)
    pend, out = {}, []
    for o in ops:
        if o[0] == "check":
            if pend.get(o[1], 0) == 0:
                continue
            pend[o[1]] -= 1
        r = ref.step(o)
        if o[0] == "push" and r == ["done"]:
            pend[o[1]] = pend.get(o[1], 0) + 1
        out.append(o)
    return out


def shrink(case, still_fails):
    ops = list(case["ops"])
    changed = True
    while changed:
        changed = False
        for i in range(len(ops) - 1, -1, -1):
            cand = ops[:i] + ops[i + 1:]
            if normalize(case["decl"], cand) != cand:
                continue
            if still_fails({"decl": case["decl"], "ops": cand}):
                ops = cand
                changed = True
    return {"decl": case["decl"], "ops": ops}


def run_impl(cases):
    rc, res, out = lib.impl_run("c20_stack.py", cases, timeout=600)
    if res is None:
        raise RuntimeError("implementation harness failed:\n" + out[-3000:])
    return res


def fails_on_impl(case):
    res = run_impl([case])[0]
    return oracle_case(case, res)


def exhaustive_cases():
    """all op sequences of length <= 5 over a fixed 3-field declaration with a nested stack (thorough tier)"""
    decl = [["stack", "f1", [["field", "f2", ["int", 0], None], ["field", "f3", ["cont", 0, []], None],
                             ["stack", "f4", [["field", "f5", ["int", 7], None]]]]]]
    alphabet = [["push", "f1"], ["pop", "f1"], ["push", "f4"], ["pop", "f4"], ["set", "f2", ["int", 5]],
                ["append", "f3", 1], ["set", "f5", ["int", 9]], ["clear", "f1"], ["read", "f1", "f2", -1]]
    import itertools

    out = []
    for n in range(1, 6):
        for seq in itertools.product(alphabet, repeat=n):
            if seq[0][0] not in ("push",):
                continue
            out.append({"decl": decl, "ops": normalize(decl, [list(o) for o in seq])})
    return out


def run(ctx, model_ok):
    rng = ctx.rng
    n = 500 if ctx.tier == "quick" else 6000
    cases = []
    corpus = lib.os.path.join(lib.VERIF, "corpus", "C20.json")
    if lib.os.path.exists(corpus):
        cases += json.load(open(corpus))
    while len(cases) < n:
        d = gen_decl(rng)
        cases.append({"decl": d, "ops": normalize(d, gen_ops(rng, d, rng.randrange(4, 26)))})
    if ctx.tier == "thorough":
        ex = exhaustive_cases()
        cases += ex[:: max(1, len(ex) // 12000)]
    impl = []
    for i in range(0, len(cases), 400):
        impl += run_impl(cases[i:i + 400])
    failures, mism = [], []
    # (a) the property itself on the implementation (oracle)
    for c, r in zip(cases, impl):
        f = oracle_case(c, r)
        if f:
            small = shrink(c, lambda cc: fails_on_impl(cc) is not None)
            f = fails_on_impl(small) or f
            f.update({"case": small, "signature": signature(small, f), "kind": "oracle"})
            failures.append(f)
            if len(failures) >= 3:
                break
    # (b) model vs implementation (tie K-stack)
    validated = 0
    if model_ok:
        shards = [(i, cases[i:i + 250]) for i in range(0, len(cases), 250)]
        outs = lib.coq_eval_many([("c20_cases_%d" % i, coq_cases_file(cs)) for i, cs in shards], timeout=600)
        for i, cs in shards:
            rc, out = outs["c20_cases_%d" % i]
            if rc != 0:
                ctx.tie_broken("correspondence", "coqc failed on generated cases", out)
                continue
            ms = parse_model_output(out)
            if len(ms) != len(cs):
                ctx.tie_broken("correspondence", "model produced %d results for %d cases" % (len(ms), len(cs)), out[-2000:])
                continue
            for j, (c, mo) in enumerate(zip(cs, ms)):
                im = impl[i + j]
                d = None
                if mo["wf"] is not True:
                    d = "generated declaration is not well formed in the model (theorem hypotheses not met)"
                elif "crash" in im:
                    d = "implementation crashed: %s" % im["crash"]
                elif mo["init"] != im["init"]:
                    d = "initial attributes"
                elif mo["reg"] != im["reg"]:
                    d = "registration: model %s impl %s" % (mo["reg"], im["reg"])
                else:
                    for k, ((mout, mm), (iout, isnap)) in enumerate(zip(mo["trace"], im["steps"])):
                        o = c["ops"][k]
                        cm = mo["conv_mgr"](mm)
                        co = mo["conv_out"](mout, o[2] if o[0] == "read" else None)
                        if co != iout or cm != isnap:
                            d = "op %d %s: model (%s) impl (%s)" % (k, o, (co, {x: cm.get(x) for x in cm if cm.get(x) != isnap.get(x)}),
                                                                   (iout, {x: isnap.get(x) for x in isnap if cm.get(x) != isnap.get(x)}))
                            break
                if d:
                    mism.append({"case": c, "detail": d})
                else:
                    validated += 1
        if mism:
            ctx.tie_broken("correspondence", "model/Stack.v and trace_stack.py disagree on %d of %d cases" % (len(mism), len(cases)), json.dumps(mism[0])[:3000])
    distinct = len({lib.digest(c) for c in cases if nontrivial(c)})
    hist = {}
    outcomes = {}
    for c, r in zip(cases, impl):
        for o in c["ops"]:
            hist[o[0]] = hist.get(o[0], 0) + 1
        for st in r.get("steps", []):
            outcomes[st[0][0]] = outcomes.get(st[0][0], 0) + 1
    return {
        "evaluations": len(cases), "distinct_nontrivial": distinct,
        "rule": "random declarations (<=2 top stacks, nesting depth <=2, manual blocks, 5 value kinds, 4 container kinds) x op sequences "
                "of 4-31 ops (nested or free pop order); non-trivial = has a push and a pop and >=5 ops; distinct by sha1 of the case; "
                "thorough adds a sample of all sequences <=5 ops over a 9-letter alphabet on a fixed nested declaration",
        "samples": [cases[0], cases[len(cases) // 2]],
        "traces_validated": validated,
        "distribution": {"ops": hist, "outcomes": outcomes},
        "failures": failures,
        "extra": {"model_impl_disagreements": len(mism)},
    }


def replay(ctx, rep):
    f = rep.get("failure") or {}
    case = f.get("case")
    if not case:
        return None
    return fails_on_impl(case)
