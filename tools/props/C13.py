# C13 - cached bytecode never crosses between plain and instrumented imports
import json
import random

import lib
from props import impcommon as ic

ID = "C13"
PROP_FILE = "props/C13.v"
COQ_TARGETS = ["props/C13.v"]
THEOREMS = ["C13_fresh_partial", "C13_fresh_from", "C13_plain_name", "C13_fresh_refuted"]
TRUSTED_BASE = [
    "Coq 8.16.1 kernel, vm_compute for the in-coqc correspondence",
    "model/Import.v part 2: hand model of cache naming (make_cache_signature / pyccolo_cache_from_source), importlib's SourceLoader.get_code (validate by source stamp, "
    "else recompile and write when possible) and TraceLoader.exec_module's node-table handling; validated by the correspondence, importlib and the file system are not verified",
    "tools/impl/c12_proc.py (one real process per step), tools/props/impcommon.py (package generator, shared cache directory, read-only mode by dropping privileges)",
]
ASSUMPTIONS = ["one process at a time (no concurrent writers); a process either can write both bytecode and node table or neither; source versions are distinguished by mtime",
               "handlers are observing; no local guards in imported modules"]

EA = ["load_name", "after_stmt", "after_function_execution"]
EB = ["after_assign_rhs", "before_call", "after_comprehension_elt", "before_for_loop_body"]
CONFIGS = {
    "P": [],
    "A": [{"cls": "TrA", "accept": ["pk/a.py", "sub/c.py"], "events": EA, "guards": True}],
    "A2": [{"cls": "TrA", "accept": ["pk/a.py", "sub/c.py"], "events": EB, "guards": True}],                       # same class name, other events
    "Ag": [{"cls": "TrA", "accept": ["pk/a.py", "sub/c.py"], "events": EA, "guards": False}],                      # same class name, other guard setting
    "As": [{"cls": "TrA", "accept": ["pk/a.py", "sub/c.py"], "events": EA, "guards": True, "static_parity": 0}],   # same name, events, guards; a static node condition
    "B": [{"cls": "TrB", "accept": ["pk/b.py", "pk/a.py"], "events": EB, "guards": True, "module": "traitlets.fake"}],        # defined in a package that has a version
    "NB": [{"cls": "TrN", "accept": ["pk/a.py", "pk/b.py"], "events": EA, "guards": True, "bookkeeping": False}],
    "NC": [{"cls": "TrC", "accept": ["pk/a.py"], "events": EA, "guards": True, "caching": False}],
    "ALL": [{"cls": "TrAll", "accept": "ALL", "events": EA, "guards": True}],
    # a caching tracer instruments pk/a.py, a tracer that forbids caching instruments another file only: nothing of the stack's work may be cached
    "ANC": [{"cls": "TrA", "accept": ["pk/a.py", "sub/c.py"], "events": EA, "guards": True}, {"cls": "TrC", "accept": ["pk/b.py"], "events": EA, "guards": True, "caching": False}],
    "AB": [{"cls": "TrA", "accept": ["pk/a.py", "sub/c.py"], "events": EA, "guards": True}, {"cls": "TrB", "accept": ["pk/b.py", "pk/a.py"], "events": EB, "guards": True, "module": "traitlets.fake"}],
}
MODS = ["pk/__init__.py", "pk/a.py", "pk/b.py", "sub/c.py"]
SIG_STATIC = "two configurations with the same class name, subscribed events and guard setting but different static node conditions share cached bytecode"


def gen_history(rng):
    n = rng.choice([2, 3, 3, 4])
    pool = ["P", "P", "A", "A", "A2", "Ag", "B", "B", "NB", "NC", "ALL", "AB", "ANC"] + (["As"] if rng.random() < 0.15 else [])
    steps = []
    for i in range(n):
        # raises: pk.b cannot be imported in this process (a missing dependency): pk/__init__.py and pk/a.py are compiled, cached and raise at import
        steps.append({"cfg": rng.choice(pool), "fs": rng.choice(["rw", "rw", "rw", "ro", "dw"]), "edit": i > 0 and rng.random() < 0.3, "raises": rng.random() < 0.2})
    return {"seed": rng.randrange(10 ** 6), "steps": steps}


def edited(files, k):
    out = dict(files)
    out["pk/a.py"] = files["pk/a.py"].replace("\nX = ", "\nEDIT%d = %d\nX = 1 + " % (k, k), 1)
    out["pk/b.py"] = files["pk/b.py"].replace("K = ", "K = %d + " % k, 1)
    return out


def payload(st):
    p = {"imports": ["pk"], "calls": [], "tracers": CONFIGS[st["cfg"]]}
    if st["fs"] == "dw":
        p["dont_write"] = True
    if st["fs"] == "ro":
        p["fs"] = "ro"
    if st.get("raises"):
        p["block"] = ["pk.b"]
    return p


def build(h):
    """-> (files0, shared steps, [(files at that version, single fresh step)])"""
    files0 = ic.gen_layout(random.Random(h["seed"]))
    cur, nedit = files0, 0
    shared, fresh = [], []
    for st in h["steps"]:
        p = payload(st)
        if st["edit"]:
            nedit += 1
            new = edited(files0, nedit)
            p["edit"] = {k: new[k] for k in ("pk/a.py", "pk/b.py")}
            cur = new
        shared.append(p)
        fresh.append((cur, [{k: v for k, v in p.items() if k != "edit"}]))
    return files0, shared, fresh


def run_all(hists):
    jobs = []
    for h in hists:
        files0, shared, fresh = build(h)
        jobs.append((files0, shared))
        jobs += fresh
    res = ic.run_histories(jobs)
    out, i = [], 0
    for h in hists:
        n = len(h["steps"])
        out.append({"shared": res[i], "fresh": [r[0] for r in res[i + 1:i + 1 + n]]})
        i += 1 + n
    return out


def view(r):
    if "crash" in r:
        return {"crash": r["crash"][-300:]}
    return {"errors": [[e[0], e[1], e[2]] for e in r["errors"]], "ns": r["ns"], "events": [e[:4] for e in r["events"]]}


def oracle(h, r):
    for k, st in enumerate(h["steps"]):
        a, b = view(r["shared"][k]), view(r["fresh"][k])
        if "crash" in a or "crash" in b:
            return {"what": "process %d crashed: %s" % (k, a.get("crash") or b.get("crash")), "kind": "crash", "step": k}
        if st.get("raises"):
            if not b["errors"] or [e[:3] for e in b["errors"]] != [e[:3] for e in a["errors"]]:
                return {"what": "process %d (%s, %s, a dependency missing): errors %s, on an empty cache %s" % (k, st["cfg"], st["fs"], a["errors"], b["errors"]), "kind": "error", "step": k}
        elif b["errors"]:
            return {"what": "process %d (%s, %s) fails even on an empty cache: %s" % (k, st["cfg"], st["fs"], r["fresh"][k]["errors"][0][:4]), "kind": "fresh-error", "step": k}
        elif a["errors"]:
            return {"what": "process %d (%s, %s) fails after the earlier processes: %s" % (k, st["cfg"], st["fs"], r["shared"][k]["errors"][0][:4]), "kind": "error", "step": k}
        if a["ns"] != b["ns"]:
            return {"what": "process %d (%s): module contents differ from the same import on an empty cache" % (k, st["cfg"]), "kind": "namespace", "step": k}
        if a["events"] != b["events"]:
            inv = sum(1 for e in a["events"] if e[3] == "INVALID")
            return {"what": "process %d (%s): %d events (%d with an invalid node) vs %d on an empty cache" % (k, st["cfg"], len(a["events"]), inv, len(b["events"])),
                    "kind": "events", "step": k}
    return None


def signature(h, f):
    cfgs = [s["cfg"] for s in h["steps"]]
    if f.get("kind") in ("events", "namespace", "error") and "As" in cfgs and ("A" in cfgs or "AB" in cfgs):
        return SIG_STATIC
    return "unlisted"


def fails_on_impl(h):
    r = run_all([h])[0]
    return oracle(h, r)


HEADER = """From Coq Require Import List NArith Bool.
Import ListNotations.
From PyccoloV Require Import model.Import.
Local Open Scope N_scope.
"""
_num = {}


def num(tab, key):
    d = _num.setdefault(tab, {})
    return d.setdefault(json.dumps(key, sort_keys=True), len(d) + 1)


def tinfo(t):
    return "(%d, %d, (%d, %s))" % (num("cls", t["cls"]), num("cfg", [sorted(t["events"]), t.get("guards", True)]),
                                   0 if t.get("static_parity") is None else t["static_parity"] + 1, "true" if t.get("bookkeeping", True) else "false")


def accepts(t, f):
    return t["accept"] == "ALL" or f in t["accept"]


def k_cache(ctx, hists, results):
    """per module: does each process behave as on an empty cache (model) vs observed; and the cache directory's content after each process"""
    L = [HEADER]
    keys = []
    for hi, h in enumerate(hists):
        for f in MODS:
            procs, names, taking_part, pending_edit = [], [], [], False
            for k, st in enumerate(h["steps"]):
                pending_edit = pending_edit or (st["edit"] and f in ("pk/a.py", "pk/b.py"))
                if st.get("raises") and f in ("pk/b.py", "sub/c.py"):
                    continue               # not loaded at all in this process (the edit, if any, is seen by the next process that loads it)
                taking_part.append(k)
                ts = [t for t in CONFIGS[st["cfg"]] if accepts(t, f)]
                who = "[" + "; ".join(tinfo(t) for t in ts) + "]"
                caching = all(t.get("caching", True) for t in CONFIGS[st["cfg"]])
                procs.append("{| p_who := %s; p_caching := %s; p_write := %s; p_edit := %s; p_raises := %s |}"
                             % (who, "true" if caching else "false", "true" if st["fs"] == "rw" else "false", "true" if pending_edit else "false",
                                "true" if st.get("raises") else "false"))
                pending_edit = False
                nm = "[" + "; ".join("(%d, %d)" % (num("cls", t["cls"]), num("cfg", [sorted(t["events"]), t.get("guards", True)])) for t in ts) + "]"
                if ts and nm not in names:
                    names.append(nm)
            L.append("Eval vm_compute in (run_trace fs0 [%s] [%s])." % ("; ".join(procs), "; ".join(names)))
            keys.append((hi, f, taking_part))
    rc_, o = lib.coq_eval("c13_kcache", "\n".join(L) + "\n", timeout=900)
    vals = lib.parse_marked(o) if rc_ == 0 else []
    if rc_ != 0 or len(vals) != len(keys):
        ctx.tie_broken("correspondence", "K-cache: coqc failed (%d values for %d module histories)" % (len(vals), len(keys)), o[-2000:])
        return 0
    bad, okc = [], 0
    for (hi, f, taking_part), v in zip(keys, vals):
        h, r = hists[hi], results[hi]
        if any("crash" in x for x in r["shared"] + r["fresh"]) or any(x["errors"] for x, st in zip(r["fresh"], h["steps"]) if not st.get("raises")):
            continue
        m = lib.parse_coq_list(v)
        base = ic.BASENAME[f][:-3]
        d = "pk/sub/__pycache__/" if f.startswith("sub/") else "pk/__pycache__/"
        obs = []
        for k, st in enumerate(h["steps"]):
            if k not in taking_part:
                continue
            a, b = r["shared"][k], r["fresh"][k]
            same = [e[:4] for e in a["events"] if e[1] == f] == [e[:4] for e in b["events"] if e[1] == f] and (not a["errors"] or bool(st.get("raises")))
            cache = a["cache"]
            plain = any(c == d + base + ".cpython-312.pyc" for c in cache)
            npyc = sum(1 for c in cache if c.startswith(d + base + ".pyccolo") and c.endswith(".pyc"))
            npkl = sum(1 for c in cache if c.startswith(d + base + ".pyccolo") and c.endswith(".pkl"))
            # the flag is observed through the events of the module: a process whose import raises before the module delivers anything
            # (pk/a.py raises on its first line) shows the same - empty - stream whatever code was loaded; the flag is then not observable
            vacuous = bool(st.get("raises")) and not [e for e in a["events"] + b["events"] if e[1] == f]
            obs.append([None if vacuous and same else same, [plain, npyc, npkl]])
        mod = [[x[0] is True or x[0] == "true", [x[1][0] is True or x[1][0] == "true", x[1][1], x[1][2]]] for x in m]
        if len(mod) == len(obs):
            obs = [[mo[0] if ob[0] is None else ob[0], ob[1]] for mo, ob in zip(mod, obs)]
        if mod != obs:
            bad.append({"history": h, "module": f, "model": mod, "observed": obs})
        else:
            okc += 1
    if bad:
        ctx.tie_broken("correspondence", "K-cache: model and implementation disagree (behaves-as-fresh flag / cache directory content) on %d of %d module histories" % (len(bad), len(keys)),
                       json.dumps(bad[0])[-3000:])
    return okc


CORPUS = [
    # traced import, edit, traced import that raises at import, traced import (fixed 2663f76: all nodes None from then on)
    {"seed": 21, "steps": [{"cfg": "A", "fs": "rw", "edit": False}, {"cfg": "A", "fs": "rw", "edit": True, "raises": True}, {"cfg": "A", "fs": "rw", "edit": False}, {"cfg": "A", "fs": "rw", "edit": False}]},
    # ... the same through a like-named tracer that keeps no node table
    {"seed": 22, "steps": [{"cfg": "NB", "fs": "rw", "edit": False}, {"cfg": "NB", "fs": "rw", "edit": True, "raises": True}, {"cfg": "NB", "fs": "rw", "edit": False}]},
    {"seed": 11, "steps": [{"cfg": "P", "fs": "rw", "edit": False}, {"cfg": "A", "fs": "rw", "edit": False}, {"cfg": "A", "fs": "ro", "edit": False}, {"cfg": "P", "fs": "rw", "edit": False}]},
    {"seed": 12, "steps": [{"cfg": "A", "fs": "rw", "edit": False}, {"cfg": "A", "fs": "rw", "edit": True}, {"cfg": "A", "fs": "rw", "edit": False}]},
    {"seed": 13, "steps": [{"cfg": "ALL", "fs": "rw", "edit": False}, {"cfg": "P", "fs": "rw", "edit": False}, {"cfg": "ALL", "fs": "rw", "edit": False}]},
    {"seed": 14, "steps": [{"cfg": "A", "fs": "rw", "edit": False}, {"cfg": "A2", "fs": "rw", "edit": False}, {"cfg": "Ag", "fs": "rw", "edit": False}, {"cfg": "A", "fs": "rw", "edit": False}]},
    {"seed": 15, "steps": [{"cfg": "A", "fs": "dw", "edit": False}, {"cfg": "A", "fs": "ro", "edit": False}, {"cfg": "B", "fs": "rw", "edit": False}, {"cfg": "AB", "fs": "rw", "edit": True}]},
    {"seed": 16, "steps": [{"cfg": "NB", "fs": "rw", "edit": False}, {"cfg": "NB", "fs": "rw", "edit": False}, {"cfg": "NC", "fs": "rw", "edit": False}, {"cfg": "NC", "fs": "rw", "edit": True}]},
    {"seed": 17, "steps": [{"cfg": "A", "fs": "rw", "edit": False}, {"cfg": "As", "fs": "rw", "edit": False}]},
]


def run(ctx, model_ok):
    rng = ctx.rng
    n = 60 if ctx.tier == "quick" else 600
    hists = [dict(r) for r in getattr(ctx, "known_replays", []) + getattr(ctx, "fixed_replays", []) if "steps" in r] + [dict(c) for c in CORPUS]
    while len(hists) < n:
        hists.append(gen_history(rng))
    results = run_all(hists)
    failures, seen = [], set()
    nproc = sum(2 * len(h["steps"]) for h in hists)
    for h, r in zip(hists, results):
        f = oracle(h, r)
        if f:
            sig = signature(h, f)
            if sig in seen or (sig == "unlisted" and sum(1 for x in failures if x["signature"] == "unlisted") >= 3):
                continue
            seen.add(sig)
            f.update({"case": h, "signature": sig})
            failures.append(f)
    okc = k_cache(ctx, hists, results) if model_ok else 0
    hist = {}
    for h in hists:
        for s in h["steps"]:
            k = "%s/%s%s%s" % (s["cfg"], s["fs"], "/edit" if s["edit"] else "", "/raises" if s.get("raises") else "")
            hist[k] = hist.get(k, 0) + 1
    return {
        "evaluations": nproc,
        "distinct_nontrivial": len({lib.digest(h) for h in hists if len({s["cfg"] for s in h["steps"]}) >= 2 or any(s["edit"] for s in h["steps"])}),
        "rule": "histories of 2-4 real processes over one package directory; each process imports the package plain or under a tracer configuration (two classes, the same class "
                "with other events / other guard setting / a static node condition, no node table, caching forbidden, accept-everything, a stack of two) with the cache directory "
                "writable, read-only (process run unprivileged) or bytecode writing disabled, the source edited between processes, and in 20% of the processes a dependency missing so that "
                "two modules are compiled, cached and then raise at import; every process is also run alone on a fresh "
                "copy at the same source version; non-trivial = at least two configurations or an edit; distinct by sha1",
        "samples": [hists[-1]],
        "traces_validated": okc,
        "distribution": {"process_kinds": dict(sorted(hist.items(), key=lambda x: -x[1])[:20]), "processes": nproc, "module_histories_agreeing_with_model": okc},
        "failures": failures, "extra": {},
    }


def replay(ctx, rep):
    case = (rep.get("failure") or {}).get("case")
    return fails_on_impl(case) if case else None
