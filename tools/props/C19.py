# C19 - a decorated function is the instrumented version of the same function
import json
import random

import lib
import gen_prog

ID = "C19"
PROP_FILE = "props/C19.v"
COQ_TARGETS = ["props/C19.v"]
THEOREMS = ["C19_scoped", "C19_delivery", "C19_not_left_active", "C19_select_first", "C19_find_code_sound", "C19_find_code_top", "C19_find_code_generic"]
TRUSTED_BASE = [
    "Coq 8.16.1 kernel, vm_compute",
    "model/Ctx.v (context machine, tied to tracer.py by C06 / C07's K-ctx correspondence) and model/Decor.v (the wrapper as nested enabled contexts in list order; "
    "code selection as 'first code constant with the function's name')",
    "tools/impl/c19_decor.py: real module files, real decorators; the reference events come from the same function text instrumented through exec (C01 / C02 decide that path)",
]
ASSUMPTIONS = ["handlers are observing; the tracers accept the function's file; module-level functions without free variables",
               "node validity = the handler received a node (not None) of the type the reference run reports for that occurrence"]

SIG_GEN = "a decorated generator function delivers nothing: its body runs after the call (and the per-call tracing context) has returned"
SIG_BELOW = "with another decorator below the tracing decorator nothing is instrumented: the code object is looked up under the wrapper's name"
SIG_EVICT = "decorating a second function of the same file evicts the first function's node table: its events arrive with node=None"

PARAMS = ["p=0", "p, q=2, *ar, k=1, **kw", "p, /, q=1, *, r=3", "p=1, *ar", "p=2, **kw"]
CALLS = {"p=0": ["", "3", "p=2"], "p, q=2, *ar, k=1, **kw": ["1", "1, 5, 6, 7, k=2, z=3", "p=4, q=1"], "p, /, q=1, *, r=3": ["2", "2, 4, r=1", "0, q=9"],
         "p=1, *ar": ["", "5, 6, 7"], "p=2, **kw": ["", "3, u=1, v=2"]}


def gen_func(rng, idx, future=False):
    g = gen_prog.Gen(random.Random(rng.random()), rng.choice(["core", "core", "wide"]), max_depth=3)
    g.in_func = 1
    params = rng.choice(PARAMS)
    kind = rng.choices(["plain", "raises", "recursive", "nested_same_name", "generator", "below", "above", "type_params"], [8, 3, 2, 2, 1, 1, 2, 2])[0]
    body = ["x = p", "y = %d" % rng.randrange(5)] + g.block(1, rng.choice([1, 2, 3]))
    if rng.random() < 0.4:
        body = ['"""doc of the function"""'] + body
    if kind == "raises":
        body += ["if p == %d:" % rng.choice([0, 1, 2]), "    raise ValueError(\"v\", x)"]
    if kind == "recursive":
        body += ["if p > 0:", "    return SELF(p - 1) + y"]
    if kind == "nested_same_name":
        body += ["def SELF(z=1):", "    return z + 100", "x = x + SELF(2)"]
    if kind == "generator":
        body += ["for gi in range(2):", "    yield x + gi"]
    else:
        body += ["return %s" % g.expr()]
    at = 1 + [i for i, l in enumerate(body) if l.startswith("y = ")][0]
    if rng.random() < 0.3:
        # a multi-line literal with lines inside and left of the function's margin: its value depends on the text not being re-indented
        body.insert(at, 'y = len("""ab\n      cd\n  ef\ngh""") + y')
    if future:
        # under the module's `from __future__ import annotations` the annotation stays a string (of 10 characters, not a pair); its evaluation
        # delivers none of the events of EVENT_SETS, so the reference (which runs the text without the future import) has the same events
        # (recorded as a side effect, not fed into the control flow: the reference must take the same path)
        body[at:at] = ["def annotated(u: (1.5, 2.5) = 1):", "    return u", "_rec.append(annotated() + len(annotated.__annotations__[\"u\"]))"]
    name = "f%d" % idx
    # type_params: `def f[T](...)` - the function's code object sits inside the code object that evaluates the type parameters
    head = "def %s%s(%s):" % ("SELF", "[T]" if kind == "type_params" else "", params)
    text = "\n".join([head] + ["    " + l for l in body]) + "\n"
    decos = {"below": ["@DECO", "@OTHER"], "above": ["@OTHER", "@DECO"]}.get(kind, ["@DECO"])
    src = text.replace("SELF", name + "__plain") + "\n".join(decos) + "\n" + text.replace("SELF", name)
    if rng.random() < 0.3:
        # still a module-level function, but indented in its file (string literals keep their own margin)
        lines, out, in_str = src.split("\n"), [], False
        for l in lines:
            out.append(l if in_str or not l else "    " + l)
            if l.count('"""') % 2 == 1:
                in_str = not in_str
        src = "if bx.v == 5:\n" + "\n".join(out) + "\n"
    try:
        compile(text, "<generated>", "exec")     # the generator's nested `global` declarations can follow a use of the name: not Python
    except SyntaxError:
        return gen_func(rng, idx, future)
    return {"name": name, "kind": kind, "src": src, "calls": list(CALLS[params])}


EVENT_SETS = [["load_name", "after_stmt"], ["before_stmt", "after_assign_rhs", "after_return", "before_call"], ["after_binop", "after_if_test", "before_function_body", "after_function_execution", "load_name"],
              ["after_for_loop_iter", "after_int", "after_call", "after_stmt"]]


def gen_case(rng):
    nf = rng.choice([1, 2, 2, 3])
    future = rng.random() < 0.25
    funcs = [gen_func(rng, i + 1, future) for i in range(nf)]
    style = rng.choice(["pyc", "pyc", "method"])
    ntr = 1 if style == "method" else rng.choice([1, 2])
    # sys: the tracer also has a (silent) handler for a sys.settrace event
    tracers = [{"events": rng.choice(EVENT_SETS), "guards": rng.random() < 0.6, "sys": rng.choice([None, None, None, "call", "return"])} for _ in range(ntr)]
    src = ("from __future__ import annotations\n" if future else "") + "# a comment line, so that no function starts near line 1\n" * rng.choice([0, 3]) + gen_prog.PRELUDE + "from c19_support import DECO, OTHER\na = 1\nb = 2\nc = 3\nd = 4\nbx = Box(5)\n" + "\n".join(f["src"] for f in funcs)
    return {"module_src": src, "funcs": [{"name": f["name"], "calls": f["calls"], "kind": f["kind"]} for f in funcs], "tracers": tracers, "style": style,
            "interleave": rng.random() < 0.5}


def run_impl(cases):
    out = []
    for i in range(0, len(cases), 20):
        r, res, o = lib.impl_run("c19_decor.py", cases[i:i + 20], timeout=1200)
        if res is None:
            raise RuntimeError("implementation harness failed:\n" + o[-3000:])
        out += res
    return out


def oracle_case(c, im):
    if "crash" in im:
        return {"what": "harness crashed: " + im["crash"], "tb": im.get("tb"), "kind": "crash"}
    if "import_error" in im:
        return {"what": "decorating failed: " + im["import_error"][:300], "kind": "decorate"}
    if im["after_import"]["stack"] != 0 or any(im["after_import"]["enabled"]) or im["events_at_import"]:
        return {"what": "decorating alone left tracers active or delivered events: %s, %d events" % (im["after_import"], im["events_at_import"]), "kind": "decorate-active"}
    kinds = {f["name"]: f["kind"] for f in c["funcs"]}
    first_call_of = {}
    for name, r in im["funcs"].items():
        if r["name"] != name or r["doc"] != r["plain_doc"]:
            return {"what": "%s: name / docstring not preserved (%r, %r)" % (name, r["name"], r["doc"]), "kind": "meta", "func": name}
        for k, call in enumerate(r["calls"]):
            if call["decorated"] != call["plain"]:
                return {"what": "%s(%s): decorated %s, original %s" % (name, call["args"], call["decorated"], call["plain"]), "kind": "result", "func": name}
            if call["before"] != call["after"] or call["after"]["stack"] != 0 or any(call["after"]["enabled"]) or call["after"]["emit"]:
                return {"what": "%s(%s): tracers left active / state changed by the call: before %s after %s" % (name, call["args"], call["before"], call["after"]), "kind": "scope", "func": name}
            if isinstance(call["reference"], list) and call["reference"] and isinstance(call["reference"][0], str):
                return {"what": "%s: %s" % (name, call["reference"][0]), "kind": "reference"}
            ev = [[e[0], e[1]] for e in call["events"]]
            ref = [[e[0], e[1]] for e in call["reference"]]
            if ev != ref:
                kind = "events"
                if not ev and kinds[name] == "generator":
                    kind = "generator"
                elif not ev and kinds[name] == "below":
                    kind = "below"
                return {"what": "%s(%s): %d events delivered during the call, the instrumented function delivers %d" % (name, call["args"], len(ev), len(ref)),
                        "kind": kind, "func": name, "first_difference": next(([a, b] for a, b in zip(ev + [None] * len(ref), ref + [None] * len(ev)) if a != b), None)}
            if call["invalid_nodes"] or [e[2] for e in call["events"]] != [e[2] for e in call["reference"]]:
                earlier = any(n2 != name for n2 in list(im["funcs"])[list(im["funcs"]).index(name) + 1:]) or len(c["funcs"]) > 1
                return {"what": "%s(%s): %d of %d events arrive without a valid node" % (name, call["args"], call["invalid_nodes"], len(ev)),
                        "kind": "evicted" if call["invalid_nodes"] and earlier else "nodes", "func": name}
            if call.get("misplaced_nodes"):
                return {"what": "%s(%s): %d of %d events arrive with a node whose position is not its place in the file" % (name, call["args"], call["misplaced_nodes"], len(ev)),
                        "kind": "positions", "func": name}
    if im["outside_events"]:
        return {"what": "%d events were delivered outside any call of a decorated function" % im["outside_events"], "kind": "outside"}
    return None


# ------------------------------------------------------------------ K-select: find_function_code vs model/Decor.v find_code
def gen_select_case(rng):
    """module-level functions (plain / with type parameters / async), nested functions and methods of the same names, lambdas, comprehensions, classes"""
    names = ["f", "g", "h"]
    lines = []

    def fn(name, ind, depth):
        generic = rng.random() < 0.35
        head = "%s%sdef %s%s(x=1):" % (ind, "async " if rng.random() < 0.15 else "", name, "[T]" if generic else "")
        body = ["%s    y = x" % ind]
        if depth < 2 and rng.random() < 0.6:
            body += fn(rng.choice(names), ind + "    ", depth + 1)
        if rng.random() < 0.3:
            body.append("%s    z = (lambda q: q)(1) + sum(i for i in range(2))" % ind)
        body.append("%s    return y" % ind)
        return [head] + body
    for _ in range(rng.choice([1, 2, 3])):
        r = rng.random()
        if r < 0.7:
            lines += fn(rng.choice(names), "", 0)
        elif r < 0.85:
            lines += ["class %s%s:" % (rng.choice(["K", "f"]), "[T]" if rng.random() < 0.3 else "")] + fn(rng.choice(names), "    ", 1)
        else:
            lines += ["type %s[T] = list[T]" % rng.choice(["A", "g"])]
    return {"src": "\n".join(lines) + "\n", "names": names + ["K", "<lambda>"]}


def coq_cobj(t):
    uid, name, generic, kids = t
    return "(CO %d %d %s [%s])" % (uid, name, "true" if generic else "false", "; ".join(coq_cobj(k) for k in kids))


def k_select(ctx, rng, n):
    cases = [gen_select_case(rng) for _ in range(n)]
    cases.append({"src": "def f[T](x: T) -> T:\n    def f(z=1):\n        return z\n    return x\ndef g(x=1):\n    def h[U](q: U):\n        return q\n    return x\n", "names": ["f", "g", "h"]})
    rc, res, o = lib.impl_run("c19_select.py", cases, timeout=300)
    if res is None:
        raise RuntimeError("K-select harness failed:\n" + o[-2000:])
    L = ["From Coq Require Import List NArith Bool.", "Import ListNotations.", "From PyccoloV Require Import model.Ctx model.Decor.", "Local Open Scope N_scope.",
         "Definition pick (m : cobj) (name : N) : option N := option_map co_uid (find_code (S (depth m)) [m] name)."]
    good = [(c, r) for c, r in zip(cases, res) if "tree" in r]
    for c, r in good:
        L.append("Eval vm_compute in (let m := %s in map (pick m) [%s])." % (coq_cobj(r["tree"]), "; ".join(str(p[0]) for p in r["picks"])))
    rc_, out = lib.coq_eval("c19_kselect", "\n".join(L) + "\n", timeout=600)
    vals = lib.parse_marked(out) if rc_ == 0 else []
    if rc_ != 0 or len(vals) != len(good):
        ctx.tie_broken("correspondence", "K-select: coqc failed (%d values for %d snippets)" % (len(vals), len(good)), out[-2000:])
        return 0, len(cases)
    bad, okc = [], 0
    for (c, r), v in zip(good, vals):
        m = [None if x == "None" else x[1] for x in lib.parse_coq_list(v)]
        if m != [p[1] for p in r["picks"]]:
            bad.append({"src": c["src"], "names": c["names"], "model": m, "impl": [p[1] for p in r["picks"]], "tree": r["tree"]})
        else:
            okc += 1
    crashed = [r for r in res if "crash" in r]
    if bad or crashed:
        ctx.tie_broken("correspondence", "K-select: model/Decor.v find_code and tracer.find_function_code pick different code objects in %d of %d snippets (%d crashed)"
                       % (len(bad), len(cases), len(crashed)), json.dumps((bad + crashed)[0])[:2000])
    return okc, len(cases)


def signature(f):
    return {"generator": SIG_GEN, "below": SIG_BELOW, "evicted": SIG_EVICT}.get(f.get("kind"), "unlisted")


def fails_on_impl(c):
    return oracle_case(c, run_impl([c])[0])


def run(ctx, model_ok):
    rng = ctx.rng
    n = 60 if ctx.tier == "quick" else 600
    cases = [dict(r) for r in getattr(ctx, "known_replays", []) + getattr(ctx, "fixed_replays", []) if "module_src" in r]
    while len(cases) < n:
        cases.append(gen_case(rng))
    impl = run_impl(cases)
    failures, seen = [], set()
    ncalls = 0
    kinds = {}
    for c, im in zip(cases, impl):
        for f in c["funcs"]:
            kinds[f["kind"]] = kinds.get(f["kind"], 0) + 1
        ncalls += sum(len(r["calls"]) for r in im.get("funcs", {}).values())
        f = oracle_case(c, im)
        if f:
            sig = signature(f)
            if sig in seen or (sig == "unlisted" and sum(1 for x in failures if x["signature"] == "unlisted") >= 3):
                continue
            seen.add(sig)
            f.update({"case": c, "signature": sig})
            failures.append(f)
    ksel_ok, ksel_n = k_select(ctx, rng, 40 if ctx.tier == "quick" else 400) if model_ok else (0, 0)
    return {
        "evaluations": ncalls + ksel_n,
        "distinct_nontrivial": len({lib.digest(c) for c, im in zip(cases, impl) if sum(len(call["events"]) for r in im.get("funcs", {}).values() for call in r["calls"]) >= 5}),
        "rule": "generated module files with 1-3 decorated module-level functions (positional-only / keyword-only / *args / **kwargs parameters with defaults, docstrings, "
                "raising, recursive, a nested function of the same name, generators, another decorator above or below) x 2-3 argument lists each x 1-2 tracers via "
                "pyc.instrumented([...]) or @tracer; calls of the different functions interleaved; per call: decorated vs original outcome, tracer stack / flags before and "
                "after, events during the call vs the same function instrumented through exec, node validity; non-trivial = >= 5 events; distinct by sha1",
        "samples": [{"funcs": cases[-1]["funcs"], "style": cases[-1]["style"], "tracers": cases[-1]["tracers"], "module_tail": cases[-1]["module_src"][-400:]}],
        "traces_validated": ksel_ok,
        "distribution": {"function_kinds": kinds, "calls": ncalls, "modules": len(cases), "code_trees_agreeing_with_find_code": ksel_ok},
        "failures": failures, "extra": {},
    }


def replay(ctx, rep):
    case = (rep.get("failure") or {}).get("case")
    return fails_on_impl(case) if case else None
