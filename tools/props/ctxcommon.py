# Shared by C06 / C07: history generator, Coq text, model-output conversion, the K-ctx comparison.
import json

import lib

KINDS = ["KTop", "KFunc", "KLam", "KLoopInFunc"]


allow_import = [False]
import_heavy = [False]      # profile: imports (half of them of modules whose body raises / does not compile) are three times as frequent


def gen_items(rng, n, depth, budget, allow_raise=True):
    items = []
    for _ in range(rng.choice([1, 2, 2, 3]) if depth < 5 else 1):
        if budget[0] <= 0:
            break
        budget[0] -= 1
        r = rng.random()
        if r < 0.34 and depth < 5:
            items.append(["ctx", rng.randrange(n), rng.random() < 0.35, gen_items(rng, n, depth + 1, budget, allow_raise)])
        elif r < 0.42 and depth < 5:
            if rng.random() < 0.4:
                # the real sandbox API: tracer.exec / tracer.eval of instrumented code (a context that copies the tracer's current state + a top-level site)
                items.append(["rsite", rng.randrange(n), rng.choice(["exec", "eval"])])
            else:
                items.append(["exec", rng.randrange(n), gen_items(rng, n, depth + 1, budget, allow_raise)])
        elif r < 0.45 and depth < 5 and allow_raise:
            # a context whose enter hook raises (not entered at all) / whose exit hook raises (after the body): in the model these are
            # `with ctx: raise` and `with ctx: body` followed by a raise - the state afterwards must be the same
            if rng.random() < 0.5:
                items.append(["ctxfail", rng.randrange(n), rng.random() < 0.35])
            else:
                items.append(["ctxexitfail", rng.randrange(n), rng.random() < 0.35, gen_items(rng, n, depth + 1, budget, False)])
        elif r < (0.80 if not import_heavy[0] else 0.68):
            items.append(["site", rng.choice(KINDS)])
        elif r < 0.86 and allow_import[0]:
            items.append(["import", rng.choice(["blocked", "missing", "stdlib", "broken", "raising", "good"] if not import_heavy[0]
                                               else ["raising", "raising", "broken", "good", "good", "stdlib"])])
        elif r < 0.93 and allow_raise:
            items.append(["raise"])
        elif depth < 5:
            items.append(["try", gen_items(rng, n, depth + 1, budget, allow_raise)])
        else:
            items.append(["site", rng.choice(KINDS)])
    return items


def gen_case(rng, sys_level=True, imports=False):
    allow_import[0] = imports
    n = rng.choice([1, 2, 2, 3, 3])
    # a quarter of the histories with imports: mostly sys-level tracers over a pre-existing trace function, imports three times as frequent
    # (exec_module switches tracers off and on around a foreign module: the system trace functions must come back in the same order)
    import_heavy[0] = imports and sys_level and rng.random() < 0.25
    p_sys, p_pre = (0.8, 0.7) if import_heavy[0] else (0.3, 0.3)
    cfg = [{"has_sys": sys_level and rng.random() < p_sys, "patch_meta": rng.random() < 0.7} for _ in range(n)]
    budget = [rng.choice([5, 9, 14, 20])]
    items = gen_items(rng, n, 0, budget)
    import_heavy[0] = False
    return {"n": n, "cfg": cfg, "pre": sys_level and rng.random() < p_pre, "items": items}


def enumerated_cases():
    """all three-deep nests of contexts of two tracers (each enabled or disabled), the innermost one entered and left, with a
    function-body / loop-in-function / lambda / top-level site after every exit: 4*4*4 = 64 histories"""
    out = []
    sites = [["site", "KFunc"], ["site", "KLoopInFunc"], ["site", "KLam"], ["site", "KTop"]]
    combos = [(t, d) for t in (0, 1) for d in (False, True)]
    for a in combos:
        for b in combos:
            for c in combos:
                items = [["ctx", a[0], a[1], sites[:1] + [["ctx", b[0], b[1], sites[:2] + [["ctx", c[0], c[1], sites[:1]]] + sites]] + sites]] + sites[:2]
                out.append({"n": 2, "cfg": [{"has_sys": False, "patch_meta": True}, {"has_sys": False, "patch_meta": True}], "pre": False, "items": items})
    return out


def enumerated_import_cases():
    """imports under nested contexts of two sys-level tracers (exec_module switches both off and on again around a module neither instruments):
    {a trace function installed before, none} x {good module, body raises, does not compile} x three nestings, sites after the import and after every exit"""
    out = []
    for pre in (True, False):
        for kind in ("good", "raising", "broken"):
            imp = [["import", kind], ["site", "KFunc"]]
            shapes = [
                [["ctx", 0, False, [["ctx", 1, False, imp], ["site", "KFunc"]]]],
                [["ctx", 0, True, [["ctx", 1, False, [["ctx", 0, False, imp], ["site", "KFunc"]]], ["site", "KFunc"]]]],
                [["ctx", 1, False, [["ctx", 0, False, [["ctx", 1, True, imp], ["site", "KLam"]]], ["site", "KFunc"]]]],
            ]
            for items in shapes:
                out.append({"n": 2, "cfg": [{"has_sys": True, "patch_meta": True}, {"has_sys": True, "patch_meta": True}], "pre": pre, "items": items + [["site", "KFunc"]]})
    return out


def count_sites(items):
    c = 0
    for it in items:
        if it[0] in ("site", "rsite"):
            c += 1
        elif it[0] == "ctx":
            c += count_sites(it[3])
        elif it[0] == "ctxexitfail":
            c += count_sites(it[3])
        elif it[0] == "exec":
            c += count_sites(it[2])
        elif it[0] == "try":
            c += count_sites(it[1])
    return c


def count_ctx(items):
    c = 0
    for it in items:
        if it[0] == "ctx":
            c += 1 + count_ctx(it[3])
        elif it[0] in ("ctxfail", "rsite"):
            c += 1
        elif it[0] == "ctxexitfail":
            c += 1 + count_ctx(it[3])
        elif it[0] == "exec":
            c += 1 + count_ctx(it[2])
        elif it[0] == "try":
            c += count_ctx(it[1])
    return c


def b(x):
    return "true" if x else "false"


def coq_items(items):
    out = []
    for it in items:
        k = it[0]
        if k == "ctx":
            out.append("ICtx %d %s [%s]" % (it[1], b(it[2]), coq_items(it[3])))
        elif k == "ctxfail":
            out.append("ICtx %d %s [IRaise]" % (it[1], b(it[2])))
        elif k == "ctxexitfail":
            out.append("ICtx %d %s [%s]; IRaise" % (it[1], b(it[2]), coq_items(it[3])))
        elif k == "exec":
            out.append("IExec %d [%s]" % (it[1], coq_items(it[2])))
        elif k == "site":
            out.append("ISite %s" % it[1])
        elif k == "rsite":
            out.append("IExec %d [ISite KTop]" % it[1])
        elif k == "raise":
            out.append("IRaise")
        elif k == "try":
            out.append("ITry [%s]" % coq_items(it[1]))
    return "; ".join(out)


HEADER = """From Coq Require Import List NArith Bool Arith.
Import ListNotations.
From PyccoloV Require Import model.Ctx.
Definition view (r : site_result) : list nat * nat :=
  match r with
  | SDelivered who => (map fst (filter snd (combine (seq 0 (length who)) who)), 0)
  | SPlain => ([], 1) | SNameErrorFallback => ([], 2) | SNameError => ([], 3) | SFinders n => ([n], 4) end.
Definition snap (s : cst) :=
  (stack s, map (fun t => (enabled (tsts s t), hard (tsts s t))) (seq 0 (ntr s)), (emit_present s, guards_live s),
   (te s, fte s), (thunk_owner s, lam_owner s), cur_trace s, settrace_patches s, meta_finders s).
Definition one (n : nat) (cfgl : list tcfg) (pre : tracefn) (items : list item) :=
  let cfg := fun t => nth t cfgl {| has_sys := false; patch_meta := false |} in
  let s0 := init_cst n pre in
  let '(_, sP, _) := run_items cfg [ICtx 0 false []; ICtx 0 true [ISite KTop]] s0 in
  let '(r, s1, lg) := run_items cfg items sP in
  (r, snap sP, snap s1, map (fun e => view (snd e)) lg, map (fun k => view (run_site s1 k)) [KFunc; KLam; KLoopInFunc]).
Definition _unused := 0.
"""


def coq_cases_file(cases):
    L = [HEADER]
    for c in cases:
        cfg = "; ".join("{| has_sys := %s; patch_meta := %s |}" % (b(x["has_sys"]), b(x["patch_meta"])) for x in c["cfg"])
        L.append("Eval vm_compute in one %d [%s] %s [%s]." % (c["n"], cfg, "(TfUser 0)" if c.get("pre") else "TfNone", coq_items(c["items"])))
    return "\n".join(L) + "\n"


def opt(x):
    if x == "None":
        return None
    return x[1]


def flagv(x):
    return "absent" if x == "None" else x[1]


def tracefn(x):
    if x == "TfNone":
        return "none"
    if x[0] == "TfUser":
        return "user"
    return ["composed", x[1]]


def snap_view(sn):
    stack, tsts, (emit, gl), (te, fte), (th, lam), cur, patches, metas = sn
    return {"stack": list(stack), "tsts": [list(x) for x in tsts], "emit": emit, "guards_live": gl, "te": flagv(te), "fte": flagv(fte),
            "thunk_owner": opt(th), "lam_owner": opt(lam), "cur_trace": tracefn(cur), "settrace_orig": list(patches) == [],
            "meta_finders": metas}


def site_view(v):
    who, code = v
    return "NameError" if code == 3 else sorted(who)


def model_results(cases):
    """returns list of dict(raised, mid, after, log, post) or raises"""
    shards = [(i, cases[i:i + 150]) for i in range(0, len(cases), 150)]
    outs = lib.coq_eval_many([("ctx_cases_%d" % i, coq_cases_file(cs)) for i, cs in shards], timeout=900)
    res = []
    for i, cs in shards:
        rc, out = outs["ctx_cases_%d" % i]
        vals = lib.parse_marked(out) if rc == 0 else []
        if rc != 0 or len(vals) != len(cs):
            raise RuntimeError("coqc failed on generated cases (rc=%s, %d/%d results)\n%s" % (rc, len(vals), len(cs), out[-3000:]))
        for v in vals:
            r, mid, after, lg, post = lib.parse_coq_list(v)
            # the model logs three entries per executed site: the site's own result, the system-trace deliveries, the finders on sys.meta_path
            res.append({"raised": r, "mid": snap_view(mid), "after": snap_view(after), "log": [site_view(x) for x in lg[0::3]],
                        "syslog": [sorted(x[0]) for x in lg[1::3]], "finders": [x[0][0] for x in lg[2::3]], "post": [site_view(x) for x in post]})
    return res


def impl_results(cases):
    out = []
    for i in range(0, len(cases), 100):
        rc, res, o = lib.impl_run("c06_ctx.py", cases[i:i + 100], timeout=900)
        if res is None:
            raise RuntimeError("implementation harness failed:\n" + o[-3000:])
        out += res
    return out


SNAP_KEYS = ["stack", "tsts", "emit", "guards_live", "te", "fte", "thunk_owner", "lam_owner", "cur_trace", "settrace_orig", "meta_finders"]


def compare(case, m, im):
    """model vs implementation; returns None or a description"""
    if "crash" in im:
        return {"detail": "implementation harness crashed: %s" % im["crash"], "tb": im.get("tb")}
    for which in ("mid", "after"):
        for k in SNAP_KEYS:
            if m[which][k] != im[which][k]:
                return {"detail": "%s-state field %s: model %r impl %r" % (which, k, m[which][k], im[which][k])}
    if m["raised"] != im["raised"]:
        return {"detail": "raised: model %r impl %r" % (m["raised"], im["raised"])}
    ilog = [e[1] for e in im["log"]]
    if m["log"] != ilog:
        return {"detail": "site log: model %r impl %r" % (m["log"], ilog)}
    # a site run through the real tracer.exec / eval (logged as RTop): the scaffold's frames are hidden from `call` handlers, nothing to compare
    isys = [ms if e[0] == "RTop" else e[3] for e, ms in zip(im["log"], m["syslog"])] if len(m["syslog"]) == len(im["log"]) else [e[3] for e in im["log"]]
    if m["syslog"] != isys:
        return {"detail": "system-trace 'call' deliveries per site: model %r impl %r" % (m["syslog"], isys)}
    ifind = [e[4] for e in im["log"]]
    if m["finders"] != ifind:
        return {"detail": "pyccolo finders on sys.meta_path at each site: model %r impl %r" % (m["finders"], ifind)}
    ipost = [e[1] for e in im["post"]]
    if m["post"] != ipost:
        return {"detail": "post-run sites: model %r impl %r" % (m["post"], ipost)}
    return None


# ---------------------------------------------------------------- the stack-of-booleans reference (C06's spec)
def reference_log(case):
    n = case["n"]
    sp = [[] for _ in range(n)]
    out = []

    class Raised(Exception):
        pass

    def run(items):
        for it in items:
            k = it[0]
            if k == "ctx":
                sp[it[1]].append(not it[2])
                try:
                    run(it[3])
                finally:
                    sp[it[1]].pop()
            elif k == "ctxfail":
                raise Raised()
            elif k == "ctxexitfail":
                sp[it[1]].append(not it[2])
                try:
                    run(it[3])
                finally:
                    sp[it[1]].pop()
                raise Raised()
            elif k == "exec":
                t = it[1]
                sp[t].append(sp[t][-1] if sp[t] else True)
                try:
                    run(it[2])
                finally:
                    sp[t].pop()
            elif k == "site":
                out.append([t for t in range(n) if sp[t] and sp[t][-1]])
            elif k == "rsite":
                t0 = it[1]
                sp[t0].append(sp[t0][-1] if sp[t0] else True)      # the sandbox context copies the tracer's current state
                out.append([t for t in range(n) if sp[t] and sp[t][-1]])
                sp[t0].pop()
            elif k == "raise":
                raise Raised()
            elif k == "try":
                try:
                    run(it[1])
                except Raised:
                    pass

    try:
        run(case["items"])
    except Raised:
        pass
    return out


def shrink(case, fails):
    """delete items / unwrap contexts while the failure persists"""
    import copy

    def variants(items):
        for i, it in enumerate(items):
            yield items[:i] + items[i + 1:]
            body_ix = {"ctx": 3, "exec": 2, "try": 1, "ctxexitfail": 3}.get(it[0])
            if body_ix is not None:
                yield items[:i] + it[body_ix] + items[i + 1:]
                for v in variants(it[body_ix]):
                    it2 = list(it)
                    it2[body_ix] = v
                    yield items[:i] + [it2] + items[i + 1:]

    cur = copy.deepcopy(case)
    improved = True
    rounds = 0
    while improved and rounds < 40:
        improved = False
        rounds += 1
        for v in variants(cur["items"]):
            cand = dict(cur)
            cand["items"] = v
            if fails(cand):
                cur = cand
                improved = True
                break
    return cur
