# K-syn: the Gallina model of the rewriter on the fragment (model/RwFrag.v) against the real rewriter: whole-tree equality
import json

import lib

HEADER = """From Coq Require Import List ZArith NArith Bool.
Import ListNotations.
From PyccoloV Require Import gen.Events model.Tree model.Erase model.RwFrag.
Local Open Scope N_scope.
"""
FRAG_EVENTS = ["load_name", "after_int", "after_bool", "after_none", "after_string", "left_binop_arg", "right_binop_arg", "before_binop", "after_binop",
               "left_compare_arg", "compare_arg", "before_compare", "after_compare", "after_expr_stmt", "before_assign_rhs", "after_assign_rhs", "after_if_test",
               "before_stmt", "after_stmt", "after_module_stmt", "init_module", "exit_module"]


def coq_event(e):
    return "E_priv" + e if e.startswith("_") else "E_" + e


class G:
    def __init__(self, rng):
        self.rng = rng

    def atom(self):
        r = self.rng.random()
        if r < 0.4:
            return self.rng.choice(["a", "b", "c"])
        if r < 0.75:
            return str(self.rng.randrange(0, 9))
        return self.rng.choice(["True", "False", "None", "'s'"])

    def expr(self, d=0):
        r = self.rng.random()
        if d >= 3 or r < 0.3:
            return self.atom()
        if r < 0.55:
            return "(%s %s %s)" % (self.expr(d + 1), self.rng.choice(["+", "-", "*", "//", "%", "&", "|"]), self.expr(d + 1))
        if r < 0.75:
            n = self.rng.choice([1, 1, 2, 3])
            s = self.expr(d + 1)
            for _ in range(n):
                s += " %s %s" % (self.rng.choice(["<", "<=", "==", "!=", ">", "is", "is not"]), self.expr(d + 1))
            return "(%s)" % s
        if r < 0.83:
            return "(%s %s)" % (self.rng.choice(["-", "not", "+", "~"]), self.expr(d + 1))
        if r < 0.92:
            return "(%s)" % (" %s " % self.rng.choice(["and", "or"])).join(self.expr(d + 1) for _ in range(self.rng.choice([2, 3])))
        return "(%s if %s else %s)" % (self.expr(d + 1), self.expr(d + 1), self.expr(d + 1))

    def stmts(self, depth, n):
        out = []
        for _ in range(n):
            r = self.rng.random()
            if r < 0.35:
                out.append("%s = %s" % (" = ".join(self.rng.sample(["a", "b", "c"], self.rng.choice([1, 1, 2]))), self.expr()))
            elif r < 0.6:
                out.append(self.expr())
            elif r < 0.7:
                out.append("pass")
            elif depth < 2:
                out.append("if %s:" % self.expr())
                out += ["    " + l for l in self.stmts(depth + 1, self.rng.choice([1, 2]))]
                if self.rng.random() < 0.5:
                    out.append("else:")
                    out += ["    " + l for l in self.stmts(depth + 1, self.rng.choice([1, 2]))]
            else:
                out.append(self.expr())
        return out

    def program(self):
        return "a = 1\nb = 2\nc = 3\n" + "\n".join(self.stmts(0, self.rng.choice([1, 2, 3, 4]))) + "\n"


def gen_cases(rng, n):
    import random
    cases = []
    pool = FRAG_EVENTS
    for i in range(n):
        g = G(random.Random(rng.random()))
        mode = rng.choice(["all", "single", "half", "sparse", "dense"])
        if mode == "all":
            ev = list(pool)
        elif mode == "single":
            ev = [rng.choice(pool)]
        else:
            d = {"half": 0.5, "sparse": 0.15, "dense": 0.85}[mode]
            ev = [e for e in pool if rng.random() < d] or [rng.choice(pool)]
        cases.append({"src": g.program(), "events": ev, "guards": rng.random() < 0.5})
    return cases


def check(ctx, rng, n):
    """returns (number of cases, number agreeing); breaks the tie on disagreement"""
    cases = gen_cases(rng, n)
    out = []
    for i in range(0, len(cases), 40):
        r, res, o = lib.impl_run("c01_rw.py", [dict(c, no_prelude=True) for c in cases[i:i + 40]], timeout=1200)
        if res is None:
            raise RuntimeError("implementation harness failed:\n" + o[-3000:])
        out += res
    shard = 10
    texts = []
    for i in range(0, len(cases), shard):
        L = [HEADER]
        for j, (c, im) in enumerate(zip(cases[i:i + shard], out[i:i + shard])):
            if "src_tree" not in im:
                L.append("Eval vm_compute in (false, false).")
                continue
            subs = "; ".join(coq_event(e) for e in c["events"])
            L.append("Definition s%d := %s.\nDefinition o%d := %s.\nEval vm_compute in (in_frag s%d, tree_eqb (rw_module {| sub := fun e => existsb (event_eqb e) [%s] |} s%d) o%d)."
                     % (j, im["src_tree"], j, im["out_tree"], j, subs, j, j))
        texts.append(("rwfrag_%d" % i, "\n".join(L) + "\n"))
    res = lib.coq_eval_many(texts, timeout=900)
    ok, bad = 0, []
    for i in range(0, len(cases), shard):
        rc_, o = res["rwfrag_%d" % i]
        vals = lib.parse_marked(o) if rc_ == 0 else []
        chunk = cases[i:i + shard]
        if rc_ != 0 or len(vals) != len(chunk):
            bad.append({"coqc_failed": o[-800:]})
            continue
        for c, v in zip(chunk, vals):
            b = [x.strip() == "true" for x in v.strip("() ").split(",")]
            if b == [True, True]:
                ok += 1
            else:
                bad.append({"case": c, "in_frag": b[0], "equal": b[1] if len(b) > 1 else None})
    if bad:
        ctx.tie_broken("correspondence", "K-syn: the rewriter model (RwFrag.v) and the real rewriter produce different trees on %d of %d fragment programs" % (len(bad), len(cases)),
                       json.dumps(bad[0])[-2500:])
    return len(cases), ok
