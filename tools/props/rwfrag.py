# K-syn: the Gallina model of the rewriter on the fragment (model/RwFrag.v) against the real rewriter: whole-tree equality
import json

import lib

HEADER = """From Coq Require Import List ZArith NArith Bool.
Import ListNotations.
From PyccoloV Require Import gen.Events model.Tree model.Erase model.RwFrag.
Local Open Scope N_scope.
"""
FRAG_EVENTS = ["load_name", "after_int", "after_bool", "after_none", "after_string", "left_binop_arg", "right_binop_arg", "before_binop", "after_binop",
               "left_compare_arg", "compare_arg", "before_compare", "after_compare", "after_expr_stmt", "before_assign_rhs", "after_assign_rhs", "after_if_test",
               "before_stmt", "after_stmt", "after_module_stmt", "init_module", "exit_module"]


def coq_event(e):
    return "E_priv" + e if e.startswith("_") else "E_" + e


class G:
    def __init__(self, rng):
        self.rng = rng

    def atom(self):
        r = self.rng.random()
        if r < 0.4:
            return self.rng.choice(["a", "b", "c"])
        if r < 0.75:
            return str(self.rng.randrange(0, 9))
        return self.rng.choice(["True", "False", "None", "'s'"])

    def expr(self, d=0):
        r = self.rng.random()
        if d >= 3 or r < 0.3:
            return self.atom()
        if r < 0.55:
            return "(%s %s %s)" % (self.expr(d + 1), self.rng.choice(["+", "-", "*", "//", "%", "&", "|"]), self.expr(d + 1))
        if r < 0.75:
            n = self.rng.choice([1, 1, 2, 3])
            s = self.expr(d + 1)
            for _ in range(n):
                s += " %s %s" % (self.rng.choice(["<", "<=", "==", "!=", ">", "is", "is not"]), self.expr(d + 1))
            return "(%s)" % s
        if r < 0.83:
            return "(%s %s)" % (self.rng.choice(["-", "not", "+", "~"]), self.expr(d + 1))
        if r < 0.92:
            return "(%s)" % (" %s " % self.rng.choice(["and", "or"])).join(self.expr(d + 1) for _ in range(self.rng.choice([2, 3])))
        return "(%s if %s else %s)" % (self.expr(d + 1), self.expr(d + 1), self.expr(d + 1))

    def stmts(self, depth, n):
        out = []
        for _ in range(n):
            r = self.rng.random()
            if r < 0.35:
                out.append("%s = %s" % (" = ".join(self.rng.sample(["a", "b", "c"], self.rng.choice([1, 1, 2]))), self.expr()))
            elif r < 0.6:
                out.append(self.expr())
            elif r < 0.7:
                out.append("pass")
            elif depth < 2:
                out.append("if %s:" % self.expr())
                out += ["    " + l for l in self.stmts(depth + 1, self.rng.choice([1, 2]))]
                if self.rng.random() < 0.5:
                    out.append("else:")
                    out += ["    " + l for l in self.stmts(depth + 1, self.rng.choice([1, 2]))]
            else:
                out.append(self.expr())
        return out

    def program(self, doc=False, look_alike=True):
        # doc: a module docstring (kept as written, first, with no events of its own) and a string statement that is none
        return ("'d'\n" if doc else "") + "a = 1\nb = 2\nc = 3\n" + ("'s'\n" if doc and look_alike else "") + "\n".join(self.stmts(0, self.rng.choice([1, 2, 3, 4]))) + "\n"


def gen_cases(rng, n):
    import random
    cases = []
    pool = FRAG_EVENTS
    for i in range(n):
        g = G(random.Random(rng.random()))
        mode = rng.choice(["all", "single", "half", "sparse", "dense"])
        if mode == "all":
            ev = list(pool)
        elif mode == "single":
            ev = [rng.choice(pool)]
        else:
            d = {"half": 0.5, "sparse": 0.15, "dense": 0.85}[mode]
            ev = [e for e in pool if rng.random() < d] or [rng.choice(pool)]
        cases.append({"src": g.program(doc=rng.random() < 0.2), "events": ev, "guards": rng.random() < 0.5})
    return cases


def check(ctx, rng, n):
    """returns (number of cases, number agreeing); breaks the tie on disagreement"""
    cases = gen_cases(rng, n)
    out = []
    for i in range(0, len(cases), 40):
        r, res, o = lib.impl_run("c01_rw.py", [dict(c, no_prelude=True) for c in cases[i:i + 40]], timeout=1200)
        if res is None:
            raise RuntimeError("implementation harness failed:\n" + o[-3000:])
        out += res
    shard = 10
    texts = []
    for i in range(0, len(cases), shard):
        L = [HEADER]
        for j, (c, im) in enumerate(zip(cases[i:i + shard], out[i:i + shard])):
            if "src_tree" not in im:
                L.append("Eval vm_compute in (false, false).")
                continue
            subs = "; ".join(coq_event(e) for e in c["events"])
            L.append("Definition s%d := %s.\nDefinition o%d := %s.\nEval vm_compute in (in_frag s%d, tree_eqb (rw_module {| sub := fun e => existsb (event_eqb e) [%s] |} s%d) o%d)."
                     % (j, im["src_tree"], j, im["out_tree"], j, subs, j, j))
        texts.append(("rwfrag_%d" % i, "\n".join(L) + "\n"))
    res = lib.coq_eval_many(texts, timeout=900)
    ok, bad = 0, []
    for i in range(0, len(cases), shard):
        rc_, o = res["rwfrag_%d" % i]
        vals = lib.parse_marked(o) if rc_ == 0 else []
        chunk = cases[i:i + shard]
        if rc_ != 0 or len(vals) != len(chunk):
            bad.append({"coqc_failed": o[-800:]})
            continue
        for c, v in zip(chunk, vals):
            b = [x.strip() == "true" for x in v.strip("() ").split(",")]
            if b == [True, True]:
                ok += 1
            else:
                bad.append({"case": c, "in_frag": b[0], "equal": b[1] if len(b) > 1 else None})
    if bad:
        ctx.tie_broken("correspondence", "K-syn: the rewriter model (RwFrag.v) and the real rewriter produce different trees on %d of %d fragment programs" % (len(bad), len(cases)),
                       json.dumps(bad[0])[-2500:])
    return len(cases), ok


# ---------------------------------------------------------------- K-sem: model/FragSem.v against CPython + the real runtime
SEM_HEADER = """From Coq Require Import List ZArith NArith Bool.
Import ListNotations.
From PyccoloV Require Import gen.Events model.Tree model.Erase model.RwFrag model.FragSem.
Local Open Scope N_scope.
Definition encv (v : val) : Z * Z := match v with VInt z => (0, z) | VBool b => (1, if b then 1 else 0) | VNone => (2, 0) | VStr s => (3, Z.of_N s) | VFun _ | VBuiltin _ => (4, 0) | VRange _ _ => (9, 0) end%Z.
Definition enco (o : option val) : Z * Z := match o with Some v => encv v | None => (4, 0)%Z end.
Definition ence (en : entry) := (event_idx (fst (fst en)), snd (fst en), enco (snd en)).
Definition encx (x : option exc) : N := match x with None => 0 | Some ENameError => 1 | Some ETypeError => 2 | Some EZeroDiv => 3 end.
Definition encenv (r : env) (names : list N) := map (fun x => match r x with Some v => encv v | None => (5, 0)%Z end) names.
Definition one (c : rcfg) (names : list N) (s o : tree) :=
  match of_module s with
  | None => None
  | Some m =>
      let im := instr_module c m in
      let a := exec_l Py.binop Py.cmpop Py.unop Py.truth Py.cval Py.is_and im (fun _ => None) VNone in
      let rf := ref_module Py.binop Py.cmpop Py.unop Py.truth Py.cval Py.is_and m (fun _ => None) in
      Some (tree_eqb (tt_module im) o && tree_eqb (tt_module im) (rw_module c s),
            (encx (s_exc a), encenv (s_env a) names, map ence (filter_log c (s_log a))),
            (encx (r_exc rf), encenv (r_env rf) names, map ence (filter_log c (r_log rf))))
  end.
"""


class GSem(G):
    """programs whose values stay within ints / bools / None: the Python-like instance of FragSem.v is exact on them"""

    def atom(self):
        r = self.rng.random()
        if r < 0.4:
            return self.rng.choice(["a", "b", "c", "a", "b", "c", "d", "zz"] if self.rng.random() < 0.08 else ["a", "b", "c"])
        if r < 0.88:
            return str(self.rng.choice([0, 1, 1, 2, 2, 3, 4, 5, 7]))
        return self.rng.choice(["True", "False", "True", "False", "None"])

    def expr(self, d=0):
        r = self.rng.random()
        if d >= 3 or r < 0.3:
            return self.atom()
        if r < 0.55:
            return "(%s %s %s)" % (self.expr(d + 1), self.rng.choice(["+", "-", "*", "//", "%", "&", "|"]), self.expr(d + 1))
        if r < 0.75:
            n = self.rng.choice([1, 1, 2, 3])
            s = self.expr(d + 1)
            for _ in range(n):
                s += " %s %s" % (self.rng.choice(["<", "<=", "==", "!=", ">", ">="]), self.expr(d + 1))
            return "(%s)" % s
        if r < 0.83:
            return "(%s %s)" % (self.rng.choice(["-", "not", "+"]), self.expr(d + 1))
        if r < 0.92:
            return "(%s)" % (" %s " % self.rng.choice(["and", "or"])).join(self.expr(d + 1) for _ in range(self.rng.choice([2, 3])))
        return "(%s if %s else %s)" % (self.expr(d + 1), self.expr(d + 1), self.expr(d + 1))

    def stmts(self, depth, n):
        out = []
        for _ in range(n):
            r = self.rng.random()
            if r < 0.4:
                out.append("%s = %s" % (" = ".join(self.rng.sample(["a", "b", "c", "d"], self.rng.choice([1, 1, 2]))), self.expr()))
            elif r < 0.6:
                out.append(self.expr())
            elif r < 0.68:
                out.append("pass")
            elif depth < 2:
                out.append("if %s:" % self.expr())
                out += ["    " + l for l in self.stmts(depth + 1, self.rng.choice([1, 2]))]
                if self.rng.random() < 0.5:
                    out.append("else:")
                    out += ["    " + l for l in self.stmts(depth + 1, self.rng.choice([1, 2]))]
            else:
                out.append(self.expr())
        return out


EXC = {None: 0, "NameError": 1, "TypeError": 2, "ZeroDivisionError": 3}


def enc_val(v):
    k = v[0]
    if k == "none":
        return (2, 0)
    if k == "bool":
        return (1, 1 if v[1] else 0)
    if k == "int":
        return (0, v[1])
    if k == "callable":
        return (4, 0)
    return (9, 0)


def check_sem(ctx, rng, n):
    """returns (cases, agreeing, distribution); breaks the tie on disagreement"""
    import random
    ev_idx = {e: i for i, e in enumerate(json.load(open(lib.os.path.join(lib.VERIF, "coq", "gen", "events.json")))["events"])}
    cases = []
    for i in range(n):
        g = GSem(random.Random(rng.random()))
        mode = rng.choice(["all", "single", "half", "sparse", "dense"])
        if mode == "all":
            ev = list(FRAG_EVENTS)
        elif mode == "single":
            ev = [rng.choice(FRAG_EVENTS)]
        else:
            d = {"half": 0.5, "sparse": 0.15, "dense": 0.85}[mode]
            ev = [e for e in FRAG_EVENTS if rng.random() < d] or [rng.choice(FRAG_EVENTS)]
        cases.append({"src": g.program(doc=rng.random() < 0.2, look_alike=False), "events": ev, "guards": rng.random() < 0.5})   # values stay ints / bools / None
    out = []
    for i in range(0, len(cases), 40):
        r, res, o = lib.impl_run("c01_sem.py", cases[i:i + 40], timeout=1200)
        if res is None:
            raise RuntimeError("implementation harness failed:\n" + o[-3000:])
        out += res
    shard = 10
    texts = []
    NAMES = ["a", "b", "c", "d"]
    for i in range(0, len(cases), shard):
        L = [SEM_HEADER]
        for j, (c, im) in enumerate(zip(cases[i:i + shard], out[i:i + shard])):
            if "src_tree" not in im:
                L.append("Eval vm_compute in (@None nat).")
                continue
            subs = "; ".join(coq_event(e) for e in c["events"])
            names = "; ".join(str(im["names"].get(x, 99)) for x in NAMES)
            L.append("Definition s%d := %s.\nDefinition o%d := %s.\nEval vm_compute in one {| sub := fun e => existsb (event_eqb e) [%s] |} [%s] s%d o%d."
                     % (j, im["src_tree"], j, im["out_tree"], subs, names, j, j))
        texts.append(("fragsem_%d" % i, "\n".join(L) + "\n"))
    res = lib.coq_eval_many(texts, timeout=900)
    ok, bad = 0, []
    dist = {"raising": 0, "log_entries": 0, "exceptions": {}}
    for i in range(0, len(cases), shard):
        rc_, o = res["fragsem_%d" % i]
        vals = lib.parse_marked(o) if rc_ == 0 else []
        chunk = cases[i:i + shard]
        if rc_ != 0 or len(vals) != len(chunk):
            bad.append({"coqc_failed": o[-800:]})
            continue
        for c, v, im in zip(chunk, vals, out[i:i + shard]):
            if "crash" in im:
                bad.append({"case": c, "crash": im["crash"]})
                continue
            p = lib.parse_coq_list(v)
            if not (isinstance(p, tuple) and p[0] == "Some"):
                bad.append({"case": c, "model": "of_module failed: the program is outside the fragment", "printed": v[:200]})
                continue
            same_tree, (mx, menv, mlog), (rx, renv, rlog) = p[1]
            impl_log = [(ev_idx[e], nid) + enc_val(val) for e, nid, val in im["log"]]
            impl_env = [enc_val(im["bindings"][x]) if x in im["bindings"] else (5, 0) for x in NAMES]
            plain_env = [enc_val(im["plain_bindings"][x]) if x in im["plain_bindings"] else (5, 0) for x in NAMES]
            mlog_ = [(e, nid) + tuple(val) for e, nid, val in mlog]
            rlog_ = [(e, nid) + tuple(val) for e, nid, val in rlog]
            problems = []
            if same_tree is not True:
                problems.append("tt_module (instr_module c m) differs from the real rewriter's output or from rw_module c (source tree) of model/RwFrag.v")
            if EXC.get(im["exc"], 9) != mx or [tuple(x) for x in menv] != impl_env or mlog_ != impl_log:
                problems.append("evaluation of the instrumented term differs from the real run (exception / bindings / event stream)")
            if EXC.get(im["plain_exc"], 9) != rx or [tuple(x) for x in renv] != plain_env:
                problems.append("reference evaluation of the source differs from plain CPython")
            if rlog_ != impl_log:
                problems.append("reference event stream differs from the stream the real tracer recorded")
            if problems:
                bad.append({"case": c, "problems": problems, "impl": {"exc": im["exc"], "env": impl_env, "log": impl_log[:40]},
                            "model": {"exc": mx, "env": menv, "log": mlog_[:40]}, "ref": {"exc": rx, "env": renv, "log": rlog_[:40]}})
            else:
                ok += 1
                dist["log_entries"] += len(impl_log)
                if im["exc"]:
                    dist["raising"] += 1
                    dist["exceptions"][im["exc"]] = dist["exceptions"].get(im["exc"], 0) + 1
    if bad:
        ctx.tie_broken("correspondence", "K-sem: model/FragSem.v (typed rewriter, evaluation under observing handlers, reference stream) and the real "
                       "rewriter / CPython disagree on %d of %d fragment programs" % (len(bad), len(cases)), json.dumps(bad[0])[-3500:])
    return len(cases), ok, dist
