# K-prog: model/FragProg.v (loops AND functions: while / break / continue / def / return / calls, test, body and function guards) against the
# real rewriter, CPython and the real runtime, with handlers that activate / deactivate guards by rule
import json
import random

import lib
from props import rwfrag, fragfun

PROG_EVENTS = fragfun.FUN_EVENTS + ["before_while_loop_body", "after_while_loop_iter", "after_while_test", "before_for_iter", "after_for_iter", "before_for_loop_body", "after_for_loop_iter"]
NAMES = ["a", "b", "c", "d", "r", "i", "j", "f", "g", "h"]
EXC = fragfun.EXC
DEPTH = 40
FUEL = 60

HEADER = """From Coq Require Import List ZArith NArith Bool Arith.
Import ListNotations.
From PyccoloV Require Import gen.Ids gen.Events model.Tree model.Erase model.RwFrag model.FragSem model.FragFun model.FragProg proofs.FragProgProofs.
Local Open Scope N_scope.
Definition encv (v : val) : Z * Z := match v with VInt z => (0, z) | VBool b => (1, if b then 1 else 0) | VNone => (2, 0) | VStr s => (3, Z.of_N s) | VFun _ | VBuiltin _ => (4, 0) | VRange _ _ => (9, 0) end%Z.
Definition enco (o : option val) : Z * Z := match o with Some v => encv v | None => (4, 0)%Z end.
Definition ence (en : entry) := (event_idx (fst (fst en)), snd (fst en), enco (snd en)).
Definition encx (x : option pexc) : N :=
  match x with None => 0 | Some (PO (FX ENameError)) => 1 | Some (PO (FX ETypeError)) => 2 | Some (PO (FX EZeroDiv)) => 3 | Some (PO FFuel) => 8 | Some (PO (FRet _)) => 6 | Some PBrk => 10 | Some PCnt => 11 end.
Definition encenv (r : env) (names : list N) := map (fun x => match r x with Some v => encv v | None => (5, 0)%Z end) names.
Definition guard_eqb (a b : guard) : bool :=
  match a, b with GTest n, GTest m | GBody n, GBody m | GFun n, GFun m | GFBody n, GFBody m => N.eqb n m | _, _ => false end.
Definition env0 : env := fun x => if N.eqb x id_range then Some (VBuiltin 0) else None.      (* the builtins of the fragment *)
Definition mkpol (rules : list (nat * bool * guard)) (log : list entry) (g : guard) : bool :=
  fold_left (fun acc rule => let '(k, b, g') := rule in if Nat.leb k (length log) && guard_eqb g g' then b else acc) rules true.
Notation X := (prun Py.binop Py.cmpop Py.unop Py.truth Py.cval Py.is_and).
Definition one (c : rcfg) (ge : bool) (rules : list (nat * bool * guard)) (names : list N) (s o : tree) :=
  match of_pmodule s with
  | None => None
  | Some m =>
      let im := pinstr_module c ge m in
      let a := X c (mkpol rules) FUELnat DEPTHnat im env0 VNone in
      let p := X c (mkpol rules) FUELnat DEPTHnat m env0 VNone in
      let rf := pref_module Py.binop Py.cmpop Py.unop Py.truth Py.cval Py.is_and c (mkpol rules) FUELnat ge DEPTHnat m env0 in
      Some (tree_eqb (tp_module im) o && forallb psrc_t m,
            (encx (p_exc a), encenv (p_env a) names, map ence (filter_log c (p_log a))),
            (encx (pr_exc rf), encenv (pr_env rf) names, map ence (filter_log c (pr_log rf))),
            (encx (p_exc p), encenv (p_env p) names))
  end.
""".replace("DEPTHnat", "%d%%nat" % DEPTH).replace("FUELnat", "%d%%nat" % FUEL)


class GProg(fragfun.GFun):
    """functions whose bodies contain loops (with break / continue / return inside), module-level loops that call functions"""

    def loop(self, depth, var, infun):
        k = self.rng.choice([1, 2, 2, 3])
        self.in_loop = getattr(self, "in_loop", 0) + 1
        body = self.stmts(depth + 1, self.rng.choice([1, 2]), infun, loops=(var == "i"))
        self.in_loop -= 1
        if self.rng.random() < 0.45:
            # a for loop over a range (sometimes over something that is not iterable, or an empty range)
            it = self.rng.choice(["range(%d)" % k, "range(%d)" % k, "range(%d)" % k, "range(1, %d)" % (k + 1), "range(%s)" % self.expr(2), "range(0)", self.expr(2)])
            out = ["for %s in %s:" % (var, it)] + ["    " + l for l in body]
        else:
            out = ["%s = 0" % var, "while %s < %d:" % (var, k), "    %s = %s + 1" % (var, var)] + ["    " + l for l in body]
        if self.rng.random() < 0.3:
            out += ["else:"] + ["    " + l for l in self.stmts(depth + 1, 1, infun, loops=False)]
        return out

    def stmts(self, depth, n, infun=False, loops=True):
        out = []
        for _ in range(n):
            r = self.rng.random()
            if getattr(self, "in_loop", 0) and r < 0.16:
                kw = self.rng.choice(["break", "continue"] + (["return %s" % self.expr(2), "return"] if infun else []))
                if self.rng.random() < 0.75:
                    out += ["if %s:" % self.expr(1), "    " + kw]
                else:
                    out.append(kw)
            elif loops and r < 0.36 and depth <= 2 and getattr(self, "in_loop", 0) < 2:
                out += self.loop(depth, "i" if getattr(self, "in_loop", 0) == 0 else "j", infun)
            elif r < 0.62:
                pool = ["d", "r", "d", "r", "d", "r", "d", "r", "a", "b"] if infun else ["a", "b", "c", "d", "r"]
                out.append("%s = %s" % (" = ".join(sorted(set(self.rng.sample(pool, self.rng.choice([1, 1, 2]))))), self.rhs()))
            elif r < 0.74:
                out.append(self.rhs())
            elif r < 0.78:
                out.append("pass")
            elif infun and r < 0.85:
                out.append(self.rng.choice(["return", "return %s" % self.expr(1), "return %s" % self.rhs()]))
            elif depth < 2:
                out.append("if %s:" % self.expr(1))
                out += ["    " + l for l in self.stmts(depth + 1, self.rng.choice([1, 2]), infun, loops=False)]
                if self.rng.random() < 0.5:
                    out.append("else:")
                    out += ["    " + l for l in self.stmts(depth + 1, self.rng.choice([1, 2]), infun, loops=False)]
            else:
                out.append(self.rhs())
        return out

    def fundef(self, name):
        ar = self.rng.choice([0, 1, 1, 2])
        params = ["p", "q"][:ar]
        saved = self.vars
        self.vars = ["a", "b", "c"] + params * 2
        saved_loop = getattr(self, "in_loop", 0)
        self.in_loop = 0
        body = self.stmts(1, self.rng.choice([1, 2, 3]), infun=True)
        self.in_loop = saved_loop
        if self.rng.random() < 0.85:
            body.append("return %s" % self.rhs())
        self.vars = saved
        self.callable.append((name, ar))
        return ["def %s(%s):" % (name, ", ".join(params))] + ["    " + l for l in body]

    def recdef(self):
        saved = self.vars
        self.vars = ["a", "b", "p", "p"]
        pre = self.stmts(1, self.rng.choice([0, 1]), infun=False)
        self.vars = saved
        body = ["if p <= 0:", "    return %s" % self.rng.choice(["0", "1", "a", "None"])] + pre + \
               [self.rng.choice(["d = h(p - 1)", "return h(p - 1)", "h(p - 1)", "d = h(p - 2)"])] + \
               self.rng.choice([["return d"], ["return p"], [], ["return (d + p)"]])
        self.callable.append(("h", 1))
        return ["def h(p):"] + ["    " + l for l in body]


def gen_cases(rng, n):
    cases = []
    specials = [e for e in PROG_EVENTS if e not in rwfrag.FRAG_EVENTS]
    for i in range(n):
        g = GProg(random.Random(rng.random()))
        mode = rng.choice(["all", "single", "half", "sparse", "dense", "brackets"])
        if mode == "all":
            ev = list(PROG_EVENTS)
        elif mode == "single":
            ev = [rng.choice(PROG_EVENTS)]
        elif mode == "brackets":
            ev = [e for e in specials if rng.random() < 0.7] + [e for e in rwfrag.FRAG_EVENTS if rng.random() < 0.25]
        else:
            d = {"half": 0.5, "sparse": 0.15, "dense": 0.85}[mode]
            ev = [e for e in PROG_EVENTS if rng.random() < d]
        ev = ev or [rng.choice(PROG_EVENTS)]
        rules = []
        for _ in range(rng.choice([0, 1, 2, 3, 4, 5])):
            rules.append([rng.randrange(1, 60), rng.random() < 0.3, rng.choice(["test", "body", "body", "fun", "fun", "fbody", "fbody"]), rng.randrange(0, 4)])
        cases.append({"src": g.program(), "events": ev, "guards": rng.random() < 0.75, "rules": rules, "frag": "prog"})
    return cases


def resolve_rules(c):
    """rule ordinals -> traversal indices of the while / def nodes of the source (computed from the source text alone)"""
    import ast
    order = []

    def trav(n):
        order.append(n)
        for _, f in ast.iter_fields(n):
            if isinstance(f, ast.AST):
                trav(f)
            elif isinstance(f, list):
                for x in f:
                    if isinstance(x, ast.AST):
                        trav(x)
    trav(ast.parse(c["src"]))
    whiles = [i for i, n in enumerate(order) if isinstance(n, ast.While)]
    fors = [i for i, n in enumerate(order) if isinstance(n, ast.For)]
    defs = [i for i, n in enumerate(order) if isinstance(n, ast.FunctionDef)]
    out = []
    for k, on, kind, w in c["rules"]:
        pool = defs if kind == "fun" else (fors if kind == "fbody" else whiles)
        if pool:
            out.append([k, on, kind, pool[w % len(pool)]])
    return sorted(out, key=lambda x: x[0])


GCON = {"test": "GTest", "body": "GBody", "fun": "GFun", "fbody": "GFBody"}


def check(ctx, rng, n, extra_cases=()):
    ev_idx = {e: i for i, e in enumerate(json.load(open(lib.os.path.join(lib.VERIF, "coq", "gen", "events.json")))["events"])}
    cases = gen_cases(rng, n)
    for c in cases:
        c["rules"] = resolve_rules(c)
    cases = [dict(x) for x in extra_cases] + cases
    out = []
    for i in range(0, len(cases), 40):
        r, res, o = lib.impl_run("c10_prog.py", cases[i:i + 40], timeout=1200)
        if res is None:
            raise RuntimeError("implementation harness failed:\n" + o[-3000:])
        out += res
    shard = 8
    texts = []
    for i in range(0, len(cases), shard):
        L = [HEADER]
        for j, (c, im) in enumerate(zip(cases[i:i + shard], out[i:i + shard])):
            if "src_tree" not in im:
                L.append("Eval vm_compute in (@None nat).")
                continue
            subs = "; ".join(rwfrag.coq_event(e) for e in c["events"])
            names = "; ".join(str(im["names"].get(x, 99)) for x in NAMES)
            rules = "; ".join("(%d%%nat, %s, %s %d)" % (k, "true" if on else "false", GCON[kind], nn) for k, on, kind, nn in c["rules"])
            L.append("Definition s%d := %s.\nDefinition o%d := %s.\nEval vm_compute in one {| sub := fun e => existsb (event_eqb e) [%s] |} %s [%s] [%s] s%d o%d."
                     % (j, im["src_tree"], j, im["out_tree"], subs, "true" if c["guards"] else "false", rules, names, j, j))
        texts.append(("fragprog_%d" % i, "\n".join(L) + "\n"))
    res = lib.coq_eval_many(texts, timeout=900)
    ok, bad, violations = 0, [], []
    dist = {"raising": 0, "log_entries": 0, "guards_enabled": 0, "rules": 0, "rules_fired": 0, "exceptions": {},
            "programs_with_recursion": sum(1 for c in cases if "def h" in c["src"]),
            "programs_with_loop_in_function": sum(1 for c in cases if "\n    while" in c["src"] or "\n        while" in c["src"]),
            "programs_with_for": sum(1 for c in cases if "for " in c["src"]), "programs_with_break": sum(1 for c in cases if "break" in c["src"]), "programs_with_continue": sum(1 for c in cases if "continue" in c["src"])}
    for i in range(0, len(cases), shard):
        rc_, o = res["fragprog_%d" % i]
        vals = lib.parse_marked(o) if rc_ == 0 else []
        chunk = cases[i:i + shard]
        if rc_ != 0 or len(vals) != len(chunk):
            bad.append({"coqc_failed": o[-1200:]})
            continue
        for c, v, im in zip(chunk, vals, out[i:i + shard]):
            if "crash" in im:
                bad.append({"case": c, "crash": im["crash"], "tb": im.get("tb")})
                continue
            p = lib.parse_coq_list(v)
            if not (isinstance(p, tuple) and p[0] == "Some"):
                bad.append({"case": c, "model": "of_pmodule failed: the program is outside the fragment", "printed": v[:200]})
                continue
            same_tree, (mx, menv, mlog), (rx, renv, rlog), (px, penv) = p[1]
            impl_log = [(ev_idx[e], nid) + rwfrag.enc_val(val) for e, nid, val in im["log"]]
            impl_env = [rwfrag.enc_val(im["bindings"][x]) if x in im["bindings"] else (5, 0) for x in NAMES]
            plain_env = [rwfrag.enc_val(im["plain_bindings"][x]) if x in im["plain_bindings"] else (5, 0) for x in NAMES]
            mlog_ = [(e, nid) + tuple(val) for e, nid, val in mlog]
            rlog_ = [(e, nid) + tuple(val) for e, nid, val in rlog]
            problems = []
            if EXC.get(im["exc"], 9) != rx or [tuple(x) for x in renv] != impl_env or rlog_ != impl_log:
                k = next((t for t, (x, y) in enumerate(zip(rlog_ + [None] * len(impl_log), impl_log + [None] * len(rlog_))) if x != y), None)
                violations.append({"what": "real run under the guard schedule differs from the reference (source semantics + event stream gated by the loop and function guards): "
                                           "exception %s vs %s, bindings equal: %s, first stream difference at %s" % (im["exc"], rx, [tuple(x) for x in renv] == impl_env, k),
                                   "case": c, "expected_at": rlog_[k:k + 3] if k is not None else None, "observed_at": impl_log[k:k + 3] if k is not None else None,
                                   "guards_found": im.get("guards_found"), "kind": "guards"})
                continue
            if same_tree is not True:
                problems.append("tp_module (pinstr_module c ge m) differs from the real rewriter's output, or the program read off the source tree does not satisfy the "
                                "theorems' hypothesis forallb psrc_t")
            if EXC.get(im["exc"], 9) != mx or [tuple(x) for x in menv] != impl_env or mlog_ != impl_log:
                problems.append("evaluation of the instrumented term under the guard policy differs from the real run (exception / bindings / event stream)")
            if EXC.get(im["plain_exc"], 9) != px or [tuple(x) for x in penv] != plain_env:
                problems.append("evaluation of the source term differs from plain CPython")
            if problems:
                bad.append({"case": c, "problems": problems, "impl": {"exc": im["exc"], "env": impl_env, "log": impl_log[:80]},
                            "model": {"exc": mx, "env": menv, "log": mlog_[:80]}, "ref": {"exc": rx, "env": renv, "log": rlog_[:80]},
                            "plain": {"impl": [im["plain_exc"], plain_env], "model": [px, penv]}})
            else:
                ok += 1
                dist["log_entries"] += len(impl_log)
                if im["exc"]:
                    dist["raising"] += 1
                    dist["exceptions"][im["exc"]] = dist["exceptions"].get(im["exc"], 0) + 1
                dist["guards_enabled"] += 1 if c["guards"] else 0
                dist["rules"] += len(c["rules"])
                dist["rules_fired"] += sum(1 for r_ in c["rules"] if c["guards"] and r_[0] <= len(impl_log))
    if bad:
        ctx.tie_broken("correspondence", "K-prog: model/FragProg.v (rewriter on loops and functions, guards, evaluation under a guard policy, gated reference stream) and the "
                       "real rewriter / CPython / runtime disagree on %d of %d programs" % (len(bad), len(cases)), json.dumps(bad[0])[-5000:])
    return len(cases), ok, dist, violations


def run_into(ctx, rng, r, n):
    ok3, out3 = lib.coq_make(["model/FragProg.vo", "proofs/FragProgProofs.vo"])
    if not ok3:
        ctx.tie_broken("correspondence", "model/FragProg.v / proofs/FragProgProofs.v do not build", out3)
        return
    extra = [dict(x) for x in getattr(ctx, "known_replays", []) + getattr(ctx, "fixed_replays", []) if x.get("frag") == "prog"]
    nf, okf, distf, viol = check(ctx, rng, n, extra_cases=extra)
    for f in viol[:2]:
        f.update({"signature": "unlisted", "kind_": "oracle", "harness": "c10_prog.py"})
        r["failures"].append(f)
    r["evaluations"] = r.get("evaluations", 0) + nf
    r["traces_validated"] = r.get("traces_validated", 0) + okf
    r.setdefault("distribution", {})
    r["distribution"]["k_prog_programs"] = nf
    r["distribution"]["k_prog_agreeing"] = okf
    r["distribution"]["k_prog_detail"] = distf
    r["rule"] = r.get("rule", "") + ("; K-prog: %d generated programs mixing loops and functions (while loops with else / break / continue inside function bodies, return from inside "
                                     "loops, module-level loops calling functions, a recursive function, wrong arity / uncallable / unbound callees) x event subsets incl. the "
                                     "thirteen loop / function / call / argument / return events x global guards on 75%% x 0-5 guard rules over test, body and function guards: whole "
                                     "tree, exception, bindings and stream vs model/FragProg.v, hypothesis psrc_t computed; the stream vs the gated reference is the oracle" % nf)


def replay_case(case):
    class _Quiet:
        def tie_broken(self, *a, **k):
            pass
    _, _, _, viol = check(_Quiet(), random.Random(0), 0, extra_cases=[case])
    return viol[0] if viol else None
