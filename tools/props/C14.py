# C14 - K-aug: model/Augment.v vs syntax_augmentation.py; oracle = textual replacement + placement record
import json

import lib

ID = "C14"
PROP_FILE = "props/C14.v"
COQ_TARGETS = ["props/C14.v"]
THEOREMS = ["C14_text_self_identity", "C14_text_no_occurrence", "C14_cols_partial", "C14_cols_refuted", "C14_cols_tie_refuted"]
TRUSTED_BASE = [
    "Coq 8.16.1 kernel, vm_compute for the in-coqc correspondence",
    "model/Augment.v: hand transcription of replace_tokens_and_get_augmented_positions and fix_positions, tied by K-aug; Python's tokenizer "
    "output is an input of the model",
    "tools/props/C14.py generator (keeps the record of where tokens are placed), tools/impl/c14_aug.py harness",
]
ASSUMPTIONS = [
    "canonical spacing (no space between an augmentation token and the name it decorates, single spaces around binary operators)",
    "spec tokens do not contain one another; parser column conventions of CPython 3.12 (node col_offset / end_col_offset) are inputs",
]
SPECS = [{"kind": "prefix", "token": "!", "repl": ""}, {"kind": "suffix", "token": "$$", "repl": ""},
         {"kind": "dot", "token": "?.", "repl": "."}, {"kind": "binop", "token": "++", "repl": "+"},
         {"kind": "binop", "token": "|>", "repl": "<<"}]


def gen_case(rng):
    k = rng.choice([1, 2, 2, 3, 3, 4])
    specs = rng.sample(SPECS[:4], min(k, 4))
    if rng.random() < 0.25:
        specs = [s for s in specs if s["kind"] != "binop"] + [SPECS[4]]
    rng.shuffle(specs)
    have = {s["kind"]: s for s in specs}
    binops = [s for s in specs if s["kind"] == "binop"]
    lines, placed = [], []          # placed: (token, ident, line)
    vid = [0]

    def name():
        vid[0] += 1
        return "v%d" % vid[0]

    nlines = rng.choice([1, 1, 2, 3])
    shape = rng.choice(["plain", "plain", "layout", "layout", "layout"])      # layout: the shapes of round 5's hunt (section 7 C14)
    for ln in range(1, nlines + 1):
        terms = []
        nterms = rng.choice([1, 2, 3, 4])
        prev_name = None
        line = "z%d = " % ln
        if shape == "layout" and rng.random() < 0.3:
            line = "z%d = ('\u00e9\u00e9', " % ln              # non-ASCII characters earlier on the line: columns in characters vs bytes
            nterms = 1
        for ti in range(nterms):
            v = name()
            r = rng.random()
            term = v
            tail_ident = v
            if shape == "layout" and rng.random() < 0.25 and ("dot" in have or "suffix" in have):
                # a parenthesized object: the token stands after the closing parenthesis
                if "dot" in have and (rng.random() < 0.6 or "suffix" not in have):
                    term = "(%s)" % v + have["dot"]["token"] + "at"
                    placed.append((have["dot"]["token"], "A:%s.at" % v, ln))
                    tail_ident = "at"
                else:
                    term = "(%s).at" % v + have["suffix"]["token"]
                    placed.append((have["suffix"]["token"], "A:%s.at" % v, ln))
                    tail_ident = "at"
                if ti > 0:
                    line += " + "
                line += term
                prev_tail = tail_ident
                continue
            if r < 0.3 and "prefix" in have:
                term = have["prefix"]["token"] + v
                placed.append((have["prefix"]["token"], "N:" + v, ln))
            elif r < 0.55 and "suffix" in have:
                term = v + have["suffix"]["token"]
                placed.append((have["suffix"]["token"], "N:" + v, ln))
            elif r < 0.8 and "dot" in have:
                term = v + have["dot"]["token"] + "at"
                placed.append((have["dot"]["token"], "A:%s.at" % v, ln))
                tail_ident = "at"
            elif r < 0.9:
                term = v + ".at"
                tail_ident = "at"
            if ti > 0:
                if binops and rng.random() < 0.5:
                    b = rng.choice(binops)
                    line += " %s " % b["token"]
                    placed.append((b["token"], "B:" + prev_tail, ln))
                else:
                    line += " + "
            line += term
            prev_tail = tail_ident
        if line.startswith("z%d = ('" % ln):
            line += ")"
        if rng.random() < 0.2:
            line += "  # " + "".join(s["token"] for s in specs) + " x"
        lines.append(line)
        if rng.random() < 0.2:
            lines.append('s%d = "a%sb"' % (ln, specs[0]["token"]))
            nlines += 0
    # line numbers of placed must account for inserted string lines
    src_lines, remap, cur = [], {}, 0
    logical = 0
    indent = ""
    if shape == "layout":
        pre = rng.choice(["block", "tabs", "fstring", "continuation", "mlstring", "none"])
        if pre in ("block", "tabs"):
            indent = "\t" if pre == "tabs" else "    "
            src_lines += ["if True:", indent + "q0 = 0"]                 # the z-lines follow as 2nd, 3rd ... statements of the block
        elif pre == "fstring":
            src_lines += ['f0 = f"{{x}} %s{{}}"' % specs[0]["token"]]     # escaped braces and the token as literal text of an f-string
            # ... and literal parts that ARE a token, whole (Python >= 3.12: a literal part is a token of its own, without quotes)
            tk = rng.choice(specs)["token"]
            src_lines += rng.choice([['f1 = f"%s"' % tk], ['f1 = f"{v1}%s{v2}"' % tk], ['f1 = f"%s{v1}"' % tk, 'f2 = f"{v1}%s"' % specs[-1]["token"]]])
        elif pre == "continuation":
            src_lines += ["c0 = 1 + \\", "    2"]                        # a backslash continuation before the occurrences
        elif pre == "mlstring":
            src_lines += ['m0 = """a %s' % specs[0]["token"], '   b"""']
        cur = len(src_lines)
    for l in lines:
        cur += 1
        src_lines.append(indent + l if l.startswith(("z", "s")) else l)
        if l.startswith("z"):
            logical += 1
            remap[logical] = cur
    placed = sorted([tok, idn, remap[ln]] for tok, idn, ln in placed)
    return {"src": "\n".join(src_lines) + "\n", "specs": specs, "placed": placed}


def textual(case):
    """the property's reference: replace every occurrence in code, spec after spec (never in strings or comments)"""
    import io
    import tokenize

    text = case["src"]
    for sp in case["specs"]:
        out_lines = []
        for line in text.splitlines(keepends=True):
            # protect string literals and comments
            code, rest = line, ""
            if "#" in line and '"' not in line.split("#")[0]:
                code, rest = line.split("#", 1)
                rest = "#" + rest
            if '"' in code:
                out_lines.append(line)
                continue
            out_lines.append(code.replace(sp["token"], sp["repl"]) + rest)
        text = "".join(out_lines)
    return text


def run_impl(cases):
    out = []
    for i in range(0, len(cases), 100):
        rc, res, o = lib.impl_run("c14_aug.py", cases[i:i + 100], timeout=900)
        if res is None:
            raise RuntimeError("implementation harness failed:\n" + o[-3000:])
        out += res
    return out


def recorded_order_ok(case, im):
    """does sorting the recorded (column, spec) pairs of a line keep the true left-to-right order, without ties?
    true order = order of the occurrences in the original source line"""
    # occurrence positions in the original source, per line: scan for tokens
    res = {"misorder": False, "tie": False}
    rec = {}
    for k, p in enumerate(im["passes"]):
        for line, col in p["positions"]:
            rec.setdefault(line, []).append((col, k))
    for line, lst in rec.items():
        cols = [c for c, _ in lst]
        if len(set(cols)) != len(cols):
            res["tie"] = True
    # misorder: compare with truth by final columns when available
    if "fixed" in im:
        pass
    return res


def oracle_case(c, im):
    if "crash" in im:
        return {"what": "harness crashed: " + im["crash"], "tb": im.get("tb")}
    want_text = textual(c)
    if im["final_text"] != want_text:
        return {"what": "pass-by-pass token replacement differs from textual replacement", "expected": want_text, "observed": im["final_text"], "kind": "text"}
    if "e2e_exc" in im:
        return {"what": "tracer could not preprocess/instrument the source: " + im["e2e_exc"], "kind": "e2e-exception"}
    if im["e2e_text"] != want_text:
        return {"what": "preprocessed source differs from textual replacement", "expected": want_text, "observed": im["e2e_text"], "kind": "text"}
    got = [m for m in im["marks"]]
    want = sorted(c["placed"])
    if got != want:
        missing = [m for m in want if m not in got]
        extra = [m for m in got if m not in want]
        return {"what": "nodes reported as augmented differ from where the tokens were written: missing %s, unexpected %s" % (missing[:3], extra[:3]),
                "missing": missing, "extra": extra, "kind": "marks"}
    return None


def signature(c, im, f):
    """known-finding regions, computed from the recorded positions (independent of the model)"""
    rec = {}
    for k, p in enumerate(im.get("passes", [])):
        for line, col in p["positions"]:
            rec.setdefault(line, []).append((col, k))
    tie = any(len({cc for cc, _ in lst}) != len(lst) for lst in rec.values())
    if f.get("kind") == "e2e-exception" and "TypeError" in f["what"] and tie:
        return "fix_positions: two occurrences of different specs recorded at the same column (sort compares AugmentationSpec members: TypeError)"
    if f.get("kind") == "marks" and "fixed" in im:
        # true final columns: replay passes to find where each recorded occurrence ends up
        if not tie and misordered(c, im):
            return "fix_positions: recorded-column order differs from the true order (a later-applied length-changing spec sits to the left within its shift distance)"
    return "unlisted"


def misordered(c, im):
    """true left-to-right order of the occurrences on each line of the ORIGINAL source vs order of recorded columns"""
    src_lines = c["src"].splitlines()
    for li, line in enumerate(src_lines, start=1):
        if not line.strip().startswith("z"):
            continue
        code = line.split("#")[0]
        occs = []
        for k, sp in enumerate(c["specs"]):
            start = 0
            while True:
                j = code.find(sp["token"], start)
                if j < 0:
                    break
                occs.append((j, k))
                start = j + len(sp["token"])
        occs.sort()
        true_specs = [k for _, k in occs]
        rec = []
        for k, p in enumerate(im["passes"]):
            for l, col in p["positions"]:
                if l == li:
                    rec.append((col, k))
        rec_sorted = [k for _, k in sorted(rec)]
        if rec_sorted != true_specs:
            return True
    return False


# ---------------------------------------------------------------- Coq text
def cstr(s):
    return "[%s]" % "; ".join("%d%%N" % ord(ch) for ch in s)


def coq_cases_file(rows):
    L = ["From Coq Require Import List ZArith NArith Bool.", "Import ListNotations.", "From PyccoloV Require Import model.Augment.",
         "Definition tk (g s : str) (o : bool) (a b : Z) : token := {| t_gap := g; t_text := s; t_opaque := o; t_row := a; t_col := b |}."]
    for kind, row in rows:
        if kind == "replace":
            tok, repl, tokens = row
            L.append("Eval vm_compute in replace_tokens %s %s [%s]." % (cstr(tok), cstr(repl), "; ".join(
                "tk %s %s %s (%d)%%Z (%d)%%Z" % (cstr(t[0]), cstr(t[1]), "true" if t[2] else "false", t[3], t[4]) for t in tokens)))
        else:
            offs, occs = row
            f = "fun k => match k with %s | _ => 0%%Z end" % " | ".join("%d%%nat => (%d)%%Z" % (i, o) for i, o in enumerate(offs))
            L.append("Eval vm_compute in fix_line (%s) [%s]." % (f, "; ".join("((%d)%%Z, %d%%nat)" % (col, k) for col, k in occs)))
    return "\n".join(L) + "\n"


def run(ctx, model_ok):
    rng = ctx.rng
    n = 300 if ctx.tier == "quick" else 3000
    cases = []
    for rp in getattr(ctx, "known_replays", []):
        placed = rp.get("placed")
        if placed is None:
            # recompute the placement record of a stored source: not available -> only the outcome kind matters for its signature
            placed = []
        cases.append({"src": rp["src"], "specs": rp["specs"], "placed": placed, "known_replay": True})
    cases += [gen_case(rng) for _ in range(n)]
    impl = run_impl(cases)
    failures, seen_sig = [], set()
    for c, im in zip(cases, impl):
        f = oracle_case(c, im)
        if f:
            sig = signature(c, im, f)
            if sig in seen_sig or (sig == "unlisted" and sum(1 for x in failures if x["signature"] == "unlisted") >= 2):
                continue
            seen_sig.add(sig) if sig != "unlisted" else None
            f.update({"case": c, "signature": sig, "kind_": "oracle"})
            failures.append(f)
    mism, validated = [], 0
    if model_ok:
        rows, meta = [], []
        for ci, (c, im) in enumerate(zip(cases, impl)):
            if "crash" in im:
                continue
            for k, p in enumerate(im["passes"]):
                rows.append(("replace", (c["specs"][k]["token"], c["specs"][k]["repl"], p["tokens"])))
                meta.append((ci, "replace", k))
            offs = [len(s["token"]) - len(s["repl"]) for s in c["specs"]]
            lines = {}
            for k, p in enumerate(im["passes"]):
                for line, col in p["positions"]:
                    lines.setdefault(line, []).append((col, k))
            for line, occs in sorted(lines.items()):
                rows.append(("fix", (offs, occs)))
                meta.append((ci, "fix", line))
        shards = [(i, rows[i:i + 120], meta[i:i + 120]) for i in range(0, len(rows), 120)]
        outs = lib.coq_eval_many([("c14_cases_%d" % i, coq_cases_file(rs)) for i, rs, _ in shards], timeout=900)
        for i, rs, ms in shards:
            rc, out = outs["c14_cases_%d" % i]
            vals = lib.parse_marked(out) if rc == 0 else []
            if rc != 0 or len(vals) != len(rs):
                ctx.tie_broken("correspondence", "coqc failed on generated cases (rc=%s, %d/%d)" % (rc, len(vals), len(rs)), out[-2000:])
                continue
            for (kind, row), (ci, _, key), v in zip(rs, ms, vals):
                im = impl[ci]
                pv = lib.parse_coq_list(v)
                if kind == "replace":
                    text = "".join(chr(x) for x in pv[0])
                    pos = [list(p) for p in pv[1]]
                    p = im["passes"][key]
                    if text != p["out"] or pos != p["positions"]:
                        mism.append({"case": cases[ci], "pass": key, "model": [text, pos], "impl": [p["out"], p["positions"]]})
                    else:
                        validated += 1
                else:
                    if pv == "None":
                        m = None
                    else:
                        m = sorted([col, k] for col, k in pv[1])
                    if "fixed_exc" in im:
                        iv = None
                    else:
                        iv = sorted([col, k] for k, lst in enumerate(im["fixed"]) for (l, col) in lst if l == key)
                    if (m is None) != (iv is None) and not (iv is None and m is not None and "fixed_exc" in im):
                        mism.append({"case": cases[ci], "line": key, "model": m, "impl": iv})
                    elif m is not None and iv is not None and m != iv:
                        mism.append({"case": cases[ci], "line": key, "model": m, "impl": iv})
                    else:
                        validated += 1
        if mism:
            ctx.tie_broken("correspondence", "model/Augment.v and syntax_augmentation.py disagree on %d of %d evaluations" % (len(mism), len(rows)), json.dumps(mism[0])[:3000])
    occ = sum(len(c["placed"]) for c in cases)
    return {
        "evaluations": len(cases), "distinct_nontrivial": len({lib.digest(c) for c in cases if len(c["placed"]) >= 2}),
        "rule": "1-3 assignment lines of 1-4 terms in canonical spacing with prefix `!`, suffix `$$`, dot `?.`, binary `++` / `|>` tokens placed at "
                "random, comments and string literals containing the tokens, 1-4 specs in random application order; non-trivial = >=2 occurrences; "
                "ground truth = the generator's own placement record and textual replacement",
        "samples": [cases[0]], "traces_validated": validated,
        "distribution": {"occurrences": occ, "multi_spec_lines": sum(1 for c in cases if len(c["specs"]) >= 2),
                         "fix_positions_raised": sum(1 for im in impl if "fixed_exc" in im)},
        "failures": failures, "extra": {"model_impl_disagreements": len(mism)},
    }


def replay(ctx, rep):
    case = (rep.get("failure") or {}).get("case")
    if not case:
        return None
    im = run_impl([case])[0]
    return oracle_case(case, im)
