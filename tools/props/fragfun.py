# K-fun: model/FragFun.v (module-level functions, return, calls, function guards on top of FragSem.v) against the real rewriter,
# CPython and the real runtime, with handlers that activate / deactivate function guards by rule
import json
import random

import lib
from props import rwfrag

FUN_EVENTS = rwfrag.FRAG_EVENTS + ["before_function_body", "after_function_execution", "before_return", "after_return", "before_call", "after_call",
                                   "before_argument", "after_argument", "before_load_complex_symbol", "after_load_complex_symbol"]
NAMES = ["a", "b", "c", "d", "r", "f", "g", "h"]
EXC = dict(rwfrag.EXC)
EXC["UnboundLocalError"] = 1
DEPTH = 40

HEADER = """From Coq Require Import List ZArith NArith Bool Arith.
Import ListNotations.
From PyccoloV Require Import gen.Ids gen.Events model.Tree model.Erase model.RwFrag model.FragSem model.FragFun proofs.FragFunProofs.
Local Open Scope N_scope.
Definition encv (v : val) : Z * Z := match v with VInt z => (0, z) | VBool b => (1, if b then 1 else 0) | VNone => (2, 0) | VStr s => (3, Z.of_N s) | VFun _ | VBuiltin _ => (4, 0) | VRange _ _ => (9, 0) end%Z.
Definition enco (o : option val) : Z * Z := match o with Some v => encv v | None => (4, 0)%Z end.
Definition ence (en : entry) := (event_idx (fst (fst en)), snd (fst en), enco (snd en)).
Definition encx (x : option fexc) : N := match x with None => 0 | Some (FX ENameError) => 1 | Some (FX ETypeError) => 2 | Some (FX EZeroDiv) => 3 | Some FFuel => 8 | Some (FRet _) => 6 end.
Definition encenv (r : env) (names : list N) := map (fun x => match r x with Some v => encv v | None => (5, 0)%Z end) names.
Definition env0 : env := fun x => if N.eqb x id_range then Some (VBuiltin 0) else None.      (* the builtins of the fragment *)
Definition mkpol (rules : list (nat * bool * N)) (log : list entry) (g : N) : bool :=
  fold_left (fun acc rule => let '(k, b, g') := rule in if Nat.leb k (length log) && N.eqb g g' then b else acc) rules true.
Notation X := (frun Py.binop Py.cmpop Py.unop Py.truth Py.cval Py.is_and).
Definition one (c : rcfg) (ge : bool) (rules : list (nat * bool * N)) (names : list N) (s o : tree) :=
  match of_fmodule s with
  | None => None
  | Some m =>
      let im := finstr_module c ge m in
      let a := X c (mkpol rules) DEPTHnat im env0 VNone in
      let p := X c (mkpol rules) DEPTHnat m env0 VNone in
      let rf := fref_module Py.binop Py.cmpop Py.unop Py.truth Py.cval Py.is_and c (mkpol rules) ge DEPTHnat m env0 in
      Some (tree_eqb (tf_module im) o && forallb fsrc_t m,
            (encx (f_exc a), encenv (f_env a) names, map ence (filter_log c (f_log a))),
            (encx (fr_exc rf), encenv (fr_env rf) names, map ence (filter_log c (fr_log rf))),
            (encx (f_exc p), encenv (f_env p) names))
  end.
""".replace("DEPTHnat", "%d%%nat" % DEPTH)


class GFun(rwfrag.GSem):
    """module-level functions f, g, h (each may call the ones before it; h may call itself on a smaller argument), calls as whole right-hand sides"""

    def __init__(self, rng):
        super().__init__(rng)
        self.vars = ["a", "b", "c"]
        self.callable = []         # (name, arity)

    def atom(self):
        r = self.rng.random()
        if r < 0.42:
            if self.rng.random() < 0.02:
                return self.rng.choice(["zz", "d", "f", "g"])
            return self.rng.choice(self.vars)
        if r < 0.9:
            return str(self.rng.choice([1, 1, 1, 2, 2, 3, 4, 5, 7, 0]))
        return self.rng.choice(["True", "False", "True", "False", "True", "False", "None"])

    def expr(self, d=0):
        r = self.rng.random()
        if d >= 3 or r < 0.35:
            return self.atom()
        if r < 0.6:
            return "(%s %s %s)" % (self.expr(d + 1), self.rng.choice(["+", "-", "*", "+", "-", "*", "&", "|", "//", "%"]), self.expr(d + 1))
        return super().expr(d)

    def call(self):
        if self.rng.random() < 0.06:
            # the builtin of the fragment
            return self.rng.choice(["range(%s)" % self.expr(2), "range(%s, %s)" % (self.expr(2), self.expr(2)), "range()", "range(True)"])
        if not self.callable and self.rng.random() < 0.9:
            return self.expr(1)
        if not self.callable or self.rng.random() < 0.03:
            name, ar = self.rng.choice([("a", 1), ("b", 0), ("zz", 1), ("c", 2)])      # not callable / unbound
        else:
            name, ar = self.rng.choice(self.callable)
            if self.rng.random() < 0.03:
                ar += self.rng.choice([-1, 1])
        return "%s(%s)" % (name, ", ".join(self.expr(2) for _ in range(max(ar, 0))))

    def rhs(self):
        return self.call() if self.rng.random() < 0.45 else self.expr(1)

    def stmts(self, depth, n, infun=False):
        out = []
        for _ in range(n):
            r = self.rng.random()
            if r < 0.4:
                pool = ["d", "r", "d", "r", "d", "r", "d", "r", "a", "b"] if infun else ["a", "b", "c", "d", "r"]
                out.append("%s = %s" % (" = ".join(sorted(set(self.rng.sample(pool, self.rng.choice([1, 1, 2]))))), self.rhs()))
            elif r < 0.58:
                out.append(self.rhs())
            elif r < 0.63:
                out.append("pass")
            elif infun and r < 0.75:
                out.append(self.rng.choice(["return", "return %s" % self.expr(1), "return %s" % self.rhs()]))
            elif depth < 2:
                out.append("if %s:" % self.expr(1))
                out += ["    " + l for l in self.stmts(depth + 1, self.rng.choice([1, 2]), infun)]
                if self.rng.random() < 0.5:
                    out.append("else:")
                    out += ["    " + l for l in self.stmts(depth + 1, self.rng.choice([1, 2]), infun)]
            else:
                out.append(self.rhs())
        return out

    def fundef(self, name):
        ar = self.rng.choice([0, 1, 1, 2])
        params = ["p", "q"][:ar]
        saved = self.vars
        self.vars = ["a", "b", "c"] + params * 2
        body = self.stmts(1, self.rng.choice([1, 2, 3]), infun=True)
        if self.rng.random() < 0.85:
            body.append("return %s" % self.rhs())
        if body[0].startswith(("'", '"')):
            body.insert(0, "pass")
        self.vars = saved
        self.callable.append((name, ar))
        return ["def %s(%s):" % (name, ", ".join(params))] + ["    " + l for l in body]

    def recdef(self):
        """h(p): recursion on a decreasing argument; p is never reassigned"""
        saved = self.vars
        self.vars = ["a", "b", "p", "p"]
        pre = self.stmts(1, self.rng.choice([0, 1]), infun=False)
        self.vars = saved
        body = ["if p <= 0:", "    return %s" % self.rng.choice(["0", "1", "a", "None"])] + pre + \
               [self.rng.choice(["d = h(p - 1)", "return h(p - 1)", "h(p - 1)", "d = h(p - 2)"])] + \
               self.rng.choice([["return d"], ["return p"], [], ["return (d + p)"]])
        self.callable.append(("h", 1))
        return ["def h(p):"] + ["    " + l for l in body]

    def program(self):
        lines = (["'d'"] if self.rng.random() < 0.2 else []) + ["a = 1", "b = 2", "c = 3"]      # 20%: a module docstring (as written, first, silent)
        if self.rng.random() < 0.08:
            lines.append(self.call())                  # a call before any definition
        lines += self.fundef("f")
        if self.rng.random() < 0.6:
            lines += self.stmts(0, 1)
        if self.rng.random() < 0.6:
            lines += self.fundef("g")
        if self.rng.random() < 0.45:
            lines += self.recdef()
            self.callable[-1] = ("h", 1)
        lines += self.stmts(0, self.rng.choice([1, 2, 3]))
        lines.append("%s = %s" % (self.rng.choice(["a", "r"]), self.call()))
        if self.rng.random() < 0.15:
            saved = self.callable
            self.callable = []                         # (the functions defined so far may call the first f: no cycles)
            lines += self.fundef("f")                  # a second definition of the same name
            self.callable = saved
            lines.append("r = %s" % self.call())
        return "\n".join(lines) + "\n"


def gen_cases(rng, n):
    cases = []
    specials = ["before_function_body", "after_function_execution", "before_return", "after_return", "before_call", "after_call",
                "before_argument", "after_argument", "before_load_complex_symbol", "after_load_complex_symbol"]
    for i in range(n):
        g = GFun(random.Random(rng.random()))
        mode = rng.choice(["all", "single", "half", "sparse", "dense", "funs"])
        if mode == "all":
            ev = list(FUN_EVENTS)
        elif mode == "single":
            ev = [rng.choice(FUN_EVENTS)]
        elif mode == "funs":
            ev = [e for e in specials if rng.random() < 0.7] + [e for e in rwfrag.FRAG_EVENTS if rng.random() < 0.25]
        else:
            d = {"half": 0.5, "sparse": 0.15, "dense": 0.85}[mode]
            ev = [e for e in FUN_EVENTS if rng.random() < d]
        ev = ev or [rng.choice(FUN_EVENTS)]
        rules = []
        for _ in range(rng.choice([0, 1, 2, 3, 4])):
            rules.append([rng.randrange(1, 50), rng.random() < 0.3, rng.randrange(0, 3)])
        cases.append({"src": g.program(), "events": ev, "guards": rng.random() < 0.75, "rules": rules, "frag": "fun"})
    return cases


def resolve_rules(c):
    """rule function ordinals -> traversal indices of the def nodes of the source (computed from the source text alone)"""
    import ast
    order = []

    def trav(n):
        order.append(n)
        for _, f in ast.iter_fields(n):
            if isinstance(f, ast.AST):
                trav(f)
            elif isinstance(f, list):
                for x in f:
                    if isinstance(x, ast.AST):
                        trav(x)
    trav(ast.parse(c["src"]))
    defs = [i for i, n in enumerate(order) if isinstance(n, ast.FunctionDef)]
    out = []
    for k, on, w in c["rules"]:
        if defs:
            out.append([k, on, defs[w % len(defs)]])
    return sorted(out, key=lambda x: x[0])


def check(ctx, rng, n, extra_cases=()):
    ev_idx = {e: i for i, e in enumerate(json.load(open(lib.os.path.join(lib.VERIF, "coq", "gen", "events.json")))["events"])}
    cases = gen_cases(rng, n)
    for c in cases:
        c["rules"] = resolve_rules(c)
    cases = [dict(x) for x in extra_cases] + cases
    out = []
    for i in range(0, len(cases), 40):
        r, res, o = lib.impl_run("c01_fun.py", cases[i:i + 40], timeout=1200)
        if res is None:
            raise RuntimeError("implementation harness failed:\n" + o[-3000:])
        out += res
    shard = 8
    texts = []
    for i in range(0, len(cases), shard):
        L = [HEADER]
        for j, (c, im) in enumerate(zip(cases[i:i + shard], out[i:i + shard])):
            if "src_tree" not in im:
                L.append("Eval vm_compute in (@None nat).")
                continue
            subs = "; ".join(rwfrag.coq_event(e) for e in c["events"])
            names = "; ".join(str(im["names"].get(x, 99)) for x in NAMES)
            rules = "; ".join("(%d%%nat, %s, %d)" % (k, "true" if on else "false", nn) for k, on, nn in c["rules"])
            L.append("Definition s%d := %s.\nDefinition o%d := %s.\nEval vm_compute in one {| sub := fun e => existsb (event_eqb e) [%s] |} %s [%s] [%s] s%d o%d."
                     % (j, im["src_tree"], j, im["out_tree"], subs, "true" if c["guards"] else "false", rules, names, j, j))
        texts.append(("fragfun_%d" % i, "\n".join(L) + "\n"))
    res = lib.coq_eval_many(texts, timeout=900)
    ok, bad, violations = 0, [], []
    dist = {"raising": 0, "log_entries": 0, "guards_enabled": 0, "rules": 0, "rules_fired": 0, "exceptions": {},
            "programs_with_recursion": sum(1 for c in cases if "def h" in c["src"])}
    for i in range(0, len(cases), shard):
        rc_, o = res["fragfun_%d" % i]
        vals = lib.parse_marked(o) if rc_ == 0 else []
        chunk = cases[i:i + shard]
        if rc_ != 0 or len(vals) != len(chunk):
            bad.append({"coqc_failed": o[-1200:]})
            continue
        for c, v, im in zip(chunk, vals, out[i:i + shard]):
            if "crash" in im:
                bad.append({"case": c, "crash": im["crash"], "tb": im.get("tb")})
                continue
            p = lib.parse_coq_list(v)
            if not (isinstance(p, tuple) and p[0] == "Some"):
                bad.append({"case": c, "model": "of_fmodule failed: the program is outside the fragment", "printed": v[:200]})
                continue
            same_tree, (mx, menv, mlog), (rx, renv, rlog), (px, penv) = p[1]
            impl_log = [(ev_idx[e], nid) + rwfrag.enc_val(val) for e, nid, val in im["log"]]
            impl_env = [rwfrag.enc_val(im["bindings"][x]) if x in im["bindings"] else (5, 0) for x in NAMES]
            plain_env = [rwfrag.enc_val(im["plain_bindings"][x]) if x in im["plain_bindings"] else (5, 0) for x in NAMES]
            mlog_ = [(e, nid) + tuple(val) for e, nid, val in mlog]
            rlog_ = [(e, nid) + tuple(val) for e, nid, val in rlog]
            problems = []
            if EXC.get(im["exc"], 9) != rx or [tuple(x) for x in renv] != impl_env or rlog_ != impl_log:
                k = next((t for t, (x, y) in enumerate(zip(rlog_ + [None] * len(impl_log), impl_log + [None] * len(rlog_))) if x != y), None)
                violations.append({"what": "real run under the guard schedule differs from the reference (source semantics + event stream gated by the function guards): "
                                           "exception %s vs %s, bindings equal: %s, first stream difference at %s" % (im["exc"], rx, [tuple(x) for x in renv] == impl_env, k),
                                   "case": c, "expected_at": rlog_[k:k + 3] if k is not None else None, "observed_at": impl_log[k:k + 3] if k is not None else None,
                                   "guards_found": im.get("guards_found"), "kind": "function-guards"})
                continue
            if same_tree is not True:
                problems.append("tf_module (finstr_module c ge m) differs from the real rewriter's output, or the program read off the source tree does not satisfy the "
                                "theorems' hypothesis forallb fsrc_t")
            if EXC.get(im["exc"], 9) != mx or [tuple(x) for x in menv] != impl_env or mlog_ != impl_log:
                problems.append("evaluation of the instrumented term under the guard policy differs from the real run (exception / bindings / event stream)")
            if EXC.get(im["plain_exc"], 9) != px or [tuple(x) for x in penv] != plain_env:
                problems.append("evaluation of the source term differs from plain CPython")
            if problems:
                bad.append({"case": c, "problems": problems, "impl": {"exc": im["exc"], "env": impl_env, "log": impl_log[:80]},
                            "model": {"exc": mx, "env": menv, "log": mlog_[:80]}, "ref": {"exc": rx, "env": renv, "log": rlog_[:80]},
                            "plain": {"impl": [im["plain_exc"], plain_env], "model": [px, penv]}})
            else:
                ok += 1
                dist["log_entries"] += len(impl_log)
                if im["exc"]:
                    dist["raising"] += 1
                    dist["exceptions"][im["exc"]] = dist["exceptions"].get(im["exc"], 0) + 1
                dist["guards_enabled"] += 1 if c["guards"] else 0
                dist["rules"] += len(c["rules"])
                dist["rules_fired"] += sum(1 for r_ in c["rules"] if c["guards"] and r_[0] <= len(impl_log))
    if bad:
        ctx.tie_broken("correspondence", "K-fun: model/FragFun.v (rewriter on functions / calls / return, function guards, evaluation under a guard policy, gated reference "
                       "stream) and the real rewriter / CPython / runtime disagree on %d of %d programs" % (len(bad), len(cases)), json.dumps(bad[0])[-5000:])
    return len(cases), ok, dist, violations


def run_into(ctx, rng, r, n):
    """K-fun inside a property's run(): builds the model, runs n programs (known / fixed replays of this fragment first), folds the outcome into r"""
    ok3, out3 = lib.coq_make(["model/FragFun.vo", "proofs/FragFunProofs.vo"])
    if not ok3:
        ctx.tie_broken("correspondence", "model/FragFun.v / proofs/FragFunProofs.v do not build", out3)
        return
    extra = [dict(x) for x in getattr(ctx, "known_replays", []) + getattr(ctx, "fixed_replays", []) if x.get("frag") == "fun"]
    nf, okf, distf, viol = check(ctx, rng, n, extra_cases=extra)
    for f in viol[:2]:
        f.update({"signature": "unlisted", "kind_": "oracle", "harness": "c01_fun.py"})
        r["failures"].append(f)
    r["evaluations"] = r.get("evaluations", 0) + nf
    r["traces_validated"] = r.get("traces_validated", 0) + okf
    r.setdefault("distribution", {})
    r["distribution"]["k_fun_programs"] = nf
    r["distribution"]["k_fun_agreeing"] = okf
    r["distribution"]["k_fun_detail"] = distf
    r["rule"] = r.get("rule", "") + ("; K-fun: %d generated programs of the function fragment (ints / bools / None; 1-3 module-level functions with 0-2 parameters, "
                                     "locals shadowing globals, return with and without value and from inside if, calls as whole right-hand sides with wrong arity / "
                                     "uncallable / unbound callees, a recursive function, a re-definition) x event subsets incl. the ten function / call / argument / "
                                     "return events x global guards on 75%% x 0-4 guard rules (at the k-th delivered event switch the guard of some function off or on): "
                                     "whole tree, exception, bindings and stream vs model/FragFun.v, hypothesis fsrc_t computed; the stream vs the gated reference is "
                                     "the oracle" % nf)


def replay_case(case):
    class _Quiet:
        def tie_broken(self, *a, **k):
            pass
    _, _, _, viol = check(_Quiet(), random.Random(0), 0, extra_cases=[case])
    return viol[0] if viol else None
