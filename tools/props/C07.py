# C07 - leaving all tracing contexts leaves the interpreter as it was found (K-ctx + snapshot oracle)
import json

import lib
from props import ctxcommon as cc

ID = "C07"
PROP_FILE = "props/C07.v"
COQ_TARGETS = ["props/C07.v"]
THEOREMS = ["C07_restore", "C07_flags_defined", "C07_after"]
TRUSTED_BASE = [
    "Coq 8.16.1 kernel, vm_compute for the in-coqc correspondence",
    "model/Ctx.v: hand transcription of the enter/cleanup code of tracer.py (stack, per-tracer flags, builtins names, sys.settrace target and "
    "patched settrace/gettrace, meta-path finder count), tied by K-ctx",
    "tools/props/ctxcommon.py generator/canonicaliser, tools/impl/c06_ctx.py harness",
]
ASSUMPTIONS = [
    "no user code calls sys.settrace inside the history (C09); importlib cache patching is observed on the implementation only (model: finder count)",
    "the two boolean flags TRACING_ENABLED / FUNCTION_TRACING_ENABLED staying in builtins as False are not hooks or guards",
]
GLOBAL_KEYS = ["stack", "tsts", "emit", "thunk_owner", "lam_owner", "cur_trace", "settrace_orig", "meta_finders", "meta_path_others", "cfs_orig", "switches"]


def oracle_case(case, im):
    if "crash" in im:
        return {"what": "harness crashed: " + im["crash"], "tb": im.get("tb")}
    for k in GLOBAL_KEYS:
        if im["after"][k] != im["before"][k]:
            return {"what": "after all contexts exited, %s is %r; before the history it was %r" % (k, im["after"][k], im["before"][k]), "field": k}
    if im["after"]["guards_any"]:
        return {"what": "guard names remain in builtins after all contexts exited", "field": "guards"}
    for k, res, *_ in im["post"]:
        if res != []:
            return {"what": "code compiled while tracing, run after all contexts exited: %s gave %r (expected: runs, silently)" % (k, res), "field": "post:" + k}
    return None


def fails_on_impl(case):
    return oracle_case(case, cc.impl_results([case])[0])


def signature(case, f):
    return "unlisted"


def run(ctx, model_ok):
    rng = ctx.rng
    n = 300 if ctx.tier == "quick" else 3000
    cases = []
    corpus = lib.os.path.join(lib.VERIF, "corpus", "C07.json")
    if lib.os.path.exists(corpus):
        cases += json.load(open(corpus))
    # the histories of repaired defects (known_findings.json, kind fixed) run first
    cases += [dict(rp) for rp in getattr(ctx, "fixed_replays", []) if "items" in rp and "cfg" in rp]
    cases += cc.enumerated_import_cases()
    while len(cases) < n:
        cases.append(cc.gen_case(rng, sys_level=True, imports=True))
    impl = cc.impl_results(cases)
    failures = []
    for c, im in zip(cases, impl):
        f = oracle_case(c, im)
        if f:
            fld = f.get("field")
            small = cc.shrink(c, lambda x: (fails_on_impl(x) or {}).get("field") == fld)
            f = fails_on_impl(small) or f
            f.update({"case": small, "signature": signature(small, f), "kind": "oracle"})
            failures.append(f)
            if len(failures) >= 2:
                break
    mism, validated = [], 0
    ok, out = lib.coq_make(["model/Ctx.vo"])
    if not ok:
        ctx.tie_broken("correspondence", "model/Ctx.v does not build", out)
    else:
        try:
            ms = cc.model_results(cases)
            for c, m, im in zip(cases, ms, impl):
                d = cc.compare(c, m, im)
                if d:
                    d["case"] = c
                    mism.append(d)
                else:
                    validated += 1
            if mism:
                ctx.tie_broken("correspondence", "model/Ctx.v and tracer.py disagree on %d of %d histories" % (len(mism), len(cases)), json.dumps(mism[0])[:3000])
        except RuntimeError as e:
            ctx.tie_broken("correspondence", "model evaluation failed", str(e))
    return {
        "evaluations": len(cases),
        "distinct_nontrivial": len({lib.digest(c) for c in cases if cc.count_ctx(c["items"]) >= 2}),
        "rule": "random history trees over 1-3 tracers, 30% system-trace tracers, 30% with a pre-installed trace function, meta-path patching on/off per "
                "tracer; contexts, exec-style contexts, site executions, raises at random positions (caught at random depths or escaping everything); "
                "snapshot of the process-global state before/after + calling the compiled function/lambda/loop afterwards; non-trivial = >=2 contexts",
        "samples": [cases[0]], "traces_validated": validated,
        "distribution": {"histories_with_raise": sum(1 for c in cases if '"raise"' in json.dumps(c)),
                         "raise_escapes_everything": sum(1 for im in impl if im.get("raised")),
                         "with_sys_tracer": sum(1 for c in cases if any(x["has_sys"] for x in c["cfg"])),
                         "pre_installed_trace_fn": sum(1 for c in cases if c.get("pre"))},
        "failures": failures, "extra": {"model_impl_disagreements": len(mism)},
    }


def replay(ctx, rep):
    case = (rep.get("failure") or {}).get("case")
    return fails_on_impl(case) if case else None
