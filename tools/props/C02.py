# C02 - each event fires exactly once per occurrence, in order, with true value and node
import ast
import json
import re

import lib
from props import rwcommon as rc

ID = "C02"
PROP_FILE = "props/C02.v"
COQ_TARGETS = ["props/C02.v"]
THEOREMS = ["C02_emit_observing", "C02_delivered_iff", "C02_delivery_order", "C02_value", "C02_site_value", "C02_frag_stream", "C02_fun_stream", "C02_prog_stream"]
TRUSTED_BASE = [
    "Coq 8.16.1 kernel, vm_compute for the per-program site / erasure certificates",
    "tools/impl/ref_instr.py: the independent reference instrumenter (the event table of DESIGN section 11 as probes on the source AST); "
    "it is the specification of 'what each event means', written without looking at the rewriter",
    "tools/impl/astexport.py, tools/translators/gen_pyast.py + gen_events.py + gen_emitret.py",
    "the laws of proofs/EraseSound.v (Section hypotheses) for C02_site_value; model/Rt.v tied by C04's K-rt correspondence",
]
ASSUMPTIONS = ["handlers are observing; events restricted to those with an unambiguous source meaning (ref_instr.SUPPORTED); "
               "a bare except is read as `except BaseException` with no source node; before_subscript_* fire after the subscript "
               "expression is evaluated because they carry its value"]


def supported():
    src = open(lib.os.path.join(lib.VERIF, "tools", "impl", "ref_instr.py")).read()
    return sorted(eval(re.search(r"SUPPORTED = (\{.*?\n\})", src, re.S).group(1)))


def gen_subset(rng, pool):
    mode = rng.choice(["all", "all", "single", "sparse", "half", "dense"])
    if mode == "all":
        return list(pool)
    if mode == "single":
        return [rng.choice(pool)]
    d = {"sparse": 0.1, "half": 0.5, "dense": 0.9}[mode]
    return [e for e in pool if rng.random() < d] or [rng.choice(pool)]


def gen_case(rng, pool):
    ev = gen_subset(rng, pool)
    return {"src": rc.gen_program(rng), "tracers": [{"events": ev, "guards": rng.random() < 0.5}], "reference": ev, "export": True}


def run_impl(cases):
    out = []
    for i in range(0, len(cases), 30):
        r, res, o = lib.impl_run("c02_stream.py", cases[i:i + 30], timeout=1200)
        if res is None:
            raise RuntimeError("implementation harness failed:\n" + o[-3000:])
        out += res
    return out


def oracle_case(c, im):
    if "crash" in im:
        return {"what": "harness crashed: " + im["crash"], "tb": im.get("tb"), "kind": "crash"}
    if "rewrite_exc" in im or "compile_exc" in im:
        return {"what": "rewriter failed: " + (im.get("rewrite_exc") or im.get("compile_exc")), "kind": "rewrite"}
    got, ref = im["streams"][0], im["ref"]
    if im.get("exc") != im.get("ref_exc"):
        return {"what": "run ends differently under instrumentation", "expected": im.get("ref_exc"), "observed": im.get("exc"), "kind": "exception"}
    for i in range(max(len(got), len(ref))):
        g = got[i] if i < len(got) else None
        r = ref[i] if i < len(ref) else None
        if g is None or r is None:
            return {"what": "stream lengths differ: %d delivered, %d occurrences" % (len(got), len(ref)), "index": i, "expected": r, "observed": g,
                    "kind": "missing" if g is None else "extra", "event": (r or g)[0]}
        if g[0] != r[0] or g[1] != r[1]:
            return {"what": "occurrence %d differs (event / node)" % i, "index": i, "expected": r, "observed": g[:3], "kind": "order-or-node",
                    "event": g[0] if g[1] == r[1] or g[0] == r[0] else r[0]}
        if r[2] is not None and g[2] != r[2]:
            return {"what": "occurrence %d carries the wrong value" % i, "index": i, "expected": r, "observed": g[:3], "kind": "value", "event": r[0]}
    return None


def fails_on_impl(c):
    c2 = dict(c)
    c2["export"] = False
    return oracle_case(c2, run_impl([c2])[0])


def shrink(c, f):
    """keep only the event the failure is about, if it still fails"""
    cur = c
    ev = f.get("event")
    if ev and len(c["reference"]) > 1:
        cand = dict(c)
        cand["tracers"] = [dict(c["tracers"][0], events=[ev])]
        cand["reference"] = [ev]
        f2 = fails_on_impl(cand)
        if f2:
            return cand, f2
    return cur, f


def signature(c, f):
    return "unlisted"


def run(ctx, model_ok):
    rng = ctx.rng
    pool = supported()
    n = 90 if ctx.tier == "quick" else 900
    cases = [dict(rp, export=rp.get("export", True)) for rp in getattr(ctx, "known_replays", []) + getattr(ctx, "fixed_replays", []) if "tracers" in rp]
    # every supported event alone at least once (so a defect confined to one event's site cannot hide behind the others)
    for e in pool:
        if len(cases) < n // 2 or ctx.tier != "quick":
            cases.append({"src": rc.gen_program(rng, nstmts=4), "tracers": [{"events": [e], "guards": rng.random() < 0.5}], "reference": [e], "export": True})
    # the hand-written feature programs under all supported events
    import battery
    for name, src in sorted(battery.programs().items()):
        cases.append({"src": src, "tracers": [{"events": list(pool), "guards": rng.random() < 0.5}], "reference": list(pool), "export": True, "battery": name})
    while len(cases) < n + 6:
        cases.append(gen_case(rng, pool))
    impl = run_impl(cases)
    failures = []
    occ = 0
    per_event = {}
    for c, im in zip(cases, impl):
        f = oracle_case(c, im)
        for row in im.get("ref", []):
            per_event[row[0]] = per_event.get(row[0], 0) + 1
        occ += len(im.get("ref", []))
        if f and len(failures) < 3:
            small, f = shrink(c, f)
            f.update({"case": {k: small[k] for k in ("src", "tracers", "reference")}, "signature": signature(small, f)})
            failures.append(f)
    rows, idx = [], []
    for i, im in enumerate(impl):
        if "src_tree" in im and im["out_nodes"] <= 9000:
            rows.append((im["src_tree"], im["out_tree"], cases[i]["tracers"][0]["events"]))
            idx.append(i)
    ok = {"erase": 0, "sites": 0, "site_events": 0}
    bad = []
    if model_ok and rows:
        res = rc.certificates3(rows, prefix="c02_cert")
        for i, r in zip(idx, res):
            if r is None:
                bad.append({"case": {k: cases[i][k] for k in ("src", "tracers")}, "coqc_failed": True})
                continue
            for k in ok:
                ok[k] += 1 if r[k] else 0
            if not (r["sites"] and r["erase"]):
                bad.append({"case": {k: cases[i][k] for k in ("src", "tracers")}, "result": r})
        if bad:
            ctx.tie_broken("certificate", "site / erasure certificate fails on %d of %d rewritten programs" % (len(bad), len(rows)), json.dumps(bad[0])[-3000:])
    # the fragment semantics (model/FragSem.v, theorem C02_frag_stream) against the real rewriter, CPython and the real runtime
    ksem = (0, 0, {})
    if model_ok:
        from props import rwfrag
        ksem = rwfrag.check_sem(ctx, rng, 30 if ctx.tier == "quick" else 300)
    res = {
        "evaluations": len(cases),
        "distinct_nontrivial": len({lib.digest(c) for c, im in zip(cases, impl) if len(im.get("ref", [])) >= 5}),
        "rule": "generated programs (see C01) x event subsets of the %d events with an unambiguous source meaning (each alone, all, density 0.1/0.5/0.9) x global guards "
                "on/off; complete stream (event, node type, node span, value) compared with the reference instrumenter's, in order; "
                "non-trivial = >=5 occurrences; distinct by sha1" % len(pool),
        "samples": [{"events": cases[-1]["reference"][:8], "occurrences": len(impl[-1].get("ref", [])), "src_tail": cases[-1]["src"][-300:]}],
        "traces_validated": ok["sites"],
        "distribution": {"k_sem_fragment_programs": ksem[0], "k_sem_agreeing": ksem[1], "occurrences_compared": occ, "occurrences_per_event_top": dict(sorted(per_event.items(), key=lambda x: -x[1])[:15]),
                         "events_never_occurring": [e for e in pool if e not in per_event],
                         "programs_raising": sum(1 for im in impl if im.get("ref_exc")),
                         "certificates_checked": len(rows), "certificates_ok": ok},
        "failures": failures, "extra": {"certificate_failures": len(bad)},
    }
    if model_ok:
        # the stream of functions / calls / arguments / return (model/FragFun.v, theorem C02_fun_stream) against real runs
        from props import fragfun
        fragfun.run_into(ctx, rng, res, 16 if ctx.tier == "quick" else 300)
        from props import fragprog
        fragprog.run_into(ctx, rng, res, 24 if ctx.tier == "quick" else 400)
    return res


def replay(ctx, rep):
    case = (rep.get("failure") or {}).get("case")
    if case and case.get("frag") == "fun":
        from props import fragfun
        return fragfun.replay_case(case)
    if case and case.get("frag") == "prog":
        from props import fragprog
        return fragprog.replay_case(case)
    return fails_on_impl(case) if case else None
