# C06 - a tracer's handlers fire exactly while its own innermost context says enabled (K-ctx + stack-of-booleans oracle)
import json

import lib
from props import ctxcommon as cc

ID = "C06"
PROP_FILE = "props/C06.v"
COQ_TARGETS = ["props/C06.v"]
THEOREMS = ["C06_delivery", "C06_initial"]
TRUSTED_BASE = [
    "Coq 8.16.1 kernel, vm_compute for the in-coqc correspondence",
    "model/Ctx.v: hand transcription of tracing_non_context / cleanup / _enable_tracing / _disable_tracing and of the guard tests "
    "that rewritten function, loop and lambda bodies perform, tied by K-ctx",
    "tools/props/ctxcommon.py generator/canonicaliser, tools/impl/c06_ctx.py harness",
]
ASSUMPTIONS = [
    "the instrumented code was compiled while some tracer subscribing to its events was stacked; all tracers in a history subscribe to the same event",
    "no loop/function guard is activated (that is C10); no user code calls sys.settrace inside the history (that is C09)",
]


def oracle_case(case, im):
    if "crash" in im:
        return {"what": "harness crashed: " + im["crash"], "tb": im.get("tb")}
    exp = cc.reference_log(case)
    obs = [e[1] for e in im["log"]]
    kinds = [e[0] for e in im["log"]]
    for i, (e, o) in enumerate(zip(exp, obs)):
        if o == "NameError":
            if e:
                return {"what": "site %d (%s) raised NameError while tracers %s should receive it" % (i, kinds[i], e)}
            continue
        if e != o:
            return {"what": "site %d (%s): tracers whose handlers ran %s, stack-of-booleans reference says %s" % (i, kinds[i], o, e),
                    "site_index": i, "expected": e, "observed": o}
    # system-trace handlers obey the same rule (for tracers that have them)
    for i, (e, entry) in enumerate(zip(exp, im["log"])):
        want = [t for t in e if case["cfg"][t]["has_sys"]]
        if entry[0] == "RTop":
            continue          # tracer.exec / eval hide the frames of their own scaffold from `call` handlers: nothing to compare
        if entry[3] != want:
            return {"what": "site %d (%s): system-trace 'call' handlers ran for tracers %s, stack-of-booleans reference says %s" % (i, kinds[i], entry[3], want),
                    "site_index": i, "expected": want, "observed": entry[3]}
    if len(exp) != len(obs):
        return {"what": "number of executed sites differs: reference %d observed %d" % (len(exp), len(obs))}
    return None


def fails_on_impl(case):
    return oracle_case(case, cc.impl_results([case])[0])


def signature(case, f):
    return "unlisted"


def run(ctx, model_ok):
    rng = ctx.rng
    n = 300 if ctx.tier == "quick" else 3000
    cases = []
    corpus = lib.os.path.join(lib.VERIF, "corpus", "C06.json")
    if lib.os.path.exists(corpus):
        cases += json.load(open(corpus))
    # the histories of repaired defects (known_findings.json, kind fixed) run first
    cases += [dict(rp) for rp in getattr(ctx, "fixed_replays", []) if "items" in rp and "cfg" in rp]
    cases += cc.enumerated_cases()
    n += 64
    while len(cases) < n:
        c = cc.gen_case(rng, sys_level=(rng.random() < 0.3))
        if cc.count_sites(c["items"]) >= 1:
            cases.append(c)
    impl = cc.impl_results(cases)
    failures = []
    for c, im in zip(cases, impl):
        f = oracle_case(c, im)
        if f:
            small = cc.shrink(c, lambda x: fails_on_impl(x) is not None)
            f = fails_on_impl(small) or f
            f.update({"case": small, "signature": signature(small, f), "kind": "oracle"})
            failures.append(f)
            if len(failures) >= 2:
                break
    mism, validated = [], 0
    ok, out = lib.coq_make(["model/Ctx.vo"])
    if not ok:
        ctx.tie_broken("correspondence", "model/Ctx.v does not build", out)
    else:
        try:
            ms = cc.model_results(cases)
            for c, m, im in zip(cases, ms, impl):
                d = cc.compare(c, m, im)
                if d:
                    d["case"] = c
                    mism.append(d)
                else:
                    validated += 1
            if mism:
                ctx.tie_broken("correspondence", "model/Ctx.v and tracer.py disagree on %d of %d histories" % (len(mism), len(cases)), json.dumps(mism[0])[:3000])
        except RuntimeError as e:
            ctx.tie_broken("correspondence", "model evaluation failed", str(e))
    sites = sum(cc.count_sites(c["items"]) for c in cases)
    ctxs = sum(cc.count_ctx(c["items"]) for c in cases)
    return {
        "evaluations": len(cases),
        "distinct_nontrivial": len({lib.digest(c) for c in cases if cc.count_ctx(c["items"]) >= 2 and cc.count_sites(c["items"]) >= 2}),
        "rule": "all 64 three-deep nests of enabled / disabled contexts of two tracers with sites after every exit; random history trees over 1-3 tracers (30% of histories with system-trace tracers / a pre-installed trace function): enabled/disabled "
                "contexts, exec-style contexts, executions of top-level / function / lambda / loop-in-function code compiled earlier, raises, try blocks, "
                "depth <=5; non-trivial = >=2 contexts and >=2 executed sites; distinct by sha1",
        "samples": [cases[0]], "traces_validated": validated,
        "distribution": {"sites_executed": sites, "contexts": ctxs, "histories_with_raise": sum(1 for c in cases if '"raise"' in json.dumps(c))},
        "failures": failures, "extra": {"model_impl_disagreements": len(mism)},
    }


def replay(ctx, rep):
    case = (rep.get("failure") or {}).get("case")
    return fails_on_impl(case) if case else None
