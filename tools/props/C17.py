# C17 - K-thr: model/Threads.v (with gen/Switches.v) vs the real emit_event.py under a deterministic scheduler
import json

import lib

ID = "C17"
PROP_FILE = "props/C17.v"
COQ_TARGETS = ["props/C17.v", "model/Reent.v"]
THEOREMS = ["C17_main", "C17_workers", "C17_shared_switches_refuted"]
TRUSTED_BASE = [
    "Coq 8.16.1 kernel, vm_compute for the in-coqc correspondence",
    "translator tools/translators/gen_switches.py (are the switches module globals or threading.local attributes)",
    "model/Threads.v: statement-level steps of _emit_event/_emit_tracer_loop; GIL statement atomicity is modelled, not verified",
    "tools/impl/c17_threads.py: sys.settrace based scheduler that parks threads before each modelled statement",
]
ASSUMPTIONS = [
    "thread switches happen between statements of emit_event.py (finer interleavings inside one store/load do not change the modelled reads and writes)",
    "handlers are observing and do not share mutable tracer state across threads (that is the tracer author's concern)",
]
WITNESS = [1] * 6 + [0] * 7 + [1] * 3 + [0] * 2 + [0] * 9


def gen_case(rng):
    nthreads = rng.choice([2, 2, 2, 3])
    threads = [rng.choice([1, 2, 2, 3])] + [rng.choice([1, 1, 2]) for _ in range(nthreads - 1)]
    tracers = [{"multi": rng.random() < 0.35, "allow_re": rng.random() < 0.3, "h_re": rng.random() < 0.3} for _ in range(rng.choice([1, 2, 2, 3]))]
    steps = []
    for tid, n in enumerate(threads):
        steps += [tid] * (9 * n)
    style = rng.choice(["random", "random", "bursty"])
    if style == "random":
        rng.shuffle(steps)
        sched = steps
    else:
        left = list(threads)
        rem = {tid: 9 * n for tid, n in enumerate(threads)}
        sched = []
        while any(rem.values()):
            tid = rng.choice([t for t, r in rem.items() if r])
            k = min(rem[tid], rng.choice([1, 2, 3, 5, 6, 7, 9]))
            sched += [tid] * k
            rem[tid] -= k
    return {"tracers": tracers, "threads": threads, "sched": sched}


def coq_cases_file(cases):
    L = ["From Coq Require Import List NArith Bool Arith.", "Import ListNotations.",
         "From PyccoloV Require Import gen.Switches model.Threads.",
         "Definition one (ts : list tracer_cfg) (ems : list nat) (sched : list nat) :=",
         "  let s := run_sched switches_shared ts (init ems) sched in",
         "  let s2 := run_sched switches_shared ts {| switches := switches s; threads := set_nth (threads s) 0 (th0 1); dlog := [] |} [0;0;0;0;0;0;0;0;0] in",
         "  (dlog s, (sA (get_sw switches_shared s 0), sR (get_sw switches_shared s 0)), dlog s2)."]
    for c in cases:
        ts = "; ".join("{| multi_thread := %s; allow_re := %s; h_re := %s |}" % ("true" if t["multi"] else "false", "true" if t["allow_re"] else "false", "true" if t.get("h_re") else "false") for t in c["tracers"])
        L.append("Eval vm_compute in one [%s] [%s]%%nat [%s]%%nat." % (ts, "; ".join(map(str, c["threads"])), "; ".join(map(str, c["sched"]))))
    return "\n".join(L) + "\n"


def run_impl(cases):
    rc, res, out = lib.impl_run("c17_threads.py", cases, timeout=1200)
    if res is None:
        raise RuntimeError("implementation harness failed:\n" + out[-3000:])
    return res


def oracle_case(case, im):
    """the property on the implementation: main thread gets what it gets alone; workers reach only multi-thread tracers"""
    if "crash" in im:
        return {"what": "harness crashed: " + im["crash"], "tb": im.get("tb")}
    if im["errors"]:
        return {"what": "scheduler error", "errors": im["errors"]}
    nt = len(case["tracers"])
    alone = [[0, ti] for _ in range(case["threads"][0]) for ti in range(nt)]
    main_log = [e for e in im["log"] if e[0] == 0]
    if main_log != alone:
        return {"what": "main thread deliveries during the concurrent activity differ from a run with no other thread",
                "expected": alone, "observed": main_log}
    if im["after"] != [[0, ti] for ti in range(nt)]:
        return {"what": "main thread deliveries AFTER the concurrent activity differ from a run with no other thread",
                "expected": [[0, ti] for ti in range(nt)], "observed": im["after"]}
    if im["switches_main"] != [True, False]:
        return {"what": "switches seen by the main thread afterwards", "observed": im["switches_main"]}
    for tid, ti in im["log"]:
        if tid != 0 and not case["tracers"][ti]["multi"]:
            return {"what": "worker thread %d delivered to tracer %d which does not allow multiple threads" % (tid, ti)}
    return None


def fails_on_impl(case):
    return oracle_case(case, run_impl([case])[0])


def signature(case, f):
    return "unlisted"


def run(ctx, model_ok):
    rng = ctx.rng
    n = 60 if ctx.tier == "quick" else 600
    cases = [{"tracers": [{"multi": False, "allow_re": False}], "threads": [2, 1], "sched": WITNESS}]
    corpus = lib.os.path.join(lib.VERIF, "corpus", "C17.json")
    if lib.os.path.exists(corpus):
        cases += json.load(open(corpus))
    while len(cases) < n:
        cases.append(gen_case(rng))
    impl = []
    for i in range(0, len(cases), 30):
        impl += run_impl(cases[i:i + 30])
    failures = []
    for c, im in zip(cases, impl):
        f = oracle_case(c, im)
        if f:
            f.update({"case": c, "signature": signature(c, f), "kind": "oracle"})
            failures.append(f)
            if len(failures) >= 2:
                break
    mism, validated = [], 0
    # the model itself (not the property file) must be built for the correspondence
    ok, out = lib.coq_make(["model/Threads.vo", "gen/Switches.vo"])
    if ok:
        rc, out = lib.coq_eval("c17_cases", coq_cases_file(cases), timeout=900)
        vals = lib.parse_marked(out) if rc == 0 else []
        if rc != 0 or len(vals) != len(cases):
            ctx.tie_broken("correspondence", "coqc failed on generated cases (rc=%s, %d/%d results)" % (rc, len(vals), len(cases)), out[-3000:])
        else:
            for c, v, im in zip(cases, vals, impl):
                if "crash" in im or im.get("errors"):
                    mism.append({"case": c, "detail": im})
                    continue
                dlog, sw, after = lib.parse_coq_list(v)
                m = {"log": [list(e) for e in dlog], "switches_main": list(sw), "after": [list(e) for e in after]}
                if m != {k: im[k] for k in m}:
                    mism.append({"case": c, "model": m, "impl": {k: im[k] for k in m}})
                else:
                    validated += 1
            if mism:
                ctx.tie_broken("correspondence", "model/Threads.v and the real scheduler runs disagree on %d of %d cases" % (len(mism), len(cases)), json.dumps(mism[0])[:3000])
    else:
        ctx.tie_broken("correspondence", "model/Threads.v does not build", out)
    # nested emissions inside worker threads (handlers that run instrumented code): model/Reent.v with in_main = false
    from props import C16
    wcases = []
    while len(wcases) < (80 if ctx.tier == "quick" else 600):
        c = C16.gen_case(rng)
        c["worker"] = True
        wcases.append(c)
    wimpl = C16.run_impl(wcases)
    wvalidated = 0
    for c, im in zip(wcases, wimpl):
        f = C16.oracle_case(c, im)
        if f and len(failures) < 3:
            f.update({"case": c, "signature": "unlisted", "kind": "oracle", "harness": "c16_reent.py (worker thread)"})
            failures.append(f)
    ok2, out2 = lib.coq_make(["model/Reent.vo"])
    if ok2:
        rc, out = lib.coq_eval("c17_wcases", C16.coq_cases_file(wcases), timeout=900)
        vals = lib.parse_marked(out) if rc == 0 else []
        if rc != 0 or len(vals) != len(wcases):
            ctx.tie_broken("correspondence", "coqc failed on worker-thread behaviour trees", out[-2000:])
        else:
            wm = []
            for c, v, im in zip(wcases, vals, wimpl):
                if "crash" in im:
                    wm.append({"case": c, "detail": im})
                    continue
                rs, mlog, _ = lib.parse_coq_list(v)
                if [[d, h] for d, h in mlog] != im["log"] or [r for r, _ in rs] != im["raised"]:
                    wm.append({"case": c, "model_log": mlog, "impl_log": im["log"]})
                else:
                    wvalidated += 1
            if wm:
                mism += wm
                ctx.tie_broken("correspondence", "model/Reent.v (worker thread) and the runtime disagree on %d of %d behaviour trees" % (len(wm), len(wcases)), json.dumps(wm[0])[:3000])
    else:
        ctx.tie_broken("correspondence", "model/Reent.v does not build", out2)
    validated += wvalidated
    cases_total = len(cases) + len(wcases)
    # exhaustive on the model side: all merges of 1 main x 1 worker emission satisfy the projection property (thorough)
    return {
        "evaluations": cases_total, "distinct_nontrivial": len({lib.digest(c) for c in cases if len(set(c["sched"])) >= 2}),
        "rule": "the known 27-step witness + random schedules: 2-3 threads x 1-3 emissions, 1-3 tracers (multi-thread 35%, reentrant 30%), "
                "uniformly shuffled or bursty merges of the complete 9-step sequences; each replayed on the real emit_event.py by parking "
                "threads before every modelled statement; non-trivial = at least two threads appear in the schedule",
        "samples": [cases[1] if len(cases) > 1 else cases[0]], "traces_validated": validated,
        "distribution": {"threads": {str(k): sum(1 for c in cases if len(c["threads"]) == k) for k in (2, 3)},
                         "schedule_steps": sum(len(c["sched"]) for c in cases)},
        "failures": failures, "extra": {"model_impl_disagreements": len(mism)},
    }


def replay(ctx, rep):
    f = rep.get("failure") or {}
    case = f.get("case")
    if not case:
        return None
    if "tops" in case:
        from props import C16
        return C16.oracle_case(case, C16.run_impl([case])[0])
    return fails_on_impl(case)
