# C17 - K-thr: model/Threads.v (with gen/Switches.v) vs the real emit_event.py under a deterministic scheduler
import json

import lib

ID = "C17"
PROP_FILE = "props/C17.v"
COQ_TARGETS = ["props/C17.v", "model/Reent.v", "model/Thunk.v"]
THEOREMS = ["C17_main", "C17_workers", "C17_shared_switches_refuted", "C17_replaced_statements", "C17_shared_slot_refuted"]
TRUSTED_BASE = [
    "Coq 8.16.1 kernel, vm_compute for the in-coqc correspondence",
    "translator tools/translators/gen_switches.py (are the switches module globals or threading.local attributes; is the saved-thunk slot of a tracer per "
    "thread; on which tracers the before_stmt emission stores the value)",
    "model/Thunk.v: the two halves of a replaced statement as atomic steps (the emission with its final store; the exec-saved-thunk call), tied by K-thunk "
    "(tools/impl/c17_thunk.py parks threads inside the truth test of the value the emission returned)",
    "tools/impl/c17_lines.py: every line of emit_event.py a scheduling point; oracle only (no model)",
    "model/Threads.v: statement-level steps of _emit_event/_emit_tracer_loop; GIL statement atomicity is modelled, not verified",
    "tools/impl/c17_threads.py: sys.settrace based scheduler that parks threads before each modelled statement",
]
ASSUMPTIONS = [
    "thread switches happen between statements of emit_event.py (finer interleavings inside one store/load do not change the modelled reads and writes)",
    "handlers are observing and do not share mutable tracer state across threads (that is the tracer author's concern)",
]
WITNESS = [1] * 6 + [0] * 7 + [1] * 3 + [0] * 2 + [0] * 9


def gen_case(rng):
    nthreads = rng.choice([2, 2, 2, 3])
    threads = [rng.choice([1, 2, 2, 3])] + [rng.choice([1, 1, 2]) for _ in range(nthreads - 1)]
    tracers = [{"multi": rng.random() < 0.35, "allow_re": rng.random() < 0.3, "h_re": rng.random() < 0.3} for _ in range(rng.choice([1, 2, 2, 3]))]
    steps = []
    for tid, n in enumerate(threads):
        steps += [tid] * (9 * n)
    style = rng.choice(["random", "random", "bursty"])
    if style == "random":
        rng.shuffle(steps)
        sched = steps
    else:
        left = list(threads)
        rem = {tid: 9 * n for tid, n in enumerate(threads)}
        sched = []
        while any(rem.values()):
            tid = rng.choice([t for t, r in rem.items() if r])
            k = min(rem[tid], rng.choice([1, 2, 3, 5, 6, 7, 9]))
            sched += [tid] * k
            rem[tid] -= k
    return {"tracers": tracers, "threads": threads, "sched": sched}


def coq_cases_file(cases):
    L = ["From Coq Require Import List NArith Bool Arith.", "Import ListNotations.",
         "From PyccoloV Require Import gen.Switches model.Threads.",
         "Definition one (ts : list tracer_cfg) (ems : list nat) (sched : list nat) :=",
         "  let s := run_sched switches_shared ts (init ems) sched in",
         "  let s2 := run_sched switches_shared ts {| switches := switches s; threads := set_nth (threads s) 0 (th0 1); dlog := [] |} [0;0;0;0;0;0;0;0;0] in",
         "  (dlog s, (sA (get_sw switches_shared s 0), sR (get_sw switches_shared s 0)), dlog s2)."]
    for c in cases:
        ts = "; ".join("{| multi_thread := %s; allow_re := %s; h_re := %s |}" % ("true" if t["multi"] else "false", "true" if t["allow_re"] else "false", "true" if t.get("h_re") else "false") for t in c["tracers"])
        L.append("Eval vm_compute in one [%s] [%s]%%nat [%s]%%nat." % (ts, "; ".join(map(str, c["threads"])), "; ".join(map(str, c["sched"]))))
    return "\n".join(L) + "\n"


def run_impl(cases):
    rc, res, out = lib.impl_run("c17_threads.py", cases, timeout=1200)
    if res is None:
        raise RuntimeError("implementation harness failed:\n" + out[-3000:])
    return res


def oracle_case(case, im):
    """the property on the implementation: main thread gets what it gets alone; workers reach only multi-thread tracers"""
    if "crash" in im:
        return {"what": "harness crashed: " + im["crash"], "tb": im.get("tb")}
    if im["errors"]:
        return {"what": "scheduler error", "errors": im["errors"]}
    nt = len(case["tracers"])
    alone = [[0, ti] for _ in range(case["threads"][0]) for ti in range(nt)]
    main_log = [e for e in im["log"] if e[0] == 0]
    if main_log != alone:
        return {"what": "main thread deliveries during the concurrent activity differ from a run with no other thread",
                "expected": alone, "observed": main_log}
    if im["after"] != [[0, ti] for ti in range(nt)]:
        return {"what": "main thread deliveries AFTER the concurrent activity differ from a run with no other thread",
                "expected": [[0, ti] for ti in range(nt)], "observed": im["after"]}
    if im["switches_main"] != [True, False]:
        return {"what": "switches seen by the main thread afterwards", "observed": im["switches_main"]}
    for tid, ti in im["log"]:
        if tid != 0 and not case["tracers"][ti]["multi"]:
            return {"what": "worker thread %d delivered to tracer %d which does not allow multiple threads" % (tid, ti)}
    return None


def fails_on_impl(case):
    if "repl_sched" in case:
        return thunk_oracle(case, run_thunk([case])[0])
    if case.get("lines"):
        return lines_oracle(case, run_lines([case])[0])
    return oracle_case(case, run_impl([case])[0])


# ---------------------------------------------------------------- K-thunk: replaced statements (model/Thunk.v)
def gen_thunk_case(rng):
    nthreads = rng.choice([2, 2, 3])
    threads = [rng.choice([1, 2, 3])] + [rng.choice([1, 2, 3]) for _ in range(nthreads - 1)]
    ntr = rng.choice([1, 2, 2, 3])
    tracers = []
    for k in range(ntr):
        repl = {}
        for tid, n in enumerate(threads):
            for i in range(n):
                if rng.random() < 0.45:
                    repl["%d:%d" % (tid, i)] = True
        tracers.append({"multi": rng.random() < 0.5, "repl": repl})
    sched = [rng.randrange(nthreads) for _ in range(rng.randrange(6, 40))]
    return {"tracers": tracers, "threads": threads, "sched": sched, "repl_sched": True}


def final_repl(case, tid, i):
    """the replacement finally left for statement i of thread tid: the last tracer that sees the thread and replaces it"""
    r = None
    for k, t in enumerate(case["tracers"]):
        if (tid == 0 or t["multi"]) and t["repl"].get("%d:%d" % (tid, i)):
            r = k
    return r


def run_thunk(cases):
    rc, res, out = lib.impl_run("c17_thunk.py", cases, timeout=1200)
    if res is None:
        raise RuntimeError("implementation harness failed:\n" + out[-3000:])
    return res


def thunk_spec(case):
    rec, log = {}, {}
    for tid, n in enumerate(case["threads"]):
        rec[tid] = [(["o", tid, i] if final_repl(case, tid, i) is None else ["r", tid, i, final_repl(case, tid, i)]) for i in range(n)]
        log[tid] = [[tid, i, k] for i in range(n) for k, t in enumerate(case["tracers"]) if tid == 0 or t["multi"]]
    return rec, log


def thunk_oracle(case, im):
    """per thread: the statements that ran (original or replacement) and the deliveries are those of the thread running alone"""
    if "crash" in im:
        return {"what": "harness crashed: " + im["crash"], "tb": im.get("tb")}
    if im["errors"]:
        return {"what": "scheduler error", "errors": im["errors"]}
    rec, log = thunk_spec(case)
    for tid in range(len(case["threads"])):
        got = [e for e in im["rec"] if e[1] == tid]
        if got != rec[tid]:
            return {"what": "thread %d (%s): statements run under the schedule differ from the thread running alone" % (tid, "main" if tid == 0 else "worker"),
                    "expected": rec[tid], "observed": got, "kind": "thunk"}
        gl = [e for e in im["log"] if e[0] == tid]
        if gl != log[tid]:
            return {"what": "thread %d: before_stmt deliveries differ from the thread running alone" % tid, "expected": log[tid], "observed": gl, "kind": "thunk"}
    if im["after"] != [["r", 0, 99, len(case["tracers"]) - 1]]:
        return {"what": "a replaced main-thread statement AFTER the concurrent activity", "expected": [["r", 0, 99, len(case["tracers"]) - 1]], "observed": im["after"], "kind": "thunk"}
    return None


def windows_interleaved(c):
    """does the schedule run another thread's step while some thread is between the two halves of a replaced statement? (simulated)"""
    pos = [[0, False] for _ in c["threads"]]
    for t in c["sched"]:
        if t >= len(pos) or pos[t][0] >= c["threads"][t]:
            continue
        if any(w for u, (_, w) in enumerate(pos) if u != t):
            return True
        if pos[t][1]:
            pos[t] = [pos[t][0] + 1, False]
        elif final_repl(c, t, pos[t][0]) is not None:
            pos[t][1] = True
        else:
            pos[t][0] += 1
    return False


def thunk_cases_file(cases):
    L = ["From Coq Require Import List NArith Bool Arith.", "Import ListNotations.",
         "From PyccoloV Require Import gen.Switches.", "From PyccoloV Require model.Thunk.",
         "Definition code (o : Thunk.outcome) : N := match o with Thunk.Orig => 0%N | Thunk.Fail => 1%N | Thunk.Ran v => (2 + v)%N end.",
         "Definition one (ms : list bool) (progs : list (list (option N))) (sched : list nat) :=",
         "  let s := Thunk.run thunk_shared thunk_store_all (fun k => nth k ms false) (length ms - 1) sched (Thunk.init (fun t => nth t progs [])) in",
         "  map (fun t => map code (Thunk.outs (Thunk.threads s t))) (seq 0 (length progs))."]
    for c in cases:
        progs = []
        for tid, n in enumerate(c["threads"]):
            progs.append("[%s]" % "; ".join("None" if final_repl(c, tid, i) is None else "Some %d%%N" % final_repl(c, tid, i) for i in range(n)))
        L.append("Eval vm_compute in one [%s] [%s] [%s]%%nat." % ("; ".join("true" if t["multi"] else "false" for t in c["tracers"]), "; ".join(progs), "; ".join(map(str, c["sched"]))))
    return "\n".join(L) + "\n"


def thunk_impl_view(case, im):
    """per thread, the outcomes in the model's coding, cut where the schedule stops (the harness then lets every thread finish)"""
    out = []
    for tid in range(len(case["threads"])):
        row = []
        for e in im["rec"]:
            if e[1] == tid:
                row.append(0 if e[0] == "o" else (1 if e[0] == "x" else 2 + e[3]))
        out.append(row)
    return out


# ---------------------------------------------------------------- K-lines: every line of emit_event.py is a scheduling point
def gen_lines_case(rng):
    nthreads = rng.choice([2, 2, 3])
    threads = [rng.choice([1, 2])] + [rng.choice([1, 2]) for _ in range(nthreads - 1)]
    tracers = [{"multi": rng.random() < 0.5, "allow_re": rng.random() < 0.3, "h_re": rng.random() < 0.3, "nest": rng.random() < 0.5, "region": rng.random() < 0.3}
               for _ in range(rng.choice([1, 2, 2]))]
    sched = []
    for _ in range(rng.randrange(10, 120)):
        sched += [rng.randrange(nthreads)] * rng.choice([1, 1, 2, 3, 5, 8, 13])
    return {"tracers": tracers, "threads": threads, "sched": sched, "lines": True}


def run_lines(cases):
    rc, res, out = lib.impl_run("c17_lines.py", cases, timeout=1200)
    if res is None:
        raise RuntimeError("implementation harness failed:\n" + out[-3000:])
    return res


def lines_oracle(case, im):
    if "crash" in im:
        return {"what": "harness crashed: " + im["crash"], "tb": im.get("tb")}
    r = im["run"]
    if r["errors"] or any(a["errors"] for a in im["alone"].values()):
        return {"what": "scheduler error", "errors": r["errors"] + [e for a in im["alone"].values() for e in a["errors"]]}
    for tid in range(len(case["threads"])):
        alone = im["alone"][str(tid)]
        got = [e for e in r["log"] if e[0] == tid]
        if got != alone["log"]:
            return {"what": "%s thread %d: deliveries [thread, tracer, handlers already running] under the line-level schedule differ from the thread running alone"
                            % ("main" if tid == 0 else "worker", tid), "expected": alone["log"], "observed": got, "kind": "lines"}
        for x in got:
            if tid != 0 and not case["tracers"][x[1]]["multi"]:
                return {"what": "worker thread %d delivered to tracer %d which does not allow multiple threads" % (tid, x[1]), "kind": "lines"}
    if r["after"] != im["alone"]["0"]["after"]:
        return {"what": "main thread deliveries AFTER the concurrent activity differ from a run with no other thread", "expected": im["alone"]["0"]["after"], "observed": r["after"], "kind": "lines"}
    if r["switches_main"] != [True, False]:
        return {"what": "switches seen by the main thread afterwards", "observed": r["switches_main"], "kind": "lines"}
    return None


def signature(case, f):
    return "unlisted"


def run(ctx, model_ok):
    rng = ctx.rng
    n = 60 if ctx.tier == "quick" else 600
    cases = [{"tracers": [{"multi": False, "allow_re": False}], "threads": [2, 1], "sched": WITNESS}]
    corpus = lib.os.path.join(lib.VERIF, "corpus", "C17.json")
    if lib.os.path.exists(corpus):
        cases += json.load(open(corpus))
    while len(cases) < n:
        cases.append(gen_case(rng))
    impl = []
    for i in range(0, len(cases), 30):
        impl += run_impl(cases[i:i + 30])
    failures = []
    located = not (impl and "crash" in impl[0] and str(impl[0]["crash"]).startswith("locate:"))
    if not located:
        ctx.tie_broken("correspondence", "K-thr: the modelled statement-level steps cannot be found in emit_event.py (%s); the line-level scheduler (K-lines) "
                       "searches for a failing schedule without them" % impl[0]["crash"], "")
    for c, im in zip(cases, impl):
        f = oracle_case(c, im) if located else None
        if f:
            f.update({"case": c, "signature": signature(c, f), "kind": "oracle"})
            failures.append(f)
            if len(failures) >= 2:
                break
    mism, validated = [], 0
    # the model itself (not the property file) must be built for the correspondence
    ok, out = lib.coq_make(["model/Threads.vo", "gen/Switches.vo"])
    if ok and located:
        rc, out = lib.coq_eval("c17_cases", coq_cases_file(cases), timeout=900)
        vals = lib.parse_marked(out) if rc == 0 else []
        if rc != 0 or len(vals) != len(cases):
            ctx.tie_broken("correspondence", "coqc failed on generated cases (rc=%s, %d/%d results)" % (rc, len(vals), len(cases)), out[-3000:])
        else:
            for c, v, im in zip(cases, vals, impl):
                if "crash" in im or im.get("errors"):
                    mism.append({"case": c, "detail": im})
                    continue
                dlog, sw, after = lib.parse_coq_list(v)
                m = {"log": [list(e) for e in dlog], "switches_main": list(sw), "after": [list(e) for e in after]}
                if m != {k: im[k] for k in m}:
                    mism.append({"case": c, "model": m, "impl": {k: im[k] for k in m}})
                else:
                    validated += 1
            if mism:
                ctx.tie_broken("correspondence", "model/Threads.v and the real scheduler runs disagree on %d of %d cases" % (len(mism), len(cases)), json.dumps(mism[0])[:3000])
    elif not ok:
        ctx.tie_broken("correspondence", "model/Threads.v does not build", out)
    # replaced statements: K-thunk (model/Thunk.v vs the real before_stmt replacement protocol under a two-halves scheduler)
    tcases = [dict(r) for r in getattr(ctx, "known_replays", []) + getattr(ctx, "fixed_replays", []) if "repl_sched" in r]
    while len(tcases) < (80 if ctx.tier == "quick" else 800):
        tcases.append(gen_thunk_case(rng))
    timpl = []
    for i in range(0, len(tcases), 40):
        timpl += run_thunk(tcases[i:i + 40])
    tfail = 0
    for c, im in zip(tcases, timpl):
        f = thunk_oracle(c, im)
        if f and tfail < 2:
            tfail += 1
            f.update({"case": c, "signature": "unlisted", "harness": "c17_thunk.py"})
            failures.append(f)
    tvalidated = 0
    ok3, out3 = lib.coq_make(["model/Thunk.vo", "gen/Switches.vo"])
    if ok3:
        rc, out = lib.coq_eval("c17_tcases", thunk_cases_file(tcases), timeout=900)
        vals = lib.parse_marked(out) if rc == 0 else []
        if rc != 0 or len(vals) != len(tcases):
            ctx.tie_broken("correspondence", "coqc failed on the replaced-statement cases (rc=%s, %d/%d)" % (rc, len(vals), len(tcases)), out[-2000:])
        else:
            tm = []
            for c, v, im in zip(tcases, vals, timpl):
                if "crash" in im or im.get("errors"):
                    tm.append({"case": c, "detail": im})
                    continue
                mv = [list(r) for r in lib.parse_coq_list(v)]
                iv = thunk_impl_view(c, im)
                # the model stops where the schedule stops; the real threads then run to completion: the model's outcomes are a prefix
                if any(m != i_[:len(m)] for m, i_ in zip(mv, iv)) or len(mv) != len(iv):
                    tm.append({"case": c, "model": mv, "impl": iv})
                else:
                    tvalidated += 1
            if tm:
                mism += tm
                ctx.tie_broken("correspondence", "model/Thunk.v and the real replacement protocol disagree on %d of %d schedules" % (len(tm), len(tcases)), json.dumps(tm[0])[:3000])
    else:
        ctx.tie_broken("correspondence", "model/Thunk.v does not build", out3)
    validated += tvalidated
    # every line of emit_event.py as a scheduling point, nested emissions in all threads: the property itself, no model
    lcases = [dict(r) for r in getattr(ctx, "known_replays", []) + getattr(ctx, "fixed_replays", []) if r.get("lines")]
    while len(lcases) < (60 if ctx.tier == "quick" else 700):
        lcases.append(gen_lines_case(rng))
    limpl = []
    for i in range(0, len(lcases), 30):
        limpl += run_lines(lcases[i:i + 30])
    lfail = 0
    for c, im in zip(lcases, limpl):
        f = lines_oracle(c, im)
        if f and lfail < 2:
            lfail += 1
            f.update({"case": c, "signature": "unlisted", "harness": "c17_lines.py"})
            failures.append(f)
    # process-wide import state while a worker imports: the finder installed by the main thread's context stays on sys.meta_path for everybody
    mcases = [{"kind": k, "has_sys": h} for k in ("missing", "plain", "accepted") for h in (False, True)]
    rcm, mres, mout = lib.impl_run("c17_meta.py", mcases, timeout=600)
    if mres is None:
        raise RuntimeError("implementation harness failed:\n" + mout[-3000:])
    for c, im in zip(mcases, mres):
        f = None
        if "crash" in im or im.get("errors"):
            f = {"what": "worker import harness failed: %s" % (im.get("crash") or im.get("errors")), "kind": "meta"}
        elif not im["seen"] or not all(ok for _, ok in im["seen"]):
            f = {"what": "while a worker thread imported %r, sys.meta_path (process-wide) did not contain the finder of the main thread's context: a main-thread "
                         "import in that window is loaded uninstrumented" % (im["seen"][0][0] if im["seen"] else "?"), "observed": im["seen"], "kind": "meta"}
        elif im["main_events"] != 2 or im["worker_events"] != 0:
            f = {"what": "a module imported on the main thread after a worker's import delivered %d events (expected 2); the worker's import delivered %d (expected 0)"
                         % (im["main_events"], im["worker_events"]), "kind": "meta"}
        if f and len(failures) < 3:
            f.update({"case": c, "signature": "unlisted", "harness": "c17_meta.py"})
            failures.append(f)
    # nested emissions inside worker threads (handlers that run instrumented code): model/Reent.v with in_main = false
    from props import C16
    wcases = []
    while len(wcases) < (80 if ctx.tier == "quick" else 600):
        c = C16.gen_case(rng)
        if c.get("via", "assign") != "assign":
            continue              # the interpreter's trace function is per thread (a worker has none), and the import hook serves the thread that entered the context
        c["worker"] = True
        wcases.append(c)
    wimpl = C16.run_impl(wcases)
    wvalidated = 0
    for c, im in zip(wcases, wimpl):
        f = C16.oracle_case(c, im)
        if f and len(failures) < 3:
            f.update({"case": c, "signature": "unlisted", "kind": "oracle", "harness": "c16_reent.py (worker thread)"})
            failures.append(f)
    ok2, out2 = lib.coq_make(["model/Reent.vo"])
    if ok2:
        rc, out = lib.coq_eval("c17_wcases", C16.coq_cases_file(wcases), timeout=900)
        vals = lib.parse_marked(out) if rc == 0 else []
        if rc != 0 or len(vals) != len(wcases):
            ctx.tie_broken("correspondence", "coqc failed on worker-thread behaviour trees", out[-2000:])
        else:
            wm = []
            for c, v, im in zip(wcases, vals, wimpl):
                if "crash" in im:
                    wm.append({"case": c, "detail": im})
                    continue
                rs, mlog, _ = lib.parse_coq_list(v)
                if [[d, h] for d, h in mlog] != im["log"] or [r for r, _ in rs] != im["raised"]:
                    wm.append({"case": c, "model_log": mlog, "impl_log": im["log"]})
                else:
                    wvalidated += 1
            if wm:
                mism += wm
                ctx.tie_broken("correspondence", "model/Reent.v (worker thread) and the runtime disagree on %d of %d behaviour trees" % (len(wm), len(wcases)), json.dumps(wm[0])[:3000])
    else:
        ctx.tie_broken("correspondence", "model/Reent.v does not build", out2)
    validated += wvalidated
    cases_total = len(cases) + len(wcases) + len(tcases) + len(lcases)
    # exhaustive on the model side: all merges of 1 main x 1 worker emission satisfy the projection property (thorough)
    return {
        "evaluations": cases_total, "distinct_nontrivial": len({lib.digest(c) for c in cases if len(set(c["sched"])) >= 2}),
        "rule": "the known 27-step witness + random schedules: 2-3 threads x 1-3 emissions, 1-3 tracers (multi-thread 35%, reentrant 30%), "
                "uniformly shuffled or bursty merges of the complete 9-step sequences; each replayed on the real emit_event.py by parking "
                "threads before every modelled statement; non-trivial = at least two threads appear in the schedule.  K-thunk: 2-3 threads x 1-3 statements, "
                "1-3 tracers (multi-thread 50%) whose before_stmt handlers replace 45% of the statements, random schedules over the two halves of every replaced "
                "statement (emission / exec of the saved value), vs model/Thunk.v and vs each thread alone.  K-lines: 2-3 threads x 1-2 statements, handlers that run "
                "nested instrumented code (with / without a reentrant region), every line of every function of emit_event.py a scheduling point, random bursty "
                "schedules, oracle = each thread's deliveries equal those of the same thread running alone",
        "samples": [cases[1] if len(cases) > 1 else cases[0]], "traces_validated": validated,
        "distribution": {"threads": {str(k): sum(1 for c in cases if len(c["threads"]) == k) for k in (2, 3)},
                         "schedule_steps": sum(len(c["sched"]) for c in cases),
                         "replaced_statement_schedules": len(tcases), "replaced_statements": sum(1 for c in tcases for tid, n in enumerate(c["threads"]) for i in range(n) if final_repl(c, tid, i) is not None),
                         "replaced_windows_interleaved": sum(1 for c, im in zip(tcases, timpl) if "rec" in im and windows_interleaved(c)),
                         "line_level_schedules": len(lcases), "line_level_steps": sum(len(c["sched"]) for c in lcases),
                         "line_level_nested_deliveries": sum(1 for im in limpl if "run" in im for e in im["run"]["log"] if e[2] >= 1)},
        "failures": failures, "extra": {"model_impl_disagreements": len(mism)},
    }


def replay(ctx, rep):
    f = rep.get("failure") or {}
    case = f.get("case")
    if not case:
        return None
    if "tops" in case:
        from props import C16
        return C16.oracle_case(case, C16.run_impl([case])[0])
    if f.get("harness") == "c17_meta.py":
        rcm, mres, mout = lib.impl_run("c17_meta.py", [case], timeout=600)
        im = (mres or [{"crash": "harness failed"}])[0]
        if "crash" in im or im.get("errors") or not im.get("seen") or not all(ok for _, ok in im["seen"]) or im["main_events"] != 2 or im["worker_events"] != 0:
            return {"what": "process-wide import state during a worker's import", "observed": im}
        return None
    return fails_on_impl(case)
