# C09 - K-sys: model/SysTrace.v vs real sys.settrace runs; oracle = plain recorder / third-party logs with and without pyccolo
import itertools
import json
import random

import lib
import gen_prog

ID = "C09"
PROP_FILE = "props/C09.v"
COQ_TARGETS = ["props/C09.v", "model/SysHist.v"]
THEOREMS = ["C09_handler_log", "C09_third_party", "C09_histories", "C09_histories_refuted", "C09_no_rebind_refuted"]
TRUSTED_BASE = [
    "Coq 8.16.1 kernel, vm_compute for the in-coqc correspondence",
    "model/SysTrace.v: CPython 3.12's trace_trampoline rule (transcribed, validated by K-sys against the real interpreter) and a hand "
    "transcription of _sys_tracer/_make_composed_tracer, tied by K-sys",
    "tools/impl/c09_sys.py (real recorders), tools/props/C09.py (rebuilds the frame tree of a run from the plain recorder's log)",
]
ASSUMPTIONS = [
    "handlers are observing (a 'call' handler returning Null, which asks not to trace a frame, is outside the statement)",
    "trace functions installed mid-run by user code are covered by the oracle and the correspondence of the logs, not by the theorem",
    "a generator resumption is modelled as a separate frame",
]
EVTS = ["call", "line", "return", "exception"]
SUBSETS = [list(s) for k in range(1, 5) for s in itertools.combinations(EVTS, k)]
GENS = """
def gsum(n):
    s = 0
    for v in gen2(n):
        s = s + v
    return s
def gen2(n):
    for q in range(n):
        yield q + t(90, 1)
def rec(n):
    if n <= 0:
        raise ValueError("deep")
    return rec(n - 1)
try:
    rec(2)
except ValueError:
    pass
zz = gsum(2)
"""


def gen_case(rng, k):
    src = gen_prog.PRELUDE + (GENS if rng.random() < 0.5 else "") + gen_prog.gen_program(random.Random(rng.random()), rng.choice(["core", "wide"]), nstmts=rng.choice([2, 3]))
    tp = rng.choice([None, None, "self", "local", "selective", "switch"])
    install = rng.choice(["pre", "pre", "mid", "hist", "hist"]) if tp else None
    if tp == "switch":
        install = rng.choice(["hist", "hist", "mid"])         # only model/SysHist.v knows the second local function
    c = {"src": src, "src_mid": "install()\n" + src, "events": SUBSETS[k % len(SUBSETS)], "third_party": tp, "install": install}
    if install == "hist":
        # a history of sys.settrace(A) / sys.settrace(B) / sys.settrace(None) calls made by the user program itself, between its
        # top-level statements, optionally with A already in place when the context is entered
        import ast
        starts = [n.lineno for n in ast.parse(src).body]
        first = len(ast.parse(gen_prog.PRELUDE).body)
        slots = starts[first:] + [len(src.splitlines()) + 1]
        steps = sorted(((rng.choice(slots), rng.choice(["A", "B", "off", "off", "ext:off", "ext:A", "ext:B"])) for _ in range(rng.choice([1, 2, 3, 4]))), key=lambda x: x[0])
        lines = src.splitlines()
        for ln, what in reversed(steps):
            lines.insert(ln - 1, "tp_step(%r)" % what)
        c["src_mid"] = "\n".join(lines) + "\n"
        c["steps"] = [w for _, w in steps]
        c["pre"] = rng.choice([None, "A"])
    return c


def run_impl(cases):
    out = []
    for i in range(0, len(cases), 40):
        rc, res, o = lib.impl_run("c09_sys.py", cases[i:i + 40], timeout=1200)
        if res is None:
            raise RuntimeError("implementation harness failed:\n" + o[-3000:])
        out += res
    return out


def strip(log):
    return [list(e) for e in log]        # (which of its functions, event, frame, line)


def oracle_case(c, r):
    if "crash" in r:
        return {"what": "harness crashed: " + r["crash"], "tb": r.get("tb")}
    S = set(c["events"])
    exp = [e for e in r["plain"]["rec"] if e[0] in S]
    if exp != r["traced"]["hlog"]:
        i = next((j for j, (a, b) in enumerate(zip(exp, r["traced"]["hlog"])) if a != b), min(len(exp), len(r["traced"]["hlog"])))
        return {"what": "handler log differs from the plain recorder's log filtered to %s at position %d (expected %d events, got %d)"
                        % (sorted(S), i, len(exp), len(r["traced"]["hlog"])), "expected_at": exp[i:i + 3], "observed_at": r["traced"]["hlog"][i:i + 3], "kind": "handlers"}
    if r["plain"]["out"] != r["traced"]["out"]:
        return {"what": "program result / exception differs from the untraced run", "expected": r["plain"]["out"], "observed": r["traced"]["out"], "kind": "result"}
    if c["third_party"]:
        a, b = strip(r["plain"]["tp_log"]), strip(r["traced"]["tp_log"])
        if a != b:
            i = next((j for j, (x, y) in enumerate(zip(a, b)) if x != y), min(len(a), len(b)))
            return {"what": "third-party (%s, installed %s) trace function received different events with pyccolo (%d vs %d), first difference at %d"
                            % (c["third_party"], c["install"], len(a), len(b), i), "expected_at": a[i:i + 3], "observed_at": b[i:i + 3], "kind": "third-party"}
        if c["install"] == "hist":
            if r["traced"]["tp_in_place_after"] != r["plain"]["tp_in_place_after"]:
                return {"what": "after the history %s (pre-installed: %s) sys.gettrace() reports %s once the context is over; without pyccolo: %s"
                                % (c["steps"], c["pre"], r["traced"]["tp_in_place_after"], r["plain"]["tp_in_place_after"]), "kind": "after"}
        elif r["traced"]["tp_in_place_after"] is not True:
            return {"what": "the third-party trace function is not the one in place afterwards", "kind": "after"}
    elif r["traced"]["tp_in_place_after"] is not True:
        return {"what": "a trace function is left installed afterwards", "kind": "after"}
    return None


def fails_on_impl(c):
    return oracle_case(c, run_impl([c])[0])


# ---------------------------------------------------------------- model side
def tree_of(rec, intern):
    """rebuild the tree of frames from the plain recorder's log"""
    root = ["root", []]
    stack = [root]
    for evt, name, _ in rec:
        if evt == "call":
            fr = [intern(name), []]
            stack[-1][1].append(("F", fr))
            stack.append(fr)
        elif evt == "line":
            stack[-1][1].append(("L",))
        elif evt == "exception":
            stack[-1][1].append(("E",))
        elif evt == "return":
            stack.pop()
    return [f for k, *f in [(x[0], x[1]) if x[0] == "F" else (x[0],) for x in root[1]] if k == "F"]


def coq_frame(fr):
    name, items = fr
    parts = []
    for it in items:
        if it[0] == "L":
            parts.append("Nd TLine []")
        elif it[0] == "E":
            parts.append("Nd TExc []")
        else:
            parts.append(coq_frame(it[1]))
    return "Nd (TFrame true %d%%N) [%s]" % (name, "; ".join(parts))


def coq_cases_file(rows):
    L = ["From Coq Require Import List NArith Bool.", "Import ListNotations.", "From PyccoloV Require Import model.SysTrace.",
         "Definition ev (e : sevt) : nat := match e with SCall => 0 | SLine => 1 | SRet => 2 | SExc => 3 end.",
         "Definition one (c : cfg) (fs : list node) :=",
         "  let l := flat_map (run c VSys) fs in (map (fun x => (ev (fst x), snd x)) (handler_log l), map (fun x => (match fst (fst x) with WG => 0 | _ => 1 end, ev (snd (fst x)), snd x)) (third_log l))."]
    for (S, tp, declined, frames) in rows:
        sub = "fun e => match e with %s end" % " | ".join("%s => %s" % (k, "true" if v in S else "false") for k, v in [("SCall", "call"), ("SLine", "line"), ("SRet", "return"), ("SExc", "exception")])
        if tp:
            acc = "fun nm => negb (existsb (N.eqb nm) [%s])" % "; ".join("%d%%N" % d for d in declined) if tp == "selective" else "fun _ => true"
            tps = "Some {| tp_accepts := %s; tp_self := %s |}" % (acc, "true" if tp == "self" else "false")
        else:
            tps = "None"
        L.append("Eval vm_compute in one {| sub := %s; tp := %s |} [%s]." % (sub, tps, "; ".join(coq_frame(f[0]) for f in frames)))
    return "\n".join(L) + "\n"


# ---------------------------------------------------------------- histories: model/SysHist.v
def hist_tree(c, rec, intern):
    """the frame tree of the plain recorder's log, with the program's settrace calls (and the frames of the non-accepted helper they are made in)
    placed after the line events of the tp_step(...) lines of the module frame"""
    steps = {}
    for ln, text in enumerate(c["src_mid"].splitlines(), 1):
        if text.startswith("tp_step("):
            steps[ln] = text[len("tp_step('"):-2]
    root = ["root", []]
    stack = [root]
    for evt, name, line in rec:
        if evt == "call":
            fr = [intern(name), []]
            stack[-1][1].append(("F", fr))
            stack.append(fr)
        elif evt == "line":
            stack[-1][1].append(("L",))
            if len(stack) == 2 and name == "<module>" and line in steps:
                what = steps[line]
                g = {"A": 0, "B": 1, "off": None}[what.split(":")[-1]]
                if what.startswith("ext:"):
                    stack[-1][1].append(("X", intern("ext"), g))
                else:
                    stack[-1][1].append(("S", g))
        elif evt == "exception":
            stack[-1][1].append(("E",))
        elif evt == "return":
            stack.pop()
    return [x[1] for x in root[1] if x[0] == "F"]


def hist_frame(fr, acc="true"):
    name, items = fr
    parts = []
    for it in items:
        if it[0] == "L":
            parts.append("Nd TLine []")
        elif it[0] == "E":
            parts.append("Nd TExc []")
        elif it[0] == "S":
            parts.append("Nd (TSet %s) []" % ("None" if it[1] is None else "(Some %d%%nat)" % it[1]))
        elif it[0] == "X":
            parts.append("Nd (TFrame false %d%%N) [Nd TLine []; Nd TLine []; Nd (TSet %s) []; Nd TLine []; Nd TLine []]"
                         % (it[1], "None" if it[2] is None else "(Some %d%%nat)" % it[2]))
        else:
            parts.append(hist_frame(it[1]))
    return "Nd (TFrame %s %d%%N) [%s]" % (acc, name, "; ".join(parts))


def hist_cases_file(rows):
    L = ["From Coq Require Import List NArith Bool Arith.", "Import ListNotations.", "From PyccoloV Require Import gen.SysFlags model.SysHist.",
         "Definition ev (e : sevt) : nat := match e with SCall => 0 | SLine => 1 | SRet => 2 | SExc => 3 end.",
         "Definition wh (w : who) : nat * nat := match w with WH => (9, 0) | WG i => (0, i) | WL i => (1, i) | WL2 i => (2, i) end.",
         "Definition one (tps : nat -> third) (sub : sevt -> bool) (g : option nat) (fs : list node) :=",
         "  let '(g1, l) := fold_left (fun st f => let '(g0, l0) := st in let '(g', l') := pyc tps sub sys_checks_uninstall sys_wraps_foreign sys_rebinds_local g0 f in (g', l0 ++ l')) fs (g, []) in",
         "  (match g1 with None => 9 | Some i => i end, map (fun x => (ev (fst x), snd x)) (handler_log l), map (fun x => (wh (fst (fst x)), ev (snd (fst x)), snd x)) (third_log l))."]
    for (S, kind, declined, pre, frames) in rows:
        sub = "fun e => match e with %s end" % " | ".join("%s => %s" % (k, "true" if v in S else "false") for k, v in [("SCall", "call"), ("SLine", "line"), ("SRet", "return"), ("SExc", "exception")])
        acc = "fun nm => negb (existsb (N.eqb nm) [%s])" % "; ".join("%d%%N" % d for d in declined) if kind == "selective" else "fun _ => true"
        tps = ("fun i => match i with O => {| tp_accepts := %s; tp_self := %s; tp_switch := %s |} | _ => {| tp_accepts := fun _ => true; tp_self := true; tp_switch := false |} end"
               % (acc, "true" if kind == "self" else "false", "true" if kind == "switch" else "false"))
        L.append("Eval vm_compute in one (%s) (%s) %s [%s]." % (tps, sub, "(Some 0%nat)" if pre == "A" else "None", "; ".join(hist_frame(f) for f in frames)))
    return "\n".join(L) + "\n"


def run(ctx, model_ok):
    rng = ctx.rng
    n = 90 if ctx.tier == "quick" else 900
    cases = [dict(r) for r in getattr(ctx, "known_replays", []) + getattr(ctx, "fixed_replays", []) if "src_mid" in r]
    cases += [gen_case(rng, k) for k in range(n)]
    impl = run_impl(cases)
    failures = []
    for c, r in zip(cases, impl):
        f = oracle_case(c, r)
        if f:
            f.update({"case": {k: c[k] for k in c}, "signature": "unlisted", "kind_": "oracle"})
            failures.append(f)
            if len(failures) >= 2:
                break
    mism, validated = [], 0
    if model_ok:
        rows, idx = [], []
        for i, (c, r) in enumerate(zip(cases, impl)):
            if "crash" in r or c["install"] in ("mid", "hist"):
                continue
            names = {}

            def intern(nm):
                return names.setdefault(nm, len(names) + 1)
            frames = tree_of(r["plain"]["rec"], intern)
            declined = [v for k, v in names.items() if k.startswith("g")]
            rows.append((set(c["events"]), c["third_party"], declined, frames, dict(names)))
            idx.append(i)
        shards = [(k, rows[k:k + 15], idx[k:k + 15]) for k in range(0, len(rows), 15)]
        outs = lib.coq_eval_many([("c09_cases_%d" % k, coq_cases_file([r[:4] for r in rs])) for k, rs, _ in shards], timeout=1200)
        EV = {0: "call", 1: "line", 2: "return", 3: "exception"}
        for k, rs, ids in shards:
            rc, out = outs["c09_cases_%d" % k]
            vals = lib.parse_marked(out) if rc == 0 else []
            if rc != 0 or len(vals) != len(rs):
                ctx.tie_broken("correspondence", "coqc failed on exported runs (rc=%s, %d/%d)" % (rc, len(vals), len(rs)), out[-3000:])
                continue
            for row, i, v in zip(rs, ids, vals):
                inv = {vv: kk for kk, vv in row[4].items()}
                hl, tl = lib.parse_coq_list(v)
                mh = [[EV[e], inv[nm]] for e, nm in hl]
                mt = [["G" if w == 0 else "L", EV[e], inv[nm]] for w, e, nm in tl]
                ih = [[e[0], e[1]] for e in impl[i]["traced"]["hlog"]]
                it = [[e[0], e[1], e[2]] for e in impl[i]["traced"]["tp_log"]]
                if mh != ih or mt != it:
                    mism.append({"case": {kk: cases[i][kk] for kk in ("events", "third_party", "install")}, "src_tail": cases[i]["src"][-400:],
                                 "handler_log_equal": mh == ih, "third_log_equal": mt == it, "model_h": mh[:6], "impl_h": ih[:6], "model_t": mt[:6], "impl_t": it[:6]})
                else:
                    validated += 1
        if mism:
            ctx.tie_broken("correspondence", "model/SysTrace.v and the real runs disagree on %d of %d cases" % (len(mism), len(rows)), json.dumps(mism[0])[:3000])
        # histories against model/SysHist.v
        hrows, hidx = [], []
        for i, (c, r) in enumerate(zip(cases, impl)):
            if "crash" in r or c["install"] != "hist":
                continue
            names = {}

            def intern(nm, names=names):
                return names.setdefault(nm, len(names) + 1)
            frames = hist_tree(c, r["plain"]["rec"], intern)
            declined = [v for k, v in names.items() if k.startswith("g")]
            hrows.append((set(c["events"]), c["third_party"], declined, c["pre"], frames, dict(names)))
            hidx.append(i)
        hshards = [(k, hrows[k:k + 12], hidx[k:k + 12]) for k in range(0, len(hrows), 12)]
        houts = lib.coq_eval_many([("c09_hist_%d" % k, hist_cases_file([r[:5] for r in rs])) for k, rs, _ in hshards], timeout=1200)
        EV = {0: "call", 1: "line", 2: "return", 3: "exception"}
        hm = []
        for k, rs, ids in hshards:
            rc, out = houts["c09_hist_%d" % k]
            vals = lib.parse_marked(out) if rc == 0 else []
            if rc != 0 or len(vals) != len(rs):
                ctx.tie_broken("correspondence", "coqc failed on exported histories (rc=%s, %d/%d)" % (rc, len(vals), len(rs)), out[-3000:])
                continue
            for row, i, v in zip(rs, ids, vals):
                inv = {vv: kk for kk, vv in row[5].items()}
                g1, hl, tl = lib.parse_coq_list(v)
                mh = [[EV[e], inv[nm]] for e, nm in hl]
                mt = [["AB"[wi] + "GLM"[wk], EV[e], inv[nm]] for wk, wi, e, nm in tl]
                ih = [[e[0], e[1]] for e in impl[i]["traced"]["hlog"]]
                it = [[e[0], e[1], e[2]] for e in impl[i]["traced"]["tp_log"]]
                after = {0: "A", 1: "B", 9: None}[g1]
                if mh != ih or mt != it or after != impl[i]["traced"]["tp_in_place_after"]:
                    hm.append({"case": {kk: cases[i][kk] for kk in ("events", "third_party", "install", "steps", "pre")}, "src_tail": cases[i]["src_mid"][-500:],
                               "handler_log_equal": mh == ih, "third_log_equal": mt == it, "after": [after, impl[i]["traced"]["tp_in_place_after"]],
                               "model_t": mt[:12], "impl_t": it[:12]})
                else:
                    validated += 1
        if hm:
            mism += hm
            ctx.tie_broken("correspondence", "model/SysHist.v and the real settrace histories disagree on %d of %d cases" % (len(hm), len(hrows)), json.dumps(hm[0])[:3500])
    hist = {}
    for c in cases:
        key = "%s/%s" % (c["third_party"], c["install"])
        hist[key] = hist.get(key, 0) + 1
    nev = sum(len(r["plain"]["rec"]) for r in impl if "plain" in r)
    return {
        "evaluations": len(cases), "distinct_nontrivial": len({lib.digest(c) for c in cases}),
        "rule": "generated programs (prelude with helper functions and a context manager, optionally generators + recursion raising through frames, then "
                "2-3 generated statements with calls, loops, try/except, raises) x all 15 non-empty subsets of {call,line,return,exception} in rotation x "
                "{no third-party, returns itself, returns a distinct local function, declines frames named g*} x {installed before, installed mid-run by "
                "user code, a history of 1-4 sys.settrace(A) / sys.settrace(B) / sys.settrace(None) calls between the program's top-level statements with or without A "
                "pre-installed, some of them made while a frame of a file the tracer does not accept is running, which the third-party functions follow too "
                "(oracle: logs of A and B and sys.gettrace() afterwards equal the run without pyccolo)}; every case has >= 60 interpreter events",
        "samples": [{k: cases[0][k] for k in ("events", "third_party", "install")}], "traces_validated": validated,
        "distribution": {"third_party/install": hist, "interpreter_events_recorded": nev,
                         "programs_ending_in_exception": sum(1 for r in impl if "plain" in r and "exc" in r["plain"]["out"])},
        "failures": failures, "extra": {"model_impl_disagreements": len(mism)},
    }


def replay(ctx, rep):
    case = (rep.get("failure") or {}).get("case")
    return fails_on_impl(case) if case else None
