# shared by C12 / C13: generated package layouts on disk, one subprocess per "process" of a history, canonical observations
import json
import os
import shutil
import subprocess
import tempfile
from concurrent.futures import ThreadPoolExecutor

import lib

FILES = ["pk/__init__.py", "pk/a.py", "pk/b.py", "sub/__init__.py", "sub/c.py", "px/d.py", "px/e.py", "px/g.py"]      # keys used by the tracers' filename filters
MODULE_OF = {"pk/__init__.py": "pk", "pk/a.py": "pk.a", "pk/b.py": "pk.b", "sub/__init__.py": "pk.sub", "sub/c.py": "pk.sub.c", "px/d.py": "px.d", "px/e.py": "px.e", "px/g.py": "px.g"}
BASENAME = {k: k.split("/")[1] for k in FILES}


def gen_layout(rng):
    """module sources of package `pk` (import styles, work done at import time, loops / comprehensions / lambdas / functions,
    a function of one module running while another module is being imported)"""
    k = rng.randrange(1, 9)
    imp_b = rng.choice(["from . import b", "import pk.b as b", "from pk import b"])
    imp_c = rng.choice(["from .. import b\nfrom ..b import fb", "import pk.b as b\nfrom pk.b import fb"])
    a_calls_b = rng.random() < 0.7
    loop = rng.choice(["for i in range(n):\n        t += i + X", "i = 0\n    while i < n:\n        t += i + X\n        i += 1"])
    files = {
        "pk/__init__.py": "from . import a\nfrom .sub import c as subc\nVAL = a.fa(2) + subc.fc(%d)\n" % k,
        "pk/a.py": "%s\nX = %d\ndef fa(n):\n    \"\"\"doc\"\"\"\n    t = 0\n    %s\n    return t%s\nY = [q * 2 for q in range(3) if q != %d]\nZ = fa(3)\n"
                   % (imp_b, k, loop, " + b.fb(n)" if a_calls_b else "", k % 3),
        "pk/b.py": "K = %d\ndef fb(n):\n    return n * K if n > 1 else (lambda q: q + 1)(n)\nW = fb(2) + fb(1)\n" % (10 + k),
        "pk/sub/__init__.py": "from . import c\n",
        "pk/sub/c.py": "%s\ndef fc(n):\n    return fb(n) + b.K\nV = {k: fc(k) for k in range(2)}\n" % imp_c,
        "px/__init__.py": "",
        "px/d.py": "from pk import b\nD = b.fb(%d)\ndef fd():\n    return [D + j for j in range(2)]\nDD = fd()\n" % (k + 1),
        "px/e.py": "E = %d\ndef fe(n=2):\n    s = 0\n    for j in range(n):\n        s += j * E\n    return s\nEE = fe()\n" % k,
        # only ever loaded through a spec obtained inside the context and executed later (C12's deferred loads)
        "px/g.py": "G = %d\ndef fg():\n    return [G + j for j in range(2)]\nGG = fg()\n" % (k + 2),
    }
    return files


def write_package(root, files):
    for rel, src in files.items():
        p = os.path.join(root, rel)
        os.makedirs(os.path.dirname(p), exist_ok=True)
        with open(p, "w") as f:
            f.write(src)


def run_proc(payload, repo=None, dont_write_env=False, timeout=120):
    env = dict(os.environ)
    env.update(lib.impl_env())
    env.pop("PYTHONDONTWRITEBYTECODE", None)
    if dont_write_env:
        env["PYTHONDONTWRITEBYTECODE"] = "1"
    p = subprocess.run([lib.PY, os.path.join(lib.VERIF, "tools", "impl", "c12_proc.py")],
                       input=json.dumps(payload), env=env, stdout=subprocess.PIPE, stderr=subprocess.STDOUT, text=True, timeout=timeout, cwd=payload["root"])
    for line in p.stdout.splitlines():
        if line.startswith("@@"):
            return json.loads(line[2:])
    return {"crash": p.stdout[-1500:], "rc": p.returncode}


def run_history(files, steps, edits=None):
    """steps: list of payload dicts (without root) run IN ORDER as separate processes over one package directory;
    step keys: tracers, imports, pre, post, calls, post_calls, dont_write, fs ('rw' | 'ro'), edit ({rel: new source} applied before the step),
    rm_cache (list of glob suffixes removed before the step)"""
    root = tempfile.mkdtemp(prefix="pyccimp-", dir="/var/tmp")
    os.chmod(root, 0o755)
    out = []
    try:
        write_package(root, files)
        t = 1_600_000_000
        for rel in files:
            os.utime(os.path.join(root, rel), (t, t))
        for si, st in enumerate(steps):
            if st.get("edit"):
                t += 100
                for rel, src in st["edit"].items():
                    with open(os.path.join(root, rel), "w") as f:
                        f.write(src)
                    os.utime(os.path.join(root, rel), (t, t))
            for suf in st.get("rm_cache", []):
                for d, _, fs in os.walk(root):
                    if os.path.basename(d) == "__pycache__":
                        for fn in fs:
                            if fn.endswith(suf):
                                os.remove(os.path.join(d, fn))
            ro_dirs = []
            if st.get("fs") == "ro":
                for d, _, _ in os.walk(root):
                    ro_dirs.append(d)
                for d in ro_dirs:
                    os.chmod(d, 0o555)
            try:
                payload = {k: v for k, v in st.items() if k not in ("edit", "rm_cache", "fs")}
                payload["root"] = root
                payload["drop_uid"] = st.get("fs") == "ro"
                out.append(run_proc(payload, dont_write_env=bool(st.get("dont_write"))))
            finally:
                for d in ro_dirs:
                    os.chmod(d, 0o755)
    finally:
        for d, _, _ in os.walk(root):
            try:
                os.chmod(d, 0o755)
            except OSError:
                pass
        shutil.rmtree(root, ignore_errors=True)
    return out


def run_histories(hs, jobs=14):
    """hs: list of (files, steps); returns list of per-step results"""
    with ThreadPoolExecutor(max_workers=jobs) as ex:
        return list(ex.map(lambda h: run_history(h[0], h[1]), hs))
