# C16 - K-rt correspondence for behaviour trees (model/Reent.v vs real handlers running instrumented code)
import json

import lib

ID = "C16"
PROP_FILE = "props/C16.v"
COQ_TARGETS = ["props/C16.v"]
THEOREMS = ["C16_depth", "C16_restore", "C16_resume", "C16_depth_seq"]
TRUSTED_BASE = [
    "Coq 8.16.1 kernel, vm_compute for the in-coqc correspondence",
    "model/Reent.v: hand transcription of the switch handling in emit_event.py and the gating in tracer._emit_event, tied by K-rt",
    "tools/props/C16.py generator, tools/impl/c16_reent.py harness (handlers that pyc.exec instrumented code)",
]
ASSUMPTIONS = ["single thread (threads are C17)", "a behaviour is the finite unfolding of one run"]


def gen_case(rng):
    nt = rng.choice([1, 1, 2, 2, 3])
    # via: which event carries the emissions - an AST event through emit_event's loop, or (one tracer only: system events are not threaded
    # across the stack, finding C04-sys-events-across-stack) the `call` event of a function of an exec'd sandbox, through tracer._sys_tracer
    # ... or the `return` event of that function, or the after_import event of a module imported under the tracer (import_hooks._emit_import_event):
    # each of the three applies the thread rule and the reentrancy rule on its own, outside emit_event's loop
    r0 = rng.random()
    via = "call" if r0 < 0.15 else "return" if r0 < 0.27 else "import" if r0 < 0.4 else "assign"
    if via != "assign":
        nt = 1
    profile = rng.choice(["plain", "plain", "mixed", "mixed", "optin", "escape", "escape"])
    # "escape": propagated handler exceptions leave nested emissions / regions and are caught further out, by a running handler or at top level
    escape = profile == "escape"
    if escape:
        profile = rng.choice(["mixed", "optin"])
    tracers = []
    for _ in range(nt):
        allow = {"plain": False, "mixed": rng.random() < 0.4, "optin": rng.random() < 0.8}[profile]
        nh = rng.choice([1, 1, 2, 3])
        hs = [{"plain": False, "mixed": rng.random() < 0.4, "optin": rng.random() < 0.8}[profile] for _ in range(nh)]
        tracers.append({"allow_re": allow, "propagate": rng.random() < (0.8 if escape else 0.25), "handlers": hs, "multi": rng.random() < 0.5})
    ids = [0]
    budget = [rng.choice([4, 8, 14])]

    def acts(depth, caught=False):
        out = []
        for _ in range(rng.choice([0, 1, 1, 2] if not escape else [1, 2, 2, 3]) if depth < 4 else 0):
            if budget[0] <= 0:
                break
            r = rng.random()
            if r < (0.6 if not escape else 0.45):
                out.append(em(depth + 1, caught))
            elif r < 0.8 and profile != "plain":
                out.append({"k": "region", "acts": acts(depth + 1, caught)})
            else:
                out.append({"k": "catch", "acts": acts(depth + 1, True)})
        return out

    def em(depth, caught=False):
        budget[0] -= 1
        ts = []
        for t in tracers:
            hs = []
            for _ in t["handlers"]:
                ids[0] += 1
                hs.append({"id": ids[0], "acts": acts(depth), "raises": rng.random() < (0.5 if escape and caught else 0.15), "ctl": rng.choice([0, 0, 0, 0, 1, 2])})
            ts.append(hs)
        return {"k": "em", "tracers": ts}

    def top():
        # top-level program statements: an instrumented statement, or a region / try block around further statements
        r = rng.random()
        if r < (0.7 if not escape else 0.4):
            return em(0)
        if r < 0.85 and profile != "plain":
            return {"k": "region", "acts": acts(0)}
        return {"k": "catch", "acts": acts(0, True)}

    if escape:
        budget[0] += 8
    tops = [top() for _ in range(rng.choice([1, 2, 3] if not escape else [2, 3, 4]))]
    if via != "assign":
        for t in tracers:
            t["propagate"] = False        # an exception leaving a system-trace handler makes CPython drop the trace function (C06-sys-handler-exception-uninstalls)
        # ctl (Skip / SkipAll) on a 'call' event decides about the frame's tracing, which the harness does not observe: same delivery rule
        return {"tracers": tracers, "tops": tops, "worker": False, "via": via}
    return {"tracers": tracers, "tops": tops, "worker": rng.random() < 0.3, "via": "assign"}


def count_ems(n):
    if n["k"] == "em":
        return 1 + sum(count_ems(a) for hs in n["tracers"] for h in hs for a in h["acts"])
    return sum(count_ems(a) for a in n["acts"])


def coq_node(n, tracers):
    if n["k"] == "em":
        ts = []
        for t, hs in zip(tracers, n["tracers"]):
            hh = "; ".join("Node (TgHandler %d%%N %s %s %s) [%s]" % (
                h["id"], b(hre), b(h["raises"]), ["CContinue", "CSkip", "CSkipAll"][h["ctl"]],
                "; ".join(coq_node(a, tracers) for a in h["acts"])) for hre, h in zip(t["handlers"], hs))
            ts.append("Node (TgTracer %s %s false %s) [%s]" % (b(t["allow_re"]), b(t["propagate"]), b(t.get("multi", False)), hh))
        return "Node TgEm [%s]" % "; ".join(ts)
    tag = {"region": "TgRegion", "catch": "TgCatch"}[n["k"]]
    return "Node %s [%s]" % (tag, "; ".join(coq_node(a, tracers) for a in n["acts"]))


def b(x):
    return "true" if x else "false"


def coq_cases_file(cases):
    L = ["From Coq Require Import List NArith Bool.", "Import ListNotations.", "From PyccoloV Require Import model.Reent.",
         "Fixpoint trace (ns : list node) (s : st) : list (bool * (bool * bool)) * st :=",
         "  match ns with [] => ([], s) | n :: ns' => let '(r, s1) := run n s in let '(rs, s2) := trace ns' s1 in ((r, (fA s1, fR s1)) :: rs, s2) end.",
         "Definition one (worker : bool) (ns : list node) := let '(rs, s) := trace ns (if worker then st0_worker else st0) in (rs, map (fun e => (fst (fst e), snd e)) (log s), map (fun e => snd (fst e)) (log s))."]
    for c in cases:
        L.append("Eval vm_compute in one %s [%s]." % (b(c.get("worker", False)), "; ".join(coq_node(t, c["tracers"]) for t in c["tops"])))
    return "\n".join(L) + "\n"


def run_impl(cases):
    rc, res, out = lib.impl_run("c16_reent.py", cases, timeout=900)
    if res is None:
        raise RuntimeError("implementation harness failed:\n" + out[-3000:])
    return res


multi = {}


def opted_map(case):
    """occurrence id -> (inside a region opened by a running handler, tracer allows re-entrant events, handler registered reentrant)"""
    m = {}
    multi.clear()

    def walk(n, in_region):
        if n["k"] == "em":
            for t, hs in zip(case["tracers"], n["tracers"]):
                for hre, h in zip(t["handlers"], hs):
                    m[h["id"]] = (in_region, bool(t["allow_re"]), bool(hre))
                    multi[h["id"]] = bool(t.get("multi", False))
                    for a in h["acts"]:
                        walk(a, in_region)
        else:
            for a in n["acts"]:
                walk(a, in_region or n["k"] == "region")

    for t in case["tops"]:
        walk(t, False)
    return m


def oracle_case(case, im):
    """the property itself: an invocation that happens while another handler is running must be explicitly opted in
    (inside an allow_reentrant_event_handling() region, or on a tracer / handler marked reentrant); switches restored"""
    if "crash" in im:
        return {"what": "harness crashed: " + im["crash"], "tb": im.get("tb")}
    om = opted_map(case)
    for d, hid in im["log"]:
        if case.get("worker") and not multi[hid]:
            return {"what": "handler occurrence %d of a tracer that does not allow multiple threads was invoked on a worker thread" % hid,
                    "observed_log": im["log"]}
        if d >= 1 and not any(om[hid]):
            return {"what": "ordinary handler (occurrence %d: no region around it, tracer and handler not reentrant) invoked while "
                            "%d handler(s) already running" % (hid, d), "observed_log": im["log"]}
    for f in im["flags"]:
        if f != [True, False]:
            return {"what": "switches after a top-level emission are %s, expected [True, False]" % f, "observed": im["flags"]}
    if im["final"] != [True, False, 0]:
        return {"what": "state after the run %s" % im["final"]}
    return None


def fails_on_impl(case):
    return oracle_case(case, run_impl([case])[0])


def run(ctx, model_ok):
    rng = ctx.rng
    n = 300 if ctx.tier == "quick" else 2500
    cases = []
    corpus = lib.os.path.join(lib.VERIF, "corpus", "C16.json")
    if lib.os.path.exists(corpus):
        cases += json.load(open(corpus))
    while len(cases) < n:
        cases.append(gen_case(rng))
    impl = []
    for i in range(0, len(cases), 150):
        impl += run_impl(cases[i:i + 150])
    failures = []
    for c, im in zip(cases, impl):
        f = oracle_case(c, im)
        if f:
            f.update({"case": c, "signature": "unlisted", "kind": "oracle"})
            failures.append(f)
            if len(failures) >= 3:
                break
    mism, validated = [], 0
    if model_ok:
        shards = [(i, cases[i:i + 150]) for i in range(0, len(cases), 150)]
        outs = lib.coq_eval_many([("c16_cases_%d" % i, coq_cases_file(cs)) for i, cs in shards], timeout=900)
        for i, cs in shards:
            rc, out = outs["c16_cases_%d" % i]
            vals = lib.parse_marked(out) if rc == 0 else []
            if rc != 0 or len(vals) != len(cs):
                ctx.tie_broken("correspondence", "coqc failed on generated cases (rc=%s, %d/%d results)" % (rc, len(vals), len(cs)), out[-3000:])
                continue
            for j, (c, v) in enumerate(zip(cs, vals)):
                im = impl[i + j]
                if "crash" in im:
                    mism.append({"case": c, "detail": im["crash"]})
                    continue
                rs, mlog, opted = lib.parse_coq_list(v)
                m = {"log": [[d, hid] for d, hid in mlog], "raised": [r for r, _ in rs], "flags": [[a, r_] for _, (a, r_) in rs]}
                if m["log"] != im["log"] or m["raised"] != im["raised"] or m["flags"] != im["flags"]:
                    mism.append({"case": c, "model": m, "impl": {k: im[k] for k in ("log", "raised", "flags")}})
                else:
                    validated += 1
        if mism:
            ctx.tie_broken("correspondence", "model/Reent.v and the runtime disagree on %d of %d cases" % (len(mism), len(cases)), json.dumps(mism[0])[:3000])
    maxd = {}
    ems = 0
    for c, im in zip(cases, impl):
        ems += sum(count_ems(t) for t in c["tops"])
        d = max([x[0] for x in im.get("log", [])] + [-1]) + 1
        maxd[d] = maxd.get(d, 0) + 1
    return {
        "evaluations": len(cases),
        "distinct_nontrivial": len({lib.digest(c) for c, im in zip(cases, impl) if sum(count_ems(t) for t in c["tops"]) >= 2}),
        "rule": "random behaviour trees (60% started by AST events through emit_event's loop, 15% by the `call` event, 12% by the `return` event of a sandbox function "
                "through tracer._sys_tracer, 13% by the after_import event of a module through import_hooks._emit_import_event - one tracer each): 1-3 tracers x 1-3 handlers, 1-4 top-level statements (an emission, a region or a try block around further "
                "statements), nested emissions/regions/try-except up to depth 4, raises 15%, Skip/SkipAll, propagating tracers 25%, three opt-in profiles (none / mixed / "
                "mostly on) plus an 'escape' profile (propagating tracers 80%, handlers under a try raise 50%: exceptions leave nested emissions and regions and are "
                "caught by a running handler or at top level, which goes on to run instrumented code); non-trivial = >=2 emissions; distinct by sha1",
        "samples": [cases[0]], "traces_validated": validated,
        "distribution": {"emissions": ems, "started_via": {k: sum(1 for c in cases if c.get("via", "assign") == k) for k in ("assign", "call", "return", "import")}, "max_handler_nesting_depth_histogram": maxd,
                         "top_level_statements_left_by_exception": sum(sum(im.get("raised", [])) for im in impl),
                         "top_level_kinds": {k: sum(1 for c in cases for t in c["tops"] if t["k"] == k) for k in ("em", "region", "catch")},
                         "nested_invocations": sum(1 for im in impl for x in im.get("log", []) if x[0] >= 1)},
        "failures": failures, "extra": {"model_impl_disagreements": len(mism)},
    }


def replay(ctx, rep):
    case = (rep.get("failure") or {}).get("case")
    return fails_on_impl(case) if case else None
