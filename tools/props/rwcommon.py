# shared by the rewriter-family plugins: configurations, certificate evaluation in coqc
import json
import random

import lib
import gen_prog

EV = json.load(open(lib.os.path.join(lib.COQ, "gen", "events.json"))) if lib.os.path.exists(lib.os.path.join(lib.COQ, "gen", "events.json")) else None
SYS = {"line", "call", "return_", "exception", "opcode", "c_call", "c_return", "c_exception"}
PRIV = {"_load_saved_slice", "_load_saved_expr_stmt_ret"}
SKIP = {"before_import", "after_import"}


def all_ast_events():
    ev = json.load(open(lib.os.path.join(lib.COQ, "gen", "events.json")))
    return [e for e in ev["events"] if e not in SYS and e not in PRIV and e not in SKIP], set(ev["before_expr_events"])


def gen_events(rng, allow_deferred, only_deferred=False):
    evs, deferred = all_ast_events()
    direct = [e for e in evs if e not in deferred]
    pool = sorted(deferred) if only_deferred else (evs if allow_deferred else direct)
    mode = rng.choice(["single", "pair", "sparse", "half", "dense", "all"])
    if mode == "single":
        return [rng.choice(pool)]
    if mode == "pair":
        b = [e for e in pool if e.startswith("before_") and "after_" + e[7:] in pool]
        if b:
            x = rng.choice(b)
            return [x, "after_" + x[7:]]
        return [rng.choice(pool)]
    if mode == "all":
        return list(pool)
    d = {"sparse": 0.1, "half": 0.5, "dense": 0.9}[mode]
    out = [e for e in pool if rng.random() < d]
    return out or [rng.choice(pool)]


def gen_program(rng, profile=None, nstmts=None):
    return gen_prog.gen_program(random.Random(rng.random()), profile or rng.choice(["core", "core", "wide"]), nstmts=nstmts or rng.choice([2, 3, 4]), head=True)


CERT_HEADER = """From Coq Require Import List ZArith NArith Bool.
Import ListNotations.
From PyccoloV Require Import model.Tree model.Erase.
Local Open Scope N_scope.
"""


def certificates(rows, shard=6, timeout=900):
    """rows: list of (src_tree_text, out_tree_text). Returns per row True (erase out = norm src and the docstring positions are kept),
    "erase" / "docs" (the check that rejected) or None when coqc failed."""
    shards = [(i, rows[i:i + shard]) for i in range(0, len(rows), shard)]
    texts = []
    for i, rs in shards:
        L = [CERT_HEADER]
        for j, (s, o) in enumerate(rs):
            L.append("Definition s%d := %s.\nDefinition o%d := %s.\nEval vm_compute in (check_erase s%d o%d, check_docs o%d)." % (j, s, j, o, j, j, j))
        texts.append(("rw_cert_%d" % i, "\n".join(L) + "\n"))
    outs = lib.coq_eval_many(texts, timeout=timeout)
    res = []
    for i, rs in shards:
        rc, out = outs["rw_cert_%d" % i]
        vals = lib.parse_marked(out) if rc == 0 else []
        if rc != 0 or len(vals) != len(rs):
            res += [None] * len(rs)
        else:
            for v in vals:
                b = [x.strip() == "true" for x in v.strip("() ").split(",")]
                # True, or WHICH check rejected ("erase": the output is not the source plus recognised shapes; "docs": a docstring position is not kept)
                res.append(None if len(b) != 2 else True if all(b) else "erase" if not b[0] else "docs")
    return res


CERT3_HEADER = """From Coq Require Import List ZArith NArith Bool.
Import ListNotations.
From PyccoloV Require Import model.Tree model.Erase model.Sites.
Local Open Scope N_scope.
"""


def certificates3(rows, shard=6, timeout=900, prefix="rw_cert3"):
    """rows: list of (src_tree_text, out_tree_text, [subscribed event names]).
    Returns per row None (coqc failed) or dict(erase=bool, sites=bool, site_events=bool)."""
    ev = json.load(open(lib.os.path.join(lib.COQ, "gen", "events.json")))["events"]
    code = {e: 1000 + i for i, e in enumerate(ev)}
    shards = [(i, rows[i:i + shard]) for i in range(0, len(rows), shard)]
    texts = []
    for i, rs in shards:
        L = [CERT3_HEADER]
        for j, (s, o, sub) in enumerate(rs):
            subs = "; ".join(str(code[e]) for e in sub)
            L.append("Definition s%d := %s.\nDefinition o%d := %s.\nEval vm_compute in (check_erase s%d o%d, check_sites s%d o%d, check_site_events [%s] o%d, check_docs o%d)."
                     % (j, s, j, o, j, j, j, j, subs, j, j))
        texts.append(("%s_%d" % (prefix, i), "\n".join(L) + "\n"))
    outs = lib.coq_eval_many(texts, timeout=timeout)
    res = []
    for i, rs in shards:
        rc, out = outs["%s_%d" % (prefix, i)]
        vals = lib.parse_marked(out) if rc == 0 else []
        if rc != 0 or len(vals) != len(rs):
            res += [None] * len(rs)
        else:
            for v in vals:
                b = [x.strip() == "true" for x in v.strip("() ").split(",")]
                res.append({"erase": b[0] and b[3], "sites": b[1], "site_events": b[2], "docs": b[3]} if len(b) == 4 else None)
    return res
