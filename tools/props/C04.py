# C04 - K-rt correspondence (model/Rt.v + gen/EmitRet.v vs real tracers) + the ten-line reference fold as oracle
import json

import lib

ID = "C04"
PROP_FILE = "props/C04.v"
COQ_TARGETS = ["props/C04.v"]
THEOREMS = ["C04_fold", "C04_before_stmt", "C04_tracer_fold_any_event", "C04_stack_fold_any_event"]
TRUSTED_BASE = [
    "Coq 8.16.1 kernel, vm_compute for the in-coqc correspondence",
    "translator tools/translators/gen_emitret.py (handle_normal/skipall_emit_return, make_ret regenerated every run)",
    "model/Rt.v: hand transcription of _emit_tracer_loop/_emit_event/tracer._emit_event, tied by K-rt",
    "tools/props/C04.py generator/canonicaliser, tools/impl/c04_rt.py harness",
]
ASSUMPTIONS = [
    "handlers do not themselves return the internal (SkipAll, value) tuple",
    "should_propagate_handler_exception is an explicit opt-out of 'raise = nothing' and is modelled as propagation",
]

EVENTS = {"after_assign_rhs": "E_after_assign_rhs", "before_assign_rhs": "E_before_assign_rhs", "before_stmt": "E_before_stmt"}


def gen_outcome(rng, event):
    kinds = ["none", "val", "val", "null", "skip", "skipall", "raise", "falsy"]
    if event == "before_stmt":
        kinds += ["pass", "pass"]
    if event == "before_assign_rhs":
        kinds += ["thunk", "thunk"]
    k = rng.choice(kinds)
    if k == "val":
        return ["val", rng.randrange(1, 30)]
    if k == "falsy":
        return ["val", 0]
    if k == "thunk":
        return ["thunk", rng.randrange(1, 30)]
    return [k]


def seen_candidates(event):
    c = [["none"]] + [["u", n] for n in range(0, 30)]
    if event == "before_stmt":
        c.append(["pass"])
    if event == "before_assign_rhs":
        c += [["thunk0"]] + [["thunk", n] for n in range(1, 30)]
    return c


def gen_case(rng):
    event = rng.choice(["after_assign_rhs"] * 6 + ["before_stmt"] * 3 + ["before_assign_rhs"] * 2)
    tracers = []
    for _ in range(rng.choice([1, 2, 2, 3, 3])):
        hs = []
        for _ in range(rng.choice([0, 1, 2, 2, 3, 3, 4])):
            table = {}
            for _ in range(rng.choice([0, 0, 1, 2, 3])):
                table[json.dumps(rng.choice(seen_candidates(event)))] = gen_outcome(rng, event)
            hs.append({"pred": rng.choice([None, None, None, True, False]), "table": table, "default": gen_outcome(rng, event)})
        tracers.append({"handlers": hs, "propagate": rng.random() < 0.08, "disabled": rng.random() < 0.08,
                        "file_ok": rng.random() >= 0.06})
    return {"event": event, "init": rng.randrange(31, 60), "tracers": tracers}


def nontrivial(c):
    return sum(len(t["handlers"]) for t in c["tracers"]) >= 2


# ---------------------------------------------------------------- the property's rule (reference oracle)
def ref_fold(case):
    """returns (result, log): result is what the program must observe"""
    event = case["event"]
    v = ["thunk0"] if event == "before_assign_rhs" else (["none"] if event == "before_stmt" else ["u", case["init"]])
    log = []
    stop_all = False
    for ti, t in enumerate(case["tracers"]):
        if stop_all:
            break
        if t.get("disabled") or not t.get("file_ok", True):
            continue
        for hi, h in enumerate(t["handlers"]):
            if h["pred"] is False:
                continue
            log.append([ti, hi, v])
            out = h["table"].get(json.dumps(v), h["default"])
            k = out[0]
            if k == "raise":
                if t.get("propagate"):
                    return {"exc": "RuntimeError"}, log
                continue                   # treated as returning nothing
            if k == "none":
                continue
            if k == "val":
                v = ["u", out[1]]
            elif k == "thunk":
                v = ["thunk", out[1]]
            elif k == "pass":
                v = ["pass"]
            elif k == "null":
                v = ["none"]
            elif k == "skip":
                break
            elif k == "skipall":
                stop_all = True
                break
    return program_view(case, v), log


def program_view(case, v):
    event = case["event"]
    if event == "after_assign_rhs":
        return {"x": v, "rec": []}
    if event == "before_assign_rhs":
        if v == ["thunk0"]:
            return {"x": ["u", case["init"]], "rec": []}
        if v[0] == "thunk":
            return {"x": ["u", v[1]], "rec": []}
        return {"x": v, "rec": []}
    # before_stmt
    if v == ["none"] or v == ["u", 0]:
        return {"x": ["unbound"], "rec": [case["init"]]}      # original statement runs
    if v == ["pass"]:
        return {"x": ["unbound"], "rec": []}
    return {"x": ["unbound"], "rec": [v[1]]}


def observed_view(im):
    if "exc" in im:
        return {"exc": im["exc"]}
    return {"x": im["x"], "rec": im["rec"]}


def oracle_case(case, im):
    if "crash" in im:
        return {"what": "harness crashed: " + im["crash"], "tb": im.get("tb")}
    exp, log = ref_fold(case)
    obs = observed_view(im)
    if exp != obs:
        return {"what": "program-visible result differs from the fold rule", "expected": exp, "observed": obs}
    if log != im["log"]:
        return {"what": "(tracer, handler, input value) call log differs from the fold rule", "expected": log, "observed": im["log"]}
    if im["flags"] != [True, False] or im["stack"] != 0:
        return {"what": "switches/stack not restored", "observed": [im["flags"], im["stack"]]}
    return None


def signature(case, f):
    return "unlisted"


# ---------------------------------------------------------------- Coq text
def coq_rv_pat(seen):
    if seen == ["none"]:
        return "RNone"
    if seen == ["pass"]:
        return "RPass"
    if seen == ["thunk0"]:
        return "RUser 1000%N _"
    if seen[0] == "thunk":
        return "RUser %d%%N _" % (2000 + seen[1])
    return "RUser %d%%N _" % seen[1]


def coq_out(o):
    k = o[0]
    if k == "none":
        return "HRet RNone"
    if k == "val":
        return "HRet (RUser %d%%N false)" % o[1]
    if k == "thunk":
        return "HRet (RUser %d%%N true)" % (2000 + o[1])
    if k == "null":
        return "HRet RNull"
    if k == "skip":
        return "HRet RSkip"
    if k == "skipall":
        return "HRet RSkipAll"
    if k == "pass":
        return "HRet RPass"
    if k == "raise":
        return "HRaise"
    raise ValueError(o)


def coq_handler(h):
    arms = "".join(" | %s => %s" % (coq_rv_pat(json.loads(k)), coq_out(o)) for k, o in h["table"].items())
    f = "(fun v => match v with%s | _ => %s end)" % (arms, coq_out(h["default"]))
    return "{| h_reentrant := false; h_guard_skip := false; h_pred := %s; h_fun := %s |}" % (
        "false" if h["pred"] is False else "true", f)


def coq_tracer(t):
    return ("{| t_hard_disabled := %s; t_allow_reentrant := false; t_multi_thread := false; t_file_ok := %s; "
            "t_propagate := %s; t_handlers := [%s] |}") % (
        "true" if t.get("disabled") else "false", "true" if t.get("file_ok", True) else "false",
        "true" if t.get("propagate") else "false", "; ".join(coq_handler(h) for h in t["handlers"]))


def coq_init(case):
    if case["event"] == "before_assign_rhs":
        return "(RUser 1000%N true)"
    if case["event"] == "before_stmt":
        return "RNone"
    return "(RUser %d%%N false)" % case["init"]


def coq_cases_file(cases):
    L = ["From Coq Require Import List NArith Bool.", "Import ListNotations.",
         "From PyccoloV Require Import gen.Events model.Val model.Rt proofs.RtProofs.",
         "Definition one (ev : event) (ts : list tracer) (v : rv) :=",
         "  let '(r, fl, ths, log) := emit ev true fl0 ts v in",
         "  (r, (allow_handling fl, allow_reentrant fl), before_stmt_action r (last ths None), log)."]
    for c in cases:
        L.append("Eval vm_compute in one %s [%s] %s." % (EVENTS[c["event"]], "; ".join(coq_tracer(t) for t in c["tracers"]), coq_init(c)))
    return "\n".join(L) + "\n"


def rv_view(r):
    """parsed Coq rv -> the harness's classification"""
    if r == "RNone":
        return ["none"]
    if r == "RPass":
        return ["pass"]
    if isinstance(r, tuple) and r[0] == "RUser":
        u = r[1]
        if u == 1000:
            return ["thunk0"]
        if u >= 2000:
            return ["thunk", u - 2000]
        return ["u", u]
    if isinstance(r, tuple) and r[0] == "RConstThunk":
        return ["const", rv_view(r[1])]
    return ["other", str(r)]


def model_view(case, parsed):
    r, flags, action, log = parsed
    mlog = [[ti, hi, rv_view(v)] for ti, hi, v in log]
    if r == "TRaised":
        return {"exc": "RuntimeError"}, mlog, list(flags)
    v = rv_view(r[1])
    event = case["event"]
    if event == "before_stmt":
        if action == "RunOriginal":
            res = {"x": ["unbound"], "rec": [case["init"]]}
        elif action == "SkipStmt":
            res = {"x": ["unbound"], "rec": []}
        elif action == "AssertionFails":
            res = {"exc": "AssertionError"}
        elif isinstance(action, tuple) and action[0] == "RunReplacement":
            res = {"x": ["unbound"], "rec": [rv_view(action[1])[1]]}
        else:
            res = {"other": str(action)}
        return res, mlog, list(flags)
    if event == "before_assign_rhs":
        if v[0] == "const":
            return {"x": v[1], "rec": []}, mlog, list(flags)
        return program_view(case, v), mlog, list(flags)
    return {"x": v, "rec": []}, mlog, list(flags)


# ---------------------------------------------------------------- K-sysfold: system events through one tracer's own fold
SYS_EVENTS = {"call": "E_call", "exception": "E_exception", "return_": "E_return_", "line": "E_line"}


def gen_sys_case(rng):
    event = rng.choice(["call", "call", "exception", "exception", "return_", "line"])
    hs = []
    for _ in range(rng.choice([1, 2, 2, 3, 3, 4])):
        table = {}
        for _ in range(rng.choice([0, 0, 1, 2])):
            table[json.dumps(rng.choice([["none"], ["sys"]] + [["u", n] for n in range(0, 30)]))] = gen_outcome(rng, "after_assign_rhs")
        hs.append({"pred": rng.choice([None, None, None, True, False]), "table": table, "default": gen_outcome(rng, "after_assign_rhs")})
    return {"event": event, "init": rng.randrange(31, 60), "handlers": hs}


def sys_pat(seen):
    return "RSysTracer" if seen == ["sys"] else coq_rv_pat(seen)


def k_sysfold(ctx, rng, n):
    cases = [gen_sys_case(rng) for _ in range(n)]
    # directed: what the unified return rule repaired (ed.. 'call' / 'exception': nothing after a replacement, Null then nothing, Skip, raise)
    H = lambda o: {"pred": None, "table": {}, "default": o}
    for ev in ("call", "exception"):
        for seq in ([["val", 5], ["none"]], [["null"], ["none"]], [["none"], ["none"]], [["val", 5], ["skip"], ["val", 6]], [["val", 5], ["raise"]], [["val", 5], ["skipall"]],
                    [["none"], ["skipall"]]):
            cases.append({"event": ev, "init": 41, "handlers": [H(o) for o in seq]})
    rc, res, o = lib.impl_run("c04_sysfold.py", cases, timeout=300)
    if res is None:
        raise RuntimeError("K-sysfold harness failed:\n" + o[-2000:])
    L = ["From Coq Require Import List NArith Bool.", "Import ListNotations.", "From PyccoloV Require Import gen.Events model.Val model.Rt."]
    for c in cases:
        hs = []
        for h in c["handlers"]:
            arms = "".join(" | %s => %s" % (sys_pat(json.loads(k)), coq_out(o_)) for k, o_ in h["table"].items())
            hs.append("{| h_reentrant := false; h_guard_skip := false; h_pred := %s; h_fun := (fun v => match v with%s | _ => %s end) |}"
                      % ("false" if h["pred"] is False else "true", arms, coq_out(h["default"])))
        t = "{| t_hard_disabled := false; t_allow_reentrant := false; t_multi_thread := false; t_file_ok := true; t_propagate := false; t_handlers := [%s] |}" % "; ".join(hs)
        init = "RSysTracer" if c["event"] == "call" else "(RUser %d%%N false)" % c["init"]
        L.append("Eval vm_compute in (let '(r, _, log) := tracer_emit %s false 0 %s %s None [] in (r, log))." % (SYS_EVENTS[c["event"]], t, init))
    rc_, out = lib.coq_eval("c04_ksysfold", "\n".join(L) + "\n", timeout=600)
    vals = lib.parse_marked(out) if rc_ == 0 else []
    if rc_ != 0 or len(vals) != len(cases):
        ctx.tie_broken("correspondence", "K-sysfold: coqc failed (%d values for %d cases)" % (len(vals), len(cases)), out[-2000:])
        return 0, len(cases)

    def view(r):
        return ["sys"] if r == "RSysTracer" else rv_view(r)
    bad, okc = [], 0
    for c, im, v in zip(cases, res, vals):
        r, log = lib.parse_coq_list(v)
        mlog = [[ti, hi, view(x)] for ti, hi, x in log]
        if r == "TRaised":
            m = {"exc": "RuntimeError"}
        elif isinstance(r[1], tuple) and r[1][0] == "RTuple2":
            m = {"skipall": True, "value": view(r[1][2])}
        else:
            m = {"skipall": False, "value": view(r[1])}
        obs = {k: im[k] for k in ("skipall", "value", "exc") if k in im}
        if "crash" in im or m != obs or mlog != im["log"]:
            bad.append({"case": c, "model": [m, mlog], "impl": im})
        else:
            okc += 1
    if bad:
        ctx.tie_broken("correspondence", "K-sysfold: model/Rt.v tracer_emit and tracer._sys_tracer / _emit_event disagree on %d of %d system-event folds" % (len(bad), len(cases)),
                       json.dumps(bad[0])[:2500])
    return okc, len(cases)


def run_impl(cases):
    rc, res, out = lib.impl_run("c04_rt.py", cases, timeout=900)
    if res is None:
        raise RuntimeError("implementation harness failed:\n" + out[-3000:])
    return res


def fails_on_impl(case):
    return oracle_case(case, run_impl([case])[0])


def shrink(case):
    import copy

    cur = copy.deepcopy(case)
    changed = True
    while changed:
        changed = False
        for ti in range(len(cur["tracers"])):
            for hi in range(len(cur["tracers"][ti]["handlers"]) - 1, -1, -1):
                cand = copy.deepcopy(cur)
                del cand["tracers"][ti]["handlers"][hi]
                if fails_on_impl(cand):
                    cur, changed = cand, True
        for ti in range(len(cur["tracers"]) - 1, -1, -1):
            if len(cur["tracers"]) > 1:
                cand = copy.deepcopy(cur)
                del cand["tracers"][ti]
                if fails_on_impl(cand):
                    cur, changed = cand, True
    return cur


def exhaustive_cases():
    """all outcome sequences of length <= 4 over the 7 kinds, split over <=2 tracers (thorough tier)"""
    import itertools

    kinds = [["none"], ["val", 7], ["val", 0], ["null"], ["skip"], ["skipall"], ["raise"]]
    out = []
    for n in range(1, 5):
        for seq in itertools.product(kinds, repeat=n):
            for split in range(0, n + 1):
                ts = [{"handlers": [{"pred": None, "table": {}, "default": o} for o in part]} for part in (seq[:split], seq[split:])]
                out.append({"event": "after_assign_rhs", "init": 41, "tracers": ts})
    return out


def run(ctx, model_ok):
    rng = ctx.rng
    n = 600 if ctx.tier == "quick" else 4000
    cases = []
    corpus = lib.os.path.join(lib.VERIF, "corpus", "C04.json")
    if lib.os.path.exists(corpus):
        cases += json.load(open(corpus))
    while len(cases) < n:
        cases.append(gen_case(rng))
    exhaustive = False
    if ctx.tier == "thorough":
        cases += exhaustive_cases()
        exhaustive = True
    impl = []
    for i in range(0, len(cases), 300):
        impl += run_impl(cases[i:i + 300])
    failures = []
    for c, im in zip(cases, impl):
        f = oracle_case(c, im)
        if f:
            small = shrink(c)
            f = fails_on_impl(small) or f
            f.update({"case": small, "signature": signature(small, f), "kind": "oracle"})
            failures.append(f)
            if len(failures) >= 3:
                break
    mism, validated = [], 0
    if model_ok:
        shards = [(i, cases[i:i + 300]) for i in range(0, len(cases), 300)]
        outs = lib.coq_eval_many([("c04_cases_%d" % i, coq_cases_file(cs)) for i, cs in shards], timeout=900)
        for i, cs in shards:
            rc, out = outs["c04_cases_%d" % i]
            vals = lib.parse_marked(out) if rc == 0 else []
            if rc != 0 or len(vals) != len(cs):
                ctx.tie_broken("correspondence", "coqc failed on generated cases (rc=%s, %d/%d results)" % (rc, len(vals), len(cs)), out[-3000:])
                continue
            for j, (c, v) in enumerate(zip(cs, vals)):
                im = impl[i + j]
                if "crash" in im:
                    mism.append({"case": c, "detail": im["crash"]})
                    continue
                mres, mlog, mflags = model_view(c, lib.parse_coq_list(v))
                if mres != observed_view(im) or mlog != im["log"] or mflags != im["flags"]:
                    mism.append({"case": c, "model": [mres, mlog, mflags], "impl": [observed_view(im), im["log"], im["flags"]]})
                else:
                    validated += 1
        if mism:
            ctx.tie_broken("correspondence", "model/Rt.v and the runtime disagree on %d of %d cases" % (len(mism), len(cases)), json.dumps(mism[0])[:3000])
    ksys_ok, ksys_n = k_sysfold(ctx, rng, 120 if ctx.tier == "quick" else 1500) if model_ok else (0, 0)
    validated += ksys_ok
    hist, kinds = {}, {}
    for c in cases:
        hist[c["event"]] = hist.get(c["event"], 0) + 1
        for t in c["tracers"]:
            for h in t["handlers"]:
                for o in [h["default"]] + list(h["table"].values()):
                    kinds[o[0] if o != ["val", 0] else "falsy"] = kinds.get(o[0] if o != ["val", 0] else "falsy", 0) + 1
    return {
        "evaluations": len(cases), "distinct_nontrivial": len({lib.digest(c) for c in cases if nontrivial(c)}),
        "rule": "random arrangements: 1-3 tracers x 0-4 handlers on one event (after_assign_rhs / before_stmt / before_assign_rhs), outcomes "
                "{nothing, value, falsy value, Null, Skip, SkipAll, raise, Pass, thunk} possibly depending on the value seen, conditions, "
                "hard-disabled / file-filtered / propagating tracers; non-trivial = >=2 handlers; distinct by sha1; "
                "thorough adds ALL outcome sequences of length <=4 over 7 kinds x every split over two tracers; K-sysfold: 120 arrangements of 1-4 scripted "
                "handlers on call / exception / return / line through one tracer's own fold (tracer._sys_tracer), compared with tracer_emit",
        "samples": [cases[0], cases[-1]], "traces_validated": validated,
        "distribution": {"events": hist, "outcome_kinds": kinds, "system_event_folds_agreeing_with_model": ksys_ok},
        "failures": failures,
        "extra": {"model_impl_disagreements": len(mism), "exhaustive": exhaustive},
    }


def replay(ctx, rep):
    f = rep.get("failure") or {}
    case = f.get("case")
    return fails_on_impl(case) if case else None
