# C01 - no-op instrumentation never changes what the program does
import json

import lib
from props import rwcommon as rc

ID = "C01"
PROP_FILE = "props/C01.v"
COQ_TARGETS = ["props/C01.v"]
THEOREMS = ["C01_erase_sound", "C01_erase_any", "C01_docstrings_kept", "C01_docstrings_erased", "C01_rw_frag", "C01_rw_frag_docstring", "C01_rw_frag_certified", "C01_frag_semantics", "C01_fun_semantics", "C01_prog_semantics"]
TRUSTED_BASE = [
    "Coq 8.16.1 kernel, vm_compute for the per-program erasure certificates",
    "tools/impl/astexport.py (AST -> Coq term, interning, id canonicalisation), tools/translators/gen_pyast.py + gen_events.py",
    "model/FragSem.v (typed rewriter `instr_module`, evaluator under observing handlers, reference stream; Python-like primitives on ints / bools / None), tied by "
    "K-sem: per fragment program the real rewriter's output tree = tt_module (instr_module c m), and exception type, final bindings and recorded event stream of "
    "the real run = the evaluator's (tools/impl/c01_sem.py)",
    "the laws of proofs/EraseSound.v (Section hypotheses): facts about Python's evaluation that the instrumentation shapes rely on; validated on CPython by the differential oracle, not proved",
]
ASSUMPTIONS = ["handlers are observing; the program mentions no _X5ix name and does not rebind slice / BaseException / NameError"]
DEFERRED_OK = False


def gen_case(rng, deferred=False, only_deferred=False):
    return {"src": rc.gen_program(rng), "events": rc.gen_events(rng, deferred, only_deferred), "guards": rng.random() < 0.7}


def run_impl(cases, script="c01_rw.py"):
    out = []
    for i in range(0, len(cases), 40):
        r, res, o = lib.impl_run(script, cases[i:i + 40], timeout=1200)
        if res is None:
            raise RuntimeError("implementation harness failed:\n" + o[-3000:])
        out += res
    return out


def oracle_case(c, im):
    if "crash" in im:
        return {"what": "harness crashed: " + im["crash"], "tb": im.get("tb")}
    if "rewrite_exc" in im:
        return {"what": "the rewriter itself failed on a well-formed program: " + im["rewrite_exc"], "kind": "rewrite-crash"}
    if "compile_exc" in im:
        return {"what": "the rewritten program does not compile: " + im["compile_exc"], "kind": "compile"}
    p, q = im["plain"], im["instr"]
    if p.get("exc") != q.get("exc"):
        return {"what": "instrumented run ends differently", "expected": p.get("exc"), "observed": q.get("exc"), "kind": "exception"}
    if p["bindings"] != q["bindings"]:
        diff = sorted(k for k in set(p["bindings"]) | set(q["bindings"]) if p["bindings"].get(k) != q["bindings"].get(k))
        return {"what": "final bindings differ on %s" % diff, "expected": {k: p["bindings"].get(k) for k in diff}, "observed": {k: q["bindings"].get(k) for k in diff}, "kind": "bindings"}
    if p["stdout"] != q["stdout"]:
        return {"what": "output differs", "kind": "stdout"}
    return None


def fails_on_impl(c):
    c2 = dict(c)
    c2["export"] = False
    return oracle_case(c2, run_impl([c2])[0])


def shrink(c):
    """drop generated top-level statements / events while the failure persists"""
    import gen_prog
    cur = dict(c)
    pre = gen_prog.PRELUDE
    body = cur["src"][len(pre):] if cur["src"].startswith(pre) else None
    changed = True
    while changed:
        changed = False
        if len(cur["events"]) > 1:
            for e in list(cur["events"]):
                cand = dict(cur)
                cand["events"] = [x for x in cur["events"] if x != e]
                if cand["events"] and fails_on_impl(cand):
                    cur, changed = cand, True
    return cur


ADVERSARIAL = [
    # loop bodies of nothing but a declaration inside a function (hoisted: the instrumented branch is `pass`, there is no pristine branch);
    # found by the thorough tier only (3 of 1384 generated programs): Erase.post did not know the shape (false alarm, corrected)
    {"src": "def f1():\n    try:\n        raise SystemExit(3)\n    except:\n        for j in range(2):\n            global c\n        else:\n            pass\n    w7 = 1\n"
            "    while w7 > 0:\n        w7 -= 1\n        global c\n        c = (b + c)\n    while False:\n        global d\n    return c\nu = f1()\n",
     "events": ["after_stmt", "before_stmt", "after_for_loop_iter", "after_while_loop_iter"], "guards": True},
    {"src": "def f1(p=0):\n    t(1, 1)\n    if p == 99:\n        zz = 0\n    bx.v = bx.v + 1\n    return zz\ntry:\n    f1()\nexcept NameError as e:\n    u = [type(e).__name__, bx.v]\n",
     "events": ["load_name", "after_stmt"], "guards": True},
    {"src": "def f1(p=0):\n    bx.items.append(t(1, 9))\n    raise NameError(\"nn\")\ndef f2():\n    t(2, 2)\n    return f1()\ntry:\n    f2()\nexcept NameError as e:\n    u = len(bx.items)\n",
     "events": ["after_assign_rhs"], "guards": False},
    {"src": "slice = 5\nu = [1, 2, 3][0:2]\n", "events": ["load_name"], "guards": True, "adversarial": "rebinds-builtin"},
    {"src": "BaseException = ValueError\ntry:\n    raise KeyError(1)\nexcept:\n    u = 1\n", "events": ["load_name"], "guards": True, "adversarial": "rebinds-builtin"},
    {"src": "def f1():\n    for i in range(2):\n        global a\n        a = i\n    return a\nb = f1()\n", "events": ["load_name"], "guards": True, "adversarial": "nested-decl"},
    {"src": "def f1():\n    y = 0\n    def g():\n        for i in range(2):\n            nonlocal y\n            y = y + i\n        return y\n    return g()\nb = f1()\n",
     "events": ["after_assign_rhs"], "guards": True, "adversarial": "nested-decl"},
    {"src": "def f1():\n    raise NameError(\"boom\")\ntry:\n    f1()\nexcept NameError as e:\n    u = str(e)\n", "events": ["load_name"], "guards": True},
    {"src": "def f1():\n    \"\"\"doc\"\"\"\n    global a\n    a = 3\n    for i in range(2):\n        a = a + i\n    return a\nb = f1()\n", "events": ["load_name", "after_for_loop_iter"], "guards": True},
    {"src": "match 1:\n    case 1:\n        u = 2\n    case _:\n        u = 3\n", "events": ["after_int", "load_name"], "guards": True},
    # a class nested in a function: its declarations are the class's own (the function does not hoist them), directly and inside a block of the class body
    {"src": "cnt = 0\ndef f1(p=0):\n    y = 1\n    class K:\n        global cnt\n        nonlocal y\n        cnt = cnt + 1\n        y = y + p\n        z = 3\n"
            "        for i in range(2):\n            global d\n            d = i\n    return (y, sorted(k for k in vars(K) if not k.startswith(\"_\")))\nr1 = f1(2)\nr2 = f1(3)\nu = (cnt, d)\n",
     "events": ["after_stmt", "load_name"], "guards": True},
    {"src": "cnt = 0\ndef f1(p=0):\n    y = 1\n    class K:\n        global cnt\n        nonlocal y\n        cnt = cnt + 1\n        y = y + p\n    return (y, sorted(k for k in vars(K) if not k.startswith(\"_\")))\nr1 = f1(2)\nu = cnt\n",
     "events": [], "guards": False},
]
BUILTINS_RELIED_ON = ("slice", "BaseException", "NameError")


def cert_signature(c):
    """known-finding region a case falls in, judged from the case alone (used when a certificate is not obtained)"""
    return None


def signature(c, f):
    import ast as _ast
    try:
        tree = _ast.parse(c["src"])
    except SyntaxError:
        return "unlisted"
    stores = {n.id for n in _ast.walk(tree) if isinstance(n, _ast.Name) and isinstance(n.ctx, (_ast.Store, _ast.Del))}
    if stores & set(BUILTINS_RELIED_ON) and f.get("kind") in ("exception", "bindings"):
        return "program rebinds a builtin name the inserted code relies on (slice / BaseException / NameError)"
    if f.get("kind") == "stdout" and any(isinstance(n, _ast.FunctionDef) and n.name == "__del__" for n in _ast.walk(tree)):
        return "a finalizer (__del__) of the value of a module-level expression statement runs one statement late when after_stmt is subscribed"
    if f.get("kind") == "compile" and "declaration" in f.get("what", ""):
        # a global/nonlocal statement that is not a direct statement of the function body
        for fn in _ast.walk(tree):
            if isinstance(fn, (_ast.FunctionDef, _ast.AsyncFunctionDef)):
                direct = {id(s) for s in fn.body}
                for n in _ast.walk(fn):
                    if isinstance(n, (_ast.Global, _ast.Nonlocal)) and id(n) not in direct:
                        return "global/nonlocal declared inside a nested block of a function: the duplicated function body no longer compiles"
    return "unlisted"


def run(ctx, model_ok, deferred=False, only_deferred=False, n_quick=120, extra_cases=None, adversarial=True):
    rng = ctx.rng
    n = n_quick if ctx.tier == "quick" else n_quick * 12
    cases = list(extra_cases or []) + ([dict(a) for a in ADVERSARIAL] if adversarial else [])
    for rp in getattr(ctx, "known_replays", []) + getattr(ctx, "fixed_replays", []):
        if "src" in rp and "events" in rp and rp.get("frag") is None:
            cases.append(dict(rp))
    while len(cases) < n:
        cases.append(gen_case(rng, deferred, only_deferred))
    impl = run_impl(cases)
    failures = []
    seen = set()
    for c, im in zip(cases, impl):
        f = oracle_case(c, im)
        if f:
            sig = signature(c, f)
            if sig in seen:
                continue
            if sig == "unlisted":
                if sum(1 for x in failures if x["signature"] == "unlisted") >= 2:
                    continue
                small = shrink(c)
                f = fails_on_impl(small) or f
                sig = signature(small, f)
                f.update({"case": small})
            else:
                seen.add(sig)
                f.update({"case": c})
            f.update({"signature": sig, "kind_": "oracle"})
            failures.append(f)
    # certificates: the Coq erasure applied to the real rewriter output must give back the (normalised) source
    cert_rows, cert_idx = [], []
    for i, im in enumerate(impl):
        if "src_tree" in im and im["out_nodes"] <= 9000:
            cert_rows.append((im["src_tree"], im["out_tree"]))
            cert_idx.append(i)
    certs_ok, certs_bad = 0, []
    listed = {k["signature"] for k in lib.load_known(ctx.prop) if k.get("kind") == "known"}
    if model_ok and cert_rows:
        res = rc.certificates(cert_rows)
        for i, ok in zip(cert_idx, res):
            if ok is True:
                certs_ok += 1
            elif ok is not None and cert_signature(cases[i]) in listed:
                pass            # inside the region of a listed known finding: no certificate is expected there
            else:
                certs_bad.append({"case": {k: cases[i][k] for k in ("src", "events", "guards", "exempt_events", "silence") if k in cases[i]},
                                  "coqc_failed": ok is None, "rejected_by": {"erase": "check_erase", "docs": "check_docs"}.get(ok)})
        if certs_bad:
            ctx.tie_broken("certificate", "erase (rewriter output) <> norm source, or a docstring position not kept, on %d of %d programs"
                           % (len(certs_bad), len(cert_rows)), json.dumps(certs_bad[0])[-3000:])
    hist = {}
    for c in cases:
        for e in c["events"]:
            hist[e] = hist.get(e, 0) + 1
    ksyn = (0, 0)
    ksem = (0, 0, {})
    if model_ok and ctx.prop == "C01":
        # the Gallina model of the rewriter on the fragment (model/RwFrag.v, theorem C01_rw_frag) against the real rewriter
        from props import rwfrag
        ksyn = rwfrag.check(ctx, rng, 80 if ctx.tier == "quick" else 800)
        # the semantics of the fragment (model/FragSem.v, theorem C01_frag_semantics) against the real rewriter, CPython and the real runtime
        ksem = rwfrag.check_sem(ctx, rng, 60 if ctx.tier == "quick" else 800)
    res = {
        "evaluations": len(cases), "distinct_nontrivial": len({lib.digest(c) for c, im in zip(cases, impl) if im.get("handler_calls", 0) >= 3}),
        "rule": "generated programs (prelude with helper functions/classes + 2-4 generated statements: assignments, calls, loops with break/continue/else, "
                "functions with defaults/varargs/global/nonlocal/docstrings/decorators, try/except/else/finally, with, del, slices, lambdas, "
                "comprehensions, f-strings, classes, match; ~20% raise) x event subsets (single, before/after pair, density 0.1/0.5/0.9, all) x guards "
                "on/off; non-trivial = >=3 handler invocations; distinct by sha1",
        "samples": [{"events": cases[-1]["events"], "guards": cases[-1]["guards"], "src_tail": cases[-1]["src"][-300:]}],
        "traces_validated": certs_ok,
        "distribution": {"event_subscription_histogram_top": dict(sorted(hist.items(), key=lambda x: -x[1])[:12]),
                         "programs_raising": sum(1 for im in impl if "exc" in im.get("plain", {})),
                         "certificates_checked": len(cert_rows), "certificates_ok": certs_ok,
                         "rewritten_nodes_total": sum(im.get("out_nodes", 0) for im in impl),
                         "k_syn_fragment_programs": ksyn[0], "k_syn_tree_equal": ksyn[1],
                         "k_sem_fragment_programs": ksem[0], "k_sem_agreeing": ksem[1], "k_sem_detail": ksem[2]},
        "failures": failures, "extra": {"certificate_failures": len(certs_bad)},
    }
    if model_ok and ctx.prop == "C01":
        # functions / calls / return on the fragment (model/FragFun.v, theorem C01_fun_semantics) against the real rewriter, CPython and the real runtime
        from props import fragfun
        fragfun.run_into(ctx, rng, res, 16 if ctx.tier == "quick" else 300)
        from props import fragprog
        fragprog.run_into(ctx, rng, res, 24 if ctx.tier == "quick" else 400)
    return res


def replay(ctx, rep):
    case0 = (rep.get("failure") or {}).get("case") or {}
    if case0.get("frag") == "fun":
        from props import fragfun
        return fragfun.replay_case(case0)
    if case0.get("frag") == "prog":
        from props import fragprog
        return fragprog.replay_case(case0)
    case = (rep.get("failure") or {}).get("case")
    return fails_on_impl(case) if case else None
