# C15 - K-sbx correspondence (model/Sandbox.v vs tracer.exec) + function-body reference oracle
import json

import lib

ID = "C15"
PROP_FILE = "props/C15.v"
COQ_TARGETS = ["props/C15.v"]
THEOREMS = ["C15_same_mapping", "C15_same_mapping_raises", "C15_result_partial", "C15_result_passthrough", "C15_result_refuted", "C15_raises", "C15_clean"]
TRUSTED_BASE = [
    "Coq 8.16.1 kernel, vm_compute for the in-coqc correspondence",
    "model/Sandbox.v: hand transcription of the scaffold of tracer.exec; the spliced program is abstracted as its sequence of local/global "
    "bindings and deletions (function-local scoping of CPython is modelled, validated by K-sbx)",
    "tools/props/C15.py generator (computes the abstract effect of each generated program), tools/impl/c15_sandbox.py harness",
]
ASSUMPTIONS = [
    "supplied names and names bound by the program are ordinary identifiers; programs binding `__` or `builtins` are the recorded finding",
    "eval delegates to the built-in eval: compared on the implementation only",
]
# ordinary identifiers of every shape: underscore-prefixed, dunder-prefixed, upper-case, with digits, non-ASCII
NAMES = {i: n for i, n in enumerate(["a", "b", "_c", "_d1", "e", "F", "__g", "h2", "_", "\u00e9t"], start=10)}
GNAMES = {i: n for i, n in enumerate(["g1", "_g2", "G3"], start=20)}
# keys of a supplied mapping that cannot be parameter names (the program cannot mention them either)
XNAMES = {i: n for i, n in enumerate(["class", "a b", "None", "__debug__"], start=30)}


def gen_case(rng, reserved=False):
    L = {NAMES[k]: rng.randrange(0, 50) for k in rng.sample(sorted(NAMES), rng.randrange(0, 4))}
    G = {GNAMES[k]: rng.randrange(50, 99) for k in rng.sample(sorted(GNAMES), rng.randrange(0, 3))}
    # same: locals IS globals - one mapping object (what exec uses at module level without mappings, or with only globals given)
    same = not reserved and rng.random() < 0.3
    if same:
        L.update(G)
        G = L
    gdecl = [GNAMES[k] for k in sorted(GNAMES) if rng.random() < 0.4]
    if rng.random() < 0.3:
        # `global <a supplied local name>` (with the default mappings, locals is globals, this is every existing global): the local is handed back unchanged
        gdecl += [n for n in sorted(L) if rng.random() < 0.5]
    local_names = [n for n in NAMES.values() if n not in gdecl]
    if rng.random() < 0.25:
        L.update({XNAMES[k]: rng.randrange(0, 50) for k in rng.sample(sorted(XNAMES), rng.randrange(1, 3))})
    ops, lines = [], []
    bound = {n for n in L if n not in gdecl and n not in XNAMES.values()}
    nops = rng.randrange(0, 7)
    raise_at = rng.randrange(0, nops + 1) if rng.random() < 0.25 else None
    for i in range(nops):
        if raise_at == i:
            lines.append('raise ValueError("boom")')
        r = rng.random()
        if r < 0.55:
            n = rng.choice(local_names)
            v = rng.randrange(0, 50)
            src = [b for b in sorted(bound) if b != n]
            if src and rng.random() < 0.3:
                s = rng.choice(src)
                lines.append("%s = %s + %d" % (n, s, v))
                ops.append(["bind", n, ("expr", s, v)])
            else:
                lines.append("%s = %d" % (n, v))
                ops.append(["bind", n, v])
            bound.add(n)
        elif r < 0.75 and bound:
            n = rng.choice(sorted(bound))
            lines.append("del %s" % n)
            ops.append(["del", n])
            bound.discard(n)
        elif gdecl:
            n = rng.choice(gdecl)
            v = rng.randrange(50, 99)
            lines.append("%s = %d" % (n, v))
            ops.append(["gbind", n, v])
    if raise_at == nops:
        lines.append('raise ValueError("boom")')
    if reserved:
        lines.append("builtins = 5")
    text = ("global %s\n" % ", ".join(gdecl) if gdecl else "") + "\n".join(lines)
    expr = None
    ids = [n for n in sorted(L) if n not in XNAMES.values()]
    if rng.random() < 0.4 and ids:
        expr = " + ".join(rng.sample(ids, min(len(ids), 2)) + [str(rng.randrange(9))])
    return {"L": L, "G": G, "text": text or "pass", "ops": ops, "raise_at": raise_at, "instrument": rng.random() < 0.7, "gdecl": gdecl, "same": same,
            "tracer": rng.choice(["obs", "obs", "noop"]), "expr": expr, "reserved": reserved}


def eval_ops(c):
    """resolve `x = y + k` against the running local values so that the model gets constants"""
    loc = dict(c["L"])
    out = []
    for i, o in enumerate(c["ops"]):
        if c["raise_at"] is not None and i >= c["raise_at"]:
            out.append(o if not (o[0] == "bind" and isinstance(o[2], tuple)) else ["bind", o[1], 0])
            continue
        if o[0] == "bind":
            v = o[2]
            if isinstance(v, (tuple, list)):
                v = loc[v[1]] + v[2]
            loc[o[1]] = v
            out.append(["bind", o[1], v])
        elif o[0] == "del":
            loc.pop(o[1], None)
            out.append(o)
        else:
            out.append(o)
    return out


INV = {v: k for k, v in list(NAMES.items()) + list(GNAMES.items()) + list(XNAMES.items())}


def coq_assoc(d):
    return "[%s]" % "; ".join("(%d%%N, (%d)%%Z)" % (INV[k], v) for k, v in d.items())


def coq_cases_file(cases):
    L = ["From Coq Require Import List ZArith NArith.", "Import ListNotations.", "From PyccoloV Require Import model.Sandbox.",
         "Definition srt (m : assoc) := m."]
    for c in cases:
        ops = []
        for o in eval_ops(c):
            if o[0] == "bind":
                ops.append("Bind %d%%N (%d)%%Z" % (INV[o[1]], o[2]))
            elif o[0] == "del":
                ops.append("Del %d%%N" % INV[o[1]])
            else:
                ops.append("GBind %d%%N (%d)%%Z" % (INV[o[1]], o[2]))
        if c.get("reserved"):
            ops.append("Bind 1%N 5%Z")
        ra = "None" if c["raise_at"] is None else "(Some %d%%nat)" % c["raise_at"]
        prog = "{| ops := [%s]; raises_after := %s; gdecl := [%s] |}" % ("; ".join(ops), ra, "; ".join("%d%%N" % INV[n] for n in c.get("gdecl", [])))
        if c.get("same"):
            L.append("Eval vm_compute in (let r := exec_same %s %s in (fst r, snd r, snd r))." % (coq_assoc(c["L"]), prog))
        else:
            L.append("Eval vm_compute in exec_model %s %s %s." % (coq_assoc(c["L"]), coq_assoc(c["G"]), prog))
    return "\n".join(L) + "\n"


NAME_OF = dict(list(NAMES.items()) + list(GNAMES.items()) + list(XNAMES.items()) + [(0, "__"), (1, "builtins"), (2, "_X5ix_pyccolo_local_env"), (3, "_X5ix_pyccolo_sandbox")])


def model_view(v):
    r, Lp, Gp = lib.parse_coq_list(v)
    d = {"L": {NAME_OF[k]: z for k, z in Lp}, "G": {NAME_OF[k]: z for k, z in Gp}}
    if r == "None":
        d["exc"] = "ValueError"
    else:
        d["result"] = {NAME_OF[k]: z for k, z in r[1]}
    return d


def run_impl(cases):
    rc, res, out = lib.impl_run("c15_sandbox.py", cases, timeout=900)
    if res is None:
        raise RuntimeError("implementation harness failed:\n" + out[-3000:])
    return res


def internal_names(d):
    return sorted(k for k in d if k.startswith("_X5ix"))


def oracle_case(c, im):
    if "crash" in im:
        return {"what": "harness crashed: " + im["crash"], "tb": im.get("tb")}
    ref = im["ref"]
    for where in ("L", "G", "result"):
        if where in im and internal_names(im[where]):
            return {"what": "library-internal names %s in %s" % (internal_names(im[where]), {"L": "the caller's local mapping", "G": "globals", "result": "the returned mapping"}[where]),
                    "where": where, "finished": "result" in im}
    if ("exc" in ref) != ("exc" in im) or ref.get("exc") != im.get("exc"):
        return {"what": "outcome differs from running the text as a function body", "expected": ref, "observed": {k: im.get(k) for k in ("result", "exc")}, "where": "outcome"}
    if "result" in ref and ref["result"] != im["result"]:
        return {"what": "returned mapping differs from the function-body reference", "expected": ref["result"], "observed": im["result"], "where": "result"}
    if ref["G"] != im["G"]:
        return {"what": "globals differ from the function-body reference", "expected": ref["G"], "observed": im["G"], "where": "G"}
    if c.get("same"):
        if im["L"] != im["G"]:
            return {"what": "locals is globals, yet the two differ afterwards", "where": "L"}
    elif im["L"] != c["L"]:
        return {"what": "the caller's local mapping was changed", "expected": c["L"], "observed": im["L"], "where": "L"}
    if "eval" in im:
        if im["eval"] != im["eval_ref"]:
            return {"what": "eval differs from the built-in eval", "expected": im["eval_ref"], "observed": im["eval"], "where": "eval"}
        if internal_names(im["eval_L"]) or internal_names(im["eval_G"]):
            return {"what": "library-internal names after eval", "where": "eval"}
    return None


def signature(c, f):
    if c.get("reserved") and f.get("where") == "result":
        return "program binds the name `builtins` (or `__`): dropped from the returned mapping"
    return "unlisted"


def fails_on_impl(c):
    return oracle_case(c, run_impl([c])[0])


def run(ctx, model_ok):
    rng = ctx.rng
    n = 400 if ctx.tier == "quick" else 4000
    cases = [gen_case(rng, reserved=True)]      # the listed known finding's region (a program binding `builtins`) always runs first
    while len(cases) < n:
        cases.append(gen_case(rng))
    impl = run_impl(cases)
    failures = []
    for c, im in zip(cases, impl):
        f = oracle_case(c, im)
        if f:
            f.update({"case": {k: c[k] for k in c if k != "ops"} | {"ops": c["ops"]}, "signature": signature(c, f), "kind": "oracle"})
            if f["signature"] == "unlisted" and sum(1 for x in failures if x["signature"] == "unlisted") >= 2:
                continue
            failures.append(f)
    mism, validated = [], 0
    if model_ok:
        shards = [(i, cases[i:i + 200]) for i in range(0, len(cases), 200)]
        outs = lib.coq_eval_many([("c15_cases_%d" % i, coq_cases_file(cs)) for i, cs in shards], timeout=600)
        for i, cs in shards:
            rc, out = outs["c15_cases_%d" % i]
            vals = lib.parse_marked(out) if rc == 0 else []
            if rc != 0 or len(vals) != len(cs):
                ctx.tie_broken("correspondence", "coqc failed on generated cases (rc=%s, %d/%d)" % (rc, len(vals), len(cs)), out[-3000:])
                continue
            for j, (c, v) in enumerate(zip(cs, vals)):
                im = impl[i + j]
                if "crash" in im:
                    mism.append({"case": c, "detail": im["crash"]})
                    continue
                m = model_view(v)
                obs = {k: im[k] for k in ("L", "G", "result", "exc") if k in im}
                if m != obs:
                    mism.append({"case": c, "model": m, "impl": obs})
                else:
                    validated += 1
        if mism:
            ctx.tie_broken("correspondence", "model/Sandbox.v and tracer.exec disagree on %d of %d cases" % (len(mism), len(cases)), json.dumps(mism[0])[:3000])
    return {
        "evaluations": len(cases), "distinct_nontrivial": len({lib.digest(c) for c in cases if len(c["ops"]) >= 2}),
        "rule": "straight-line programs (<=6 bindings / deletions / global bindings over 10 local and 3 global names (plain, underscore- and dunder-prefixed, upper-case, `_`, non-ASCII); in 30% `global` also "
                "names supplied locals, in 25% the supplied mapping has keys that cannot be parameters ('class', 'a b', 'None', '__debug__'); optional raise at a random "
                "position) x supplied local and global mappings x {instrumented under an observing tracer, not instrumented, NoopTracer}; plus an "
                "expression for eval in 40% of cases; one case binding the reserved name `builtins`; non-trivial = >=2 operations",
        "samples": [{k: cases[1][k] for k in ("L", "G", "text", "instrument", "tracer", "expr")}], "traces_validated": validated,
        "distribution": {"raising": sum(1 for c in cases if c["raise_at"] is not None), "instrumented": sum(1 for c in cases if c["instrument"]),
                         "with_eval": sum(1 for c in cases if c["expr"]), "locals_is_globals": sum(1 for c in cases if c.get("same")),
                         "global_declares_a_supplied_local": sum(1 for c in cases if any(n in c["L"] for n in c.get("gdecl", []))),
                         "keys_that_cannot_be_parameters": sum(1 for c in cases if any(n in XNAMES.values() for n in c["L"]))},
        "failures": failures, "extra": {"model_impl_disagreements": len(mism)},
    }


def replay(ctx, rep):
    case = (rep.get("failure") or {}).get("case")
    return fails_on_impl(case) if case else None
