# C08 - deferred before-expression events preserve semantics and honour overrides
import json

import lib
from props import C01, rwcommon as rc

ID = "C08"
PROP_FILE = "props/C08.v"
COQ_TARGETS = ["props/C08.v", "model/FragOv.v"]
THEOREMS = ["C08_make_ret", "C08_erase_sound", "C08_frag_overrides"]
TRUSTED_BASE = C01.TRUSTED_BASE + ["translator gen_emitret.py: _make_ret regenerated from emit_event.py on every run",
                                   "model/FragOv.v (handlers that override values / replace deferred computations; evaluator and override reference), tied by K-ov "
                                   "(tools/impl/c08_sem.py: real runs whose handler overrides by table (event, node) -> value | Null; the override reference is the oracle)"]
ASSUMPTIONS = ["deferred expressions contain no assignment-expression, yield, await, zero-argument super, locals()/frame access or class-body-local name "
               "(the generator never produces them inside deferred positions); comparison chains: see the recorded finding"]

# one template per deferred event: overriding the first occurrence of the event must give `u` the override value
TEMPLATES = {
    "before_binop": "u = 1 + 2\n", "before_compare": "u = 1 < 2\n", "before_assign_rhs": "u = 5\n",
    "before_augassign_rhs": "u = 0\nu += 5\n", "before_argument": "u = (lambda q: q)(5)\n",
    "before_return": "def f9():\n    return 5\nu = f9()\n", "before_fstring": "u = f\"{1}\"\n",
    "before_lambda": "u = (lambda: 5)\n", "before_dict_literal": "u = {1: 2}\n", "before_list_literal": "u = [1, 2]\n",
    "before_set_literal": "u = {1, 2}\n", "before_tuple_literal": "u = (1, 2)\n", "before_load_complex_symbol": "u = bx.v\n",
    "before_subscript_slice": "u = [10, 20, 30][1]\n", "before_for_iter": "u = 0\nfor i in [1, 2]:\n    u = u + i\n",
}


def override_cases():
    out = []
    for ev, src in TEMPLATES.items():
        for kind in ("thunk", "partial", "value", "null", "none"):
            if ev == "before_for_iter":
                val = [7]
                expect = 7
            elif ev == "before_subscript_slice":
                val = 2
                expect = 30
            else:
                val = 41
                expect = 41
            if kind == "null":
                if ev in ("before_for_iter", "before_subscript_slice", "before_augassign_rhs"):
                    continue
                expect = None
            if kind == "none":
                expect = "same-as-plain"
            if ev == "before_augassign_rhs" and kind != "none":
                expect = val if kind != "null" else None
            c = {"src": "a = 1\nb = 2\nbx = Box(5)\n" + src, "events": [ev], "guards": True, "export": False,
                 "override": (None if kind == "none" else {"event": ev, "kind": kind, "value": val}), "expect_u": expect, "override_kind": kind}
            out.append(c)
    return out


def oracle_override(c, im):
    if "crash" in im or "rewrite_exc" in im or "compile_exc" in im:
        return {"what": "override template failed to run: %s" % (im.get("crash") or im.get("rewrite_exc") or im.get("compile_exc")), "kind": "override"}
    got = im["instr"]["bindings"].get("u", "<unbound>") if "exc" not in im["instr"] else {"exc": im["instr"]["exc"][:2]}
    want = im["plain"]["bindings"].get("u") if c["expect_u"] == "same-as-plain" else c["expect_u"]
    if got != want:
        return {"what": "handler for %s returned a %s; the program must use it: u should be %r, got %r" % (c["events"][0], c["override_kind"], want, got),
                "kind": "override", "expected": want, "observed": got}
    return None


_C01_SIGNATURE = C01.signature


SIG_UNBOUND = "a local variable read before assignment inside a deferred thunk raises NameError (free variable of the lambda) instead of UnboundLocalError"


def signature(c, f):
    if f.get("kind") == "exception" and (f.get("expected") or [None])[0] == "UnboundLocalError" and (f.get("observed") or [None])[0] == "NameError":
        return SIG_UNBOUND
    return _C01_SIGNATURE(c, f)


# the later comparators of a chain stay inside the deferred thunk (short-circuit): the thunk's own parameters must not capture the program's names,
# whatever they are called
EXTRA = [
    {"src": "x = 5\ny = 2\nX = 7\nY = 1\nu = (1 < 3 < x)\nv = (y < 3 > y)\nw = [(0 < 9 < x) for x in range(2)]\nz = (Y < 3 < X, 0 < Y < X < 9)\n"
            "def f1(x, y=1):\n    return (y < 4 < x, 0 < y < x < 9, t(1, 1) < t(2, 2) < x)\nr = f1(7)\n", "events": ["before_compare"], "guards": True},
    {"src": "x = 5\ny = 2\nu = (1 < 3 < x) + (x - 1) * (y + x) - y\nv = (lambda x, y: (x + y, 1 < y < x))(y, x)\n", "events": ["before_compare", "before_binop"], "guards": False},
]


def run(ctx, model_ok):
    C01_sig = C01.signature
    C01.signature = signature
    try:
        r = C01.run(ctx, model_ok, deferred=True, only_deferred=(ctx.rng.random() < 2), n_quick=100, extra_cases=[dict(x) for x in EXTRA], adversarial=False)
    finally:
        C01.signature = C01_sig
    # override templates
    oc = override_cases()
    impl = C01.run_impl(oc)
    n_ok = 0
    for c, im in zip(oc, impl):
        f = oracle_override(c, im)
        if f:
            f.update({"case": c, "signature": "unlisted", "kind_": "oracle"})
            if sum(1 for x in r["failures"] if x.get("kind") == "override") < 2:
                r["failures"].append(f)
        else:
            n_ok += 1
    r["evaluations"] += len(oc)
    r["distribution"]["override_templates"] = len(oc)
    r["distribution"]["override_templates_ok"] = n_ok
    r["rule"] += "; C08: event subsets are drawn from the 15 deferred events only; plus 15 templates x {thunk, functools.partial, plain value, Null, nothing} override kinds"
    # overrides on the fragment: model/FragOv.v against real runs whose handlers override by table (K-ov); the override reference is the oracle
    if model_ok:
        from props import fragov
        ok3, out3 = lib.coq_make(["model/FragOv.vo"])
        if not ok3:
            ctx.tie_broken("correspondence", "model/FragOv.v does not build", out3)
        else:
            extra_o = [dict(x) for x in getattr(ctx, "known_replays", []) + getattr(ctx, "fixed_replays", []) if "overrides" in x]
            no, oko, disto, viol = fragov.check(ctx, ctx.rng, 60 if ctx.tier == "quick" else 800, extra_cases=extra_o)
            for f in viol[:2]:
                f.update({"signature": "unlisted", "kind_": "oracle", "harness": "c08_sem.py"})
                r["failures"].append(f)
            r["evaluations"] += no
            r["traces_validated"] = r.get("traces_validated", 0) + oko
            r["distribution"]["k_ov_programs"] = no
            r["distribution"]["k_ov_agreeing"] = oko
            r["distribution"]["k_ov_detail"] = disto
            r["rule"] += ("; K-ov: 60 generated fragment programs x event subsets (incl. the three deferred events of the fragment) x 1-4 overrides chosen among the "
                          "(event, node) pairs that occur, values ints / bools / Null: exception, bindings and stream vs model/FragOv.v and vs the override reference")
    return r


def replay_ov(case):
    from props import fragov
    import random

    class _Quiet:
        def tie_broken(self, *a, **k):
            pass
    _, _, _, viol = fragov.check(_Quiet(), random.Random(0), 0, extra_cases=[case])
    return viol[0] if viol else None


def replay(ctx, rep):
    f = rep.get("failure") or {}
    case = f.get("case")
    if not case:
        return None
    if "expect_u" in case:
        return oracle_override(case, C01.run_impl([case])[0])
    if "overrides" in case:
        return replay_ov(case)
    return C01.fails_on_impl(case)
