# C10 - activating a loop / function / comprehension guard silences the body without changing results
import json

import lib
from props import C01, rwcommon as rc

ID = "C10"
PROP_FILE = "props/C10.v"
COQ_TARGETS = ["props/C10.v", "model/FragLoop.v", "model/FragFun.v", "model/FragProg.v"]
THEOREMS = ["C10_guard_branches_agree", "C10_erase_sound", "C10_docstrings_kept", "C10_docstrings_erased", "C10_frag_results", "C10_frag_plain", "C10_frag_stream", "C10_fun_results", "C10_fun_plain", "C10_fun_stream", "C10_prog_results", "C10_prog_plain", "C10_prog_stream"]
TRUSTED_BASE = C01.TRUSTED_BASE + [
    "model/FragLoop.v (while loops, the two guards of a loop, pristine copies, try / finally, evaluation under an arbitrary guard policy on fuel, the gated reference "
    "stream), tied by K-loop (tools/impl/c10_sem.py: real rewriter output tree with guard names canonicalised to (kind, loop), real runs whose handler activates / "
    "deactivates guards by rule; exception type, bindings and recorded stream = the evaluator's; the gated reference is the oracle)",
]
ASSUMPTIONS = ["handlers only toggle guards (they do not override values); guard names are those handed to the handlers of the bracket events"]
BRACKETS = ["after_for_loop_iter", "after_while_loop_iter", "after_function_execution", "before_for_loop_body", "before_while_loop_body",
            "before_function_body", "after_comprehension_elt", "after_comprehension_if", "after_dict_comprehension_key", "after_dict_comprehension_value"]

SILENCE = """u = 0
def f9(q):
    w = q + 1
    return w
for i in range(5):
    u = u + f9(i)
"""


def gen_case(rng):
    evs, deferred = rc.all_ast_events()
    direct = [e for e in evs if e not in deferred]
    events = sorted(set(BRACKETS + [e for e in direct if rng.random() < 0.35]))
    sched = [[rng.randrange(0, 4), rng.random() < 0.7] for _ in range(rng.choice([1, 2, 3, 5, 8]))]
    return {"src": rc.gen_program(rng), "events": events, "guards": True, "guard_schedule": sched}


def silence_cases():
    """a function called 5 times from a loop; the function's guard is activated by its own after_function_execution handler
    at the k-th invocation and never deactivated: invocations k+1.. must deliver nothing from the function body"""
    out = []
    for k in range(0, 5):
        sched = [[0, False]] * k + [[0, True]] * 12
        out.append({"src": SILENCE, "events": ["after_function_execution", "after_assign_rhs"], "guards": True, "guard_schedule": sched,
                    "log_lines": True, "export": False, "activate_at": k})
    return out


def gen_silence_case(rng):
    """every loop guard is activated when first handed out; nothing may then come from inside that loop's body (nested loops included)"""
    evs, deferred = rc.all_ast_events()
    direct = [e for e in evs if e not in deferred and e not in ("after_while_test",)]
    events = sorted(set(["after_for_loop_iter", "after_while_loop_iter", "after_comprehension_elt", "after_comprehension_if",
                         "after_dict_comprehension_key", "after_dict_comprehension_value"] + [e for e in direct if rng.random() < 0.5]))
    import battery
    src = battery.programs()["loops"] if rng.random() < 0.2 else rc.gen_program(rng, nstmts=rng.choice([3, 4, 5]))
    if rng.random() < 0.3:
        # definitions with docstrings inside a loop body: the guarded-off copy of the body must define the same objects
        k = rng.randrange(100, 999)
        src += ("for i%d in range(3):\n    def fd%d(p=1):\n        \"\"\"doc %d\"\"\"\n        return p\n"
                "    class Kd%d:\n        \"\"\"kdoc\"\"\"\n        def m(self):\n            'mdoc'\n            return 1\n" % (k, k, k, k))
    if rng.random() < 0.35:
        # comprehensions with compound elements / conditions / keys / values: each such expression has a guard of its own, activated at its
        # first hand-out; nothing inside it may be delivered afterwards (the comprehension's iterable and the other parts stay loud)
        k = rng.randrange(100, 999)
        src += ("cm%d = [q * 2 + a for q in range(4) if q + 1 > 0]\ncd%d = {q + 1: (q, a)[0] for q in range(3)}\n"
                "cs%d = {abs(q - 1) for q in range(3) if not (q == 5)}\ncg%d = list(-q for q in range(3))\n" % (k, k, k, k))
    c = {"src": src, "events": events, "guards": True, "silence": True, "export": False}
    if "cm" in src and rng.random() < 0.5:
        # variant: the guards of all comprehension parts are activated at the first delivery of the run, and the parts' own bracket events are
        # mostly NOT subscribed (a part is guarded whether or not its own event is)
        c["silence"] = "comp-first"
        c["events"] = [e for e in events if not (e.startswith("after_comprehension") or e.startswith("after_dict_comprehension")) or rng.random() < 0.25]
    if rng.random() < 0.3:
        c["nested_ctx"] = True          # the handler enters (and leaves) a nested tracing_disabled() context of its own tracer at every third delivery
    if rng.random() < 0.5:
        # a guard-exempt handler on some expression-level events: the ordinary handler must still be silenced
        pool = [e for e in events if e in ("load_name", "after_int", "after_binop", "after_call", "after_argument", "after_assign_rhs", "after_compare", "after_attribute_load",
                                           "after_subscript_load", "left_binop_arg", "right_binop_arg", "after_bool", "after_string", "after_none", "after_expr_stmt")]
        c["exempt_events"] = [e for e in pool if rng.random() < 0.6] or pool[:1]
        if not c["exempt_events"]:
            del c["exempt_events"]
    return c


def oracle_loop_silence(c, im):
    f = C01.oracle_case(c, im)
    if f:
        return f
    if im.get("leaks"):
        l = im["leaks"][0]
        return {"what": "event %s (%s, line %d) was delivered from inside the loop body / comprehension part at %s after its guard had been activated"
                        % (l[0], l[1], l[2], l[3]), "kind": "silence-leak"}
    return None


def oracle_silence(c, im):
    if "instr" not in im or "event_lines" not in im:
        return {"what": "silence template failed to run: %s" % (im.get("crash") or im.get("rewrite_exc") or im.get("compile_exc")), "kind": "silence"}
    if im["instr"]["bindings"].get("u") != 15:
        return {"what": "result changed under a guard schedule: u = %r, expected 15" % im["instr"]["bindings"].get("u"), "kind": "silence"}
    # `w = q + 1` is line 3: one after_assign_rhs per invocation that started while the guard was inactive
    body_events = sum(1 for name, line in im["event_lines"] if name == "after_assign_rhs" and line == 3)
    want = c["activate_at"] + 1            # invocations 0..k run instrumented (the guard is activated at the END of invocation k)
    want = min(want, 5)
    if body_events != want:
        return {"what": "function guard activated at the end of invocation %d: %d events from the function body, expected %d"
                        % (c["activate_at"], body_events, want), "kind": "silence"}
    return None


def run(ctx, model_ok):
    extra = []
    rng = ctx.rng
    n = 90 if ctx.tier == "quick" else 90 * 12
    cases = [gen_case(rng) for _ in range(n + 8)]
    C01_gen = C01.gen_case
    it = iter(cases)
    C01.gen_case = lambda rng_, deferred=False, only_deferred=False: next(it)
    try:
        r = C01.run(ctx, model_ok, n_quick=90, adversarial=False)
    finally:
        C01.gen_case = C01_gen
    sc = silence_cases()
    impl = C01.run_impl(sc)
    ok = 0
    for c, im in zip(sc, impl):
        f = oracle_silence(c, im)
        if f:
            f.update({"case": c, "signature": "unlisted", "kind_": "oracle"})
            r["failures"].append(f)
        else:
            ok += 1
    # general loop silence: generated programs, every loop guard activated at its first hand-out
    ls = [dict(x) for x in getattr(ctx, "known_replays", []) + getattr(ctx, "fixed_replays", []) if x.get("silence")]
    ls += [gen_silence_case(rng) for _ in range(60 if ctx.tier == "quick" else 600)]
    for c in ls:
        c["export"] = True            # the guarded-off copies (with the emissions kept for guard-exempt handlers) are certified too
    limpl = C01.run_impl(ls)
    nsil = 0
    if model_ok:
        rows = [(i, im) for i, im in enumerate(limpl) if "src_tree" in im and im["out_nodes"] <= 9000]
        cres = rc.certificates([(im["src_tree"], im["out_tree"]) for _, im in rows])
        bad = [(i, ok) for (i, _), ok in zip(rows, cres) if ok is not True]
        r["traces_validated"] = r.get("traces_validated", 0) + len(rows) - len(bad)
        r["distribution"]["silence_certificates_checked"] = len(rows)
        r["distribution"]["silence_certificates_ok"] = len(rows) - len(bad)
        r["distribution"]["silence_programs_with_exempt_handlers"] = sum(1 for c in ls if c.get("exempt_events"))
        if bad:
            i, ok = bad[0]
            ctx.tie_broken("certificate", "erase (rewriter output) <> norm source, or a docstring position not kept, on %d of %d loop-silence programs"
                           % (len(bad), len(rows)),
                           json.dumps({"case": {k: ls[i][k] for k in ("src", "events", "guards", "exempt_events", "silence") if k in ls[i]},
                                       "coqc_failed": ok is None, "rejected_by": {"erase": "check_erase", "docs": "check_docs"}.get(ok)})[-3000:])
    for c, im in zip(ls, limpl):
        nsil += im.get("silenced", 0)
        f = oracle_loop_silence(c, im)
        if f and sum(1 for x in r["failures"] if x.get("kind") == "silence-leak") < 2:
            f.update({"case": c, "signature": C01.signature(c, f) if f.get("kind") != "silence-leak" else "unlisted", "kind_": "oracle"})
            if f["signature"] == "unlisted" or f["signature"] not in {x["signature"] for x in r["failures"]}:
                r["failures"].append(f)
    # while loops and guards on the fragment: model/FragLoop.v against the real rewriter / CPython / runtime under guard schedules (K-loop);
    # the reference (source semantics + the event stream gated by the guards) is the property itself
    if model_ok:
        from props import fragloop
        ok3, out3 = lib.coq_make(["model/FragLoop.vo"])
        if not ok3:
            ctx.tie_broken("correspondence", "model/FragLoop.v does not build", out3)
        else:
            extra_l = [dict(x) for x in getattr(ctx, "known_replays", []) + getattr(ctx, "fixed_replays", []) if "rules" in x and x.get("frag") not in ("fun", "prog")]
            nl, okl, distl, viol = fragloop.check(ctx, rng, 40 if ctx.tier == "quick" else 600, extra_cases=extra_l)
            for f in viol[:2]:
                f.update({"signature": "unlisted", "kind_": "oracle", "harness": "c10_sem.py"})
                r["failures"].append(f)
            r["evaluations"] += nl
            r["traces_validated"] = r.get("traces_validated", 0) + okl
            r["distribution"]["k_loop_programs"] = nl
            r["distribution"]["k_loop_agreeing"] = okl
            r["distribution"]["k_loop_detail"] = distl
        # functions and function guards on the fragment: model/FragFun.v (K-fun)
        from props import fragfun
        fragfun.run_into(ctx, rng, r, 30 if ctx.tier == "quick" else 500)
        # loops and functions together: model/FragProg.v (K-prog)
        from props import fragprog
        fragprog.run_into(ctx, rng, r, 40 if ctx.tier == "quick" else 600)
    r["evaluations"] += len(ls)
    r["distribution"]["loop_silence_programs"] = len(ls)
    r["distribution"]["loop_guards_activated"] = nsil
    r["evaluations"] += len(sc)
    r["distribution"]["silence_templates"] = len(sc)
    r["distribution"]["silence_templates_ok"] = ok
    r["rule"] += ("; C10: every case subscribes to all bracket events (which carry the guard name) plus 35% of the direct events, with a guard schedule "
                  "(which seen guard, activate/deactivate) consumed at every bracket event; plus 5 silence templates (function guard activated at invocation k) and 60 generated programs in which every loop guard is activated at its first hand-out (no event may then come from inside that loop body); K-loop: 40 generated programs of the loop fragment (ints / bools / None, 1-2 levels of while loops with else clauses, ~45% raising) x event "
                  "subsets incl. the three loop events x global guards on 75% x 0-4 guard rules (at the k-th delivered event switch the test / body guard of some loop off or on): tree, "
                  "exception, bindings and stream vs model/FragLoop.v; the stream vs the gated reference is the oracle")
    return r


def replay(ctx, rep):
    f = rep.get("failure") or {}
    case = f.get("case")
    if not case:
        return None
    if "activate_at" in case:
        return oracle_silence(case, C01.run_impl([case])[0])
    if case.get("silence"):
        return oracle_loop_silence(case, C01.run_impl([case])[0])
    if case.get("frag") == "fun":
        from props import fragfun
        return fragfun.replay_case(case)
    if case.get("frag") == "prog":
        from props import fragprog
        return fragprog.replay_case(case)
    if "rules" in case:
        from props import fragloop

        class _Quiet:
            def tie_broken(self, *a, **k):
                pass
        import random
        _, _, _, viol = fragloop.check(_Quiet(), random.Random(0), 0, extra_cases=[case])
        return viol[0] if viol else None
    return C01.fails_on_impl(case)
