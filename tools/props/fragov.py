# K-ov: model/FragOv.v (handlers that override values / replace deferred computations) against the real rewriter, CPython and the real runtime
import json
import random

import lib
from props import rwfrag

VALUE_EVENTS = ["load_name", "after_int", "after_bool", "after_none", "left_binop_arg", "right_binop_arg", "after_binop", "left_compare_arg", "compare_arg",
                "after_compare", "after_expr_stmt", "after_assign_rhs", "after_if_test"]
DEFERRED = ["before_binop", "before_compare", "before_assign_rhs"]
NAMES = ["a", "b", "c", "d"]

HEADER = """From Coq Require Import List ZArith NArith Bool.
Import ListNotations.
From PyccoloV Require Import gen.Events model.Tree model.Erase model.RwFrag model.FragSem model.FragOv.
Local Open Scope N_scope.
Definition encv (v : val) : Z * Z := match v with VInt z => (0, z) | VBool b => (1, if b then 1 else 0) | VNone => (2, 0) | VStr s => (3, Z.of_N s) | VFun _ | VBuiltin _ => (4, 0) | VRange _ _ => (9, 0) end%Z.
Definition enco (o : option val) : Z * Z := match o with Some v => encv v | None => (4, 0)%Z end.
Definition ence (en : entry) := (event_idx (fst (fst en)), snd (fst en), enco (snd en)).
Definition encx (x : option exc) : N := match x with None => 0 | Some ENameError => 1 | Some ETypeError => 2 | Some EZeroDiv => 3 end.
Definition encenv (r : env) (names : list N) := map (fun x => match r x with Some v => encv v | None => (5, 0)%Z end) names.
Definition look (tab : list (N * N * val)) (e : event) (n : N) : option val :=
  match find (fun t => N.eqb (event_idx e) (fst (fst t)) && N.eqb n (snd (fst t))) tab with Some t => Some (snd t) | None => None end.
Definition one (c : rcfg) (tab : list (N * N * val)) (names : list N) (s o : tree) :=
  match of_module s with
  | None => None
  | Some m =>
      let hv := fun e n (_ : val) => look tab e n in
      let hd := look tab in
      let im := instr_module c m in
      let a := exec_ol Py.binop Py.cmpop Py.unop Py.truth Py.cval Py.is_and hv hd im (fun _ => None) VNone in
      let rf := ref_omodule Py.binop Py.cmpop Py.unop Py.truth Py.cval Py.is_and hv hd c m (fun _ => None) in
      Some (tree_eqb (tt_module im) o,
            (encx (s_exc a), encenv (s_env a) names, map ence (filter_log c (s_log a))),
            (encx (r_exc rf), encenv (r_env rf) names, map ence (filter_log c (r_log rf))))
  end.
"""


def coq_val(v):
    return {"int": lambda: "VInt (%d)%%Z" % v[1], "bool": lambda: "VBool %s" % ("true" if v[1] else "false"), "none": lambda: "VNone"}[v[0]]()


def check(ctx, rng, n, extra_cases=()):
    ev_idx = {e: i for i, e in enumerate(json.load(open(lib.os.path.join(lib.VERIF, "coq", "gen", "events.json")))["events"])}
    cases = []
    for i in range(n):
        g = rwfrag.GSem(random.Random(rng.random()))
        mode = rng.choice(["all", "half", "dense", "deferred"])
        if mode == "all":
            ev = list(rwfrag.FRAG_EVENTS)
        elif mode == "deferred":
            ev = DEFERRED + [e for e in rwfrag.FRAG_EVENTS if e not in DEFERRED and rng.random() < 0.3]
        else:
            d = {"half": 0.5, "dense": 0.85}[mode]
            ev = [e for e in rwfrag.FRAG_EVENTS if rng.random() < d] or [rng.choice(rwfrag.FRAG_EVENTS)]
        cases.append({"src": g.program(doc=rng.random() < 0.2, look_alike=False), "events": ev, "guards": rng.random() < 0.5, "overrides": []})
    # first pass (observing) to learn which (event, node) pairs occur; then choose overrides among them
    def run(cs):
        out = []
        for i in range(0, len(cs), 40):
            r, res, o = lib.impl_run("c08_sem.py", cs[i:i + 40], timeout=1200)
            if res is None:
                raise RuntimeError("implementation harness failed:\n" + o[-3000:])
            out += res
        return out
    first = run(cases)
    for c, im in zip(cases, first):
        occ = sorted({(e, nid) for e, nid, _ in im.get("log", []) if e in VALUE_EVENTS or e in DEFERRED})
        k = rng.choice([1, 1, 2, 3, 4])
        for e, nid in rng.sample(occ, min(k, len(occ))):
            v = rng.choice([["int", rng.randrange(0, 9)], ["int", rng.randrange(0, 9)], ["bool", rng.random() < 0.5], ["none"]])
            c["overrides"].append([e, nid, v])
    cases = [dict(x) for x in extra_cases] + cases
    out = run(cases)
    shard = 10
    texts = []
    for i in range(0, len(cases), shard):
        L = [HEADER]
        for j, (c, im) in enumerate(zip(cases[i:i + shard], out[i:i + shard])):
            if "src_tree" not in im:
                L.append("Eval vm_compute in (@None nat).")
                continue
            subs = "; ".join(rwfrag.coq_event(e) for e in c["events"])
            names = "; ".join(str(im["names"].get(x, 99)) for x in NAMES)
            tab = "; ".join("(%d, %d, %s)" % (ev_idx[e], nid, coq_val(v)) for e, nid, v in c["overrides"])
            L.append("Definition s%d := %s.\nDefinition o%d := %s.\nEval vm_compute in one {| sub := fun e => existsb (event_eqb e) [%s] |} [%s] [%s] s%d o%d."
                     % (j, im["src_tree"], j, im["out_tree"], subs, tab, names, j, j))
        texts.append(("fragov_%d" % i, "\n".join(L) + "\n"))
    res = lib.coq_eval_many(texts, timeout=900)
    ok, bad, violations = 0, [], []
    dist = {"raising": 0, "log_entries": 0, "overrides": 0, "overrides_of_deferred_events": 0}
    for i in range(0, len(cases), shard):
        rc_, o = res["fragov_%d" % i]
        vals = lib.parse_marked(o) if rc_ == 0 else []
        chunk = cases[i:i + shard]
        if rc_ != 0 or len(vals) != len(chunk):
            bad.append({"coqc_failed": o[-1200:]})
            continue
        for c, v, im in zip(chunk, vals, out[i:i + shard]):
            if "crash" in im:
                bad.append({"case": c, "crash": im["crash"], "tb": im.get("tb")})
                continue
            p = lib.parse_coq_list(v)
            if not (isinstance(p, tuple) and p[0] == "Some"):
                bad.append({"case": c, "model": "of_module failed", "printed": v[:200]})
                continue
            same_tree, (mx, menv, mlog), (rx, renv, rlog) = p[1]
            impl_log = [(ev_idx[e], nid) + rwfrag.enc_val(val) for e, nid, val in im["log"]]
            impl_env = [rwfrag.enc_val(im["bindings"][x]) if x in im["bindings"] else (5, 0) for x in NAMES]
            mlog_ = [(e, nid) + tuple(val) for e, nid, val in mlog]
            rlog_ = [(e, nid) + tuple(val) for e, nid, val in rlog]
            if rwfrag.EXC.get(im["exc"], 9) != rx or [tuple(x) for x in renv] != impl_env or rlog_ != impl_log:
                k = next((t for t, (x, y) in enumerate(zip(rlog_ + [None] * len(impl_log), impl_log + [None] * len(rlog_))) if x != y), None)
                violations.append({"what": "real run with overriding handlers differs from the override reference: exception %s vs %s, bindings equal: %s, first stream "
                                           "difference at %s" % (im["exc"], rx, [tuple(x) for x in renv] == impl_env, k), "case": c,
                                   "expected_at": rlog_[k:k + 3] if k is not None else None, "observed_at": impl_log[k:k + 3] if k is not None else None,
                                   "expected_env": renv, "observed_env": impl_env, "kind": "overrides"})
                continue
            problems = []
            if same_tree is not True:
                problems.append("tree")
            if rwfrag.EXC.get(im["exc"], 9) != mx or [tuple(x) for x in menv] != impl_env or mlog_ != impl_log:
                problems.append("evaluation of the instrumented term with overriding handlers differs from the real run")
            if problems:
                bad.append({"case": c, "problems": problems, "impl": {"exc": im["exc"], "env": impl_env, "log": impl_log[:50]}, "model": {"exc": mx, "env": menv, "log": mlog_[:50]}})
            else:
                ok += 1
                dist["log_entries"] += len(impl_log)
                dist["raising"] += 1 if im["exc"] else 0
                dist["overrides"] += len(c["overrides"])
                dist["overrides_of_deferred_events"] += sum(1 for e, _, _ in c["overrides"] if e in DEFERRED)
    if bad:
        ctx.tie_broken("correspondence", "K-ov: model/FragOv.v and the real rewriter / CPython / runtime disagree on %d of %d programs with overriding handlers" % (len(bad), len(cases)),
                       json.dumps(bad[0])[-4000:])
    return len(cases), ok, dist, violations
