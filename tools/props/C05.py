# C05 - stacked tracers each behave as if alone, served outermost-first
import json

import lib
from props import rwcommon as rc
from props import C03

ID = "C05"
PROP_FILE = "props/C05.v"
COQ_TARGETS = ["props/C05.v"]
THEOREMS = ["C05_emit_observing", "C05_solo_delivery", "C05_unsubscribed_silent", "C05_order", "C05_value", "C05_proj_sound", "C05_frag_stack", "C05_prog_stack"]
TRUSTED_BASE = [
    "Coq 8.16.1 kernel, vm_compute for the per-tracer projection certificates",
    "model/Rt.v (runtime fold; decision functions regenerated from tracer.py / emit_event.py by gen_emitret.py; loops tied by C04's K-rt correspondence)",
    "tools/impl/astexport.py (one interner for the stacked and the solo rewrites), tools/translators/gen_pyast.py + gen_events.py",
    "the laws of C05_proj_sound (premises of the theorem), validated by the stream oracle, not proved",
]
ASSUMPTIONS = ["handlers are observing (return nothing, raise nothing, never activate guards); unconditional handlers (conditional ones are C11)",
               "all tracers accept the program's file (filename filters are C12)"]


def gen_stack(rng):
    evs, deferred = rc.all_ast_events()
    n = rng.choice([2, 2, 2, 3])
    mode = rng.choice(["overlap", "overlap", "disjoint", "nested", "same"])
    pool = [e for e in evs if rng.random() < rng.choice([0.15, 0.4, 0.8])] or [rng.choice(evs)]
    subs = []
    if mode == "disjoint":
        rng.shuffle(pool)
        for i in range(n):
            subs.append(pool[i::n] or [rng.choice(evs)])
    elif mode == "nested":
        cur = list(pool)
        for i in range(n):
            subs.append(list(cur))
            cur = [e for e in cur if rng.random() < 0.5] or [cur[0]]
        if rng.random() < 0.5:
            subs.reverse()
    elif mode == "same":
        subs = [list(pool) for _ in range(n)]
    else:
        for i in range(n):
            subs.append([e for e in pool if rng.random() < 0.6] or [rng.choice(pool)])
    out = [{"events": s, "guards": rng.random() < 0.5} for s in subs]
    # some tracers are conditional: a dynamic node condition (re-checked at delivery) computable from the node's type / position
    for t in out:
        if rng.random() < 0.35:
            kind = rng.choice(["type", "line", "col"])
            arg = rng.sample(["Name", "Constant", "BinOp", "Call", "Assign", "Expr", "Attribute", "Subscript", "Compare", "For", "FunctionDef"], 4) if kind == "type" else rng.randrange(2 if kind == "line" else 3)
            t["pred"] = {"kind": kind, "arg": arg, "dynamic": True}
    if rng.random() < 0.2:
        # one tracer of the stack (mostly the innermost) declares requires_ast_bookkeeping = False: the OTHERS must still be given their nodes
        # (what that tracer itself is given depends on its neighbours: known finding C05-node-table-shared-by-stack, not compared)
        t = out[-1] if rng.random() < 0.7 else rng.choice(out)
        if not t.get("pred"):
            t["nobook"] = True
    return out


def gen_case(rng):
    c = {"src": rc.gen_program(rng), "stack": gen_stack(rng)}
    if rng.random() < 0.25:
        # handlers that call an (instrumented) function of the program at every third occurrence they see
        c["src"] = PROBE + c["src"]
        for t in c["stack"]:
            t["calls"] = "probe_fn"
    return c


def union(stack):
    out = []
    for t in stack:
        for e in t["events"]:
            if e not in out:
                out.append(e)
    return out


def pred_holds(pred, pos):
    if pred is None or pos is None:
        return pred is None
    if pred["kind"] == "type":
        return pos[0] in pred["arg"]
    if pred["kind"] == "line":
        return (pos[1] or 0) % 2 == pred["arg"]
    return (pos[2] or 0) % 3 == pred["arg"]


PROBE = "def probe_fn():\n    pq = 1\n    return pq + 1\n"


def harness_tracer(t):
    if t.get("pred") or t.get("calls"):
        return {"handlers": [{"events": t["events"], "pred": t.get("pred"), "calls": t.get("calls")}], "guards": t["guards"], "nobook": t.get("nobook", False)}
    return {"events": t["events"], "guards": t["guards"], "nobook": t.get("nobook", False)}


def to_impl(c, export=True):
    st = [harness_tracer(t) for t in c["stack"]]
    configs = [st] + [[t] for t in st] + [[{"events": union(c["stack"]), "guards": any(t["guards"] for t in st)}]]
    return {"src": c["src"], "export": export, "configs": configs}


def run_impl(cases, export=True):
    out = []
    for i in range(0, len(cases), 15):
        r, res, o = lib.impl_run("c03_multi.py", [to_impl(c, export) for c in cases[i:i + 15]], timeout=1800)
        if res is None:
            raise RuntimeError("implementation harness failed:\n" + o[-3000:])
        out += res
    return out


def first_diff(a, b):
    for i in range(max(len(a), len(b))):
        x = a[i] if i < len(a) else None
        y = b[i] if i < len(b) else None
        if x != y:
            return i, x, y
    return None


def oracle_case(c, im):
    if "crash" in im:
        return {"what": "harness crashed: " + im["crash"], "tb": im.get("tb"), "kind": "crash"}
    cf = im["configs"]
    for k, r in enumerate(cf):
        if "crash" in r or "rewrite_exc" in r or "compile_exc" in r:
            return {"what": "configuration %d failed: %s" % (k, r.get("crash") or r.get("rewrite_exc") or r.get("compile_exc")), "kind": "rewrite"}
    st = c["stack"]
    stacked, solos, uni = cf[0], cf[1:1 + len(st)], cf[-1]
    if any(r.get("exc") != stacked.get("exc") for r in solos + [uni]):
        return {"what": "the stacked run and a solo run end differently", "kind": "exception",
                "stacked": stacked.get("exc"), "solo": [r.get("exc") for r in solos]}
    def rows(stream, t):
        # a conditional tracer is only compared on occurrences that have a source node (a bare `except:` is delivered with
        # a synthetic BaseException name that is in no table: documented under C02 as having no source meaning)
        return [x[:3] for x in stream if not (t.get("pred") and x[1] is None)]
    for i, r in enumerate(solos):
        if st[i].get("nobook"):
            continue          # what a tracer without bookkeeping is given depends on its neighbours (C05-node-table-shared-by-stack)
        d = first_diff(rows(stacked["streams"][i], st[i]), rows(r["streams"][0], st[i]))
        if d:
            return {"what": "tracer %d receives a different stream when stacked (occurrence %d: stacked %d rows, alone %d rows)"
                    % (i, d[0], len(stacked["streams"][i]), len(r["streams"][0])), "index": d[0], "stacked": d[1], "alone": d[2], "kind": "solo", "tracer": i,
                    "event": (d[1] or d[2])[0]}
    # global order: every occurrence (in the order a single tracer subscribed to the union sees them) is served to its
    # subscribers in stack order
    want = []
    for row in uni["streams"][0]:
        for ti, t in enumerate(st):
            if row[0] in t["events"] and pred_holds(t.get("pred"), row[1]):
                want.append([ti, row[0], row[1]])
    cond = {ti for ti, t in enumerate(st) if t.get("pred")}
    d = first_diff([x[:3] for x in stacked["global"] if not (x[0] in cond and x[2] is None)], want)
    if d:
        return {"what": "global delivery order differs at position %d" % d[0], "index": d[0], "observed": d[1], "expected": d[2], "kind": "order",
                "event": (d[1] or d[2])[1]}
    return None


def fails_on_impl(c):
    return oracle_case(c, run_impl([c], export=False)[0])


def shrink(c, f):
    """restrict every tracer to the event the failure is about (plus, for the other tracers, one event at a time)"""
    ev = f.get("event")
    if not ev:
        return c, f
    cur, curf = c, f
    for keep_others in (False, True):
        st = []
        for i, t in enumerate(c["stack"]):
            es = [e for e in t["events"] if e == ev]
            if keep_others and not es:
                es = t["events"][:3]
            st.append(dict(t, events=es or [t["events"][0]]))
        cand = dict(c, stack=st)
        f2 = fails_on_impl(cand)
        if f2:
            return cand, f2
    return cur, curf


def signature(c, f):
    return "unlisted"


CORPUS = [
    {"src": PROBE + "x = 1\ny = 2\nz = x + y\nw = y * z + x\n", "stack": [{"events": ["load_name", "after_assign_rhs"], "guards": False, "calls": "probe_fn"},
                                                                         {"events": ["load_name", "after_binop"], "guards": False, "calls": "probe_fn"}]},
    {"src": "x = 1\ny = 2\nz = x + y\nw = y * z + x\n", "stack": [{"events": ["load_name"], "guards": False},
                                                                 {"events": ["load_name"], "guards": False, "pred": {"kind": "col", "arg": 0, "dynamic": True}}]},
    {"src": "x = 1\ny = 2\nz = x + y\nw = y * z + x\n", "stack": [{"events": ["load_name", "after_binop"], "guards": False, "pred": {"kind": "type", "arg": ["BinOp"], "dynamic": True}},
                                                                 {"events": ["load_name", "after_binop"], "guards": True}]},
    {"src": "a = 1\nb = a + 2\n", "stack": [{"events": ["load_name", "after_assign_rhs"], "guards": False}, {"events": ["after_assign_rhs", "after_binop"], "guards": True}]},
    {"src": "def f1(p=0):\n    x = p\n    for i in range(2):\n        x = x + i\n    return x\na = f1(2)\nf1(a)\n",
     "stack": [{"events": ["before_stmt", "after_stmt", "after_for_loop_iter"], "guards": True}, {"events": ["after_module_stmt", "load_name"], "guards": False},
               {"events": ["before_function_body", "after_function_execution", "after_return", "before_call"], "guards": False}]},
    {"src": "bx = Box(5)\na = bx.items[1] + bx.v\nbx.items[0] = a\n",
     "stack": [{"events": ["before_subscript_load", "after_subscript_load"], "guards": False}, {"events": ["after_subscript_slice", "before_attribute_load", "before_subscript_store"], "guards": False}]},
]


STMT_EVENTS = ["before_stmt", "after_stmt", "after_module_stmt", "after_expr_stmt"]


def pair_battery(rng, thorough):
    """stacks of a single-event tracer with another tracer on the six feature programs (no certificates, oracle only):
    (i) every statement-level event alone x single expression-level events on the two programs with docstrings and look-alikes;
    (ii) a random single event x a dense tracer (with and without before_stmt), per program; thorough: every event x every program"""
    import battery
    evs, deferred = rc.all_ast_events()
    progs = battery.programs()
    out = []
    exprs = ["after_string", "after_expr_stmt", "after_int", "load_name", "after_call", "before_call", "after_return", "after_assign_rhs", "after_function_execution", "before_function_body"]
    for pname in ("stmts", "funcs"):
        for se in STMT_EVENTS:
            for xe in (exprs if thorough else rng.sample(exprs, 4)):
                if xe == se:
                    continue
                st = [{"events": [se], "guards": rng.random() < 0.5}, {"events": [xe], "guards": rng.random() < 0.5}]
                if rng.random() < 0.5:
                    st.reverse()
                out.append({"src": progs[pname], "stack": st, "no_export": True})
    for pname, src in progs.items():
        singles = evs if thorough else rng.sample(evs, 6)
        for e1 in singles:
            dense = [e for e in evs if e != e1 and rng.random() < 0.8 and not (e == "before_stmt" and rng.random() < 0.6)]
            st = [{"events": [e1], "guards": rng.random() < 0.5}, {"events": dense, "guards": rng.random() < 0.5}]
            if rng.random() < 0.5:
                st.reverse()
            out.append({"src": src, "stack": st, "no_export": True})
    return out


def run(ctx, model_ok):
    rng = ctx.rng
    n = 50 if ctx.tier == "quick" else 500
    cases = [dict(rp) for rp in getattr(ctx, "known_replays", []) + getattr(ctx, "fixed_replays", [])] + [dict(c) for c in CORPUS]
    while len(cases) < n:
        cases.append(gen_case(rng))
    pb = pair_battery(rng, ctx.tier != "quick")
    impl = run_impl(cases) + run_impl(pb, export=False)
    cases = cases + pb
    failures = []
    deliveries = 0
    for c, im in zip(cases, impl):
        f = oracle_case(c, im)
        if "configs" in im and "global" in im["configs"][0]:
            deliveries += len(im["configs"][0]["global"])
        if f and len(failures) < 3:
            small, f = shrink(c, f)
            f.update({"case": small, "signature": signature(small, f)})
            failures.append(f)
    rows, idx = [], []
    for i, im in enumerate(impl):
        cf = im.get("configs", [])
        st = cases[i]["stack"]
        if cf and all("out_tree" in r for r in cf) and max(r["out_nodes"] for r in cf) <= 9000:
            if any(t.get("pred") for t in st):
                continue            # with node conditions the stacked rewrite has sites a solo rewrite lacks: decided by the oracle (and C11)
            for ti, t in enumerate(st):
                rows.append((cf[1 + ti]["out_tree"], cf[0]["out_tree"], t["events"], t["events"], union(st)))
                idx.append((i, ti))
    ok = {"proj": 0, "only1": 0, "only2": 0}
    bad = []
    if model_ok and rows:
        res = C03.proj_certificates(rows, prefix="c05_cert")
        for (i, ti), r in zip(idx, res):
            if r is None:
                bad.append({"case": cases[i], "tracer": ti, "coqc_failed": True})
                continue
            for k in ok:
                ok[k] += 1 if r[k] else 0
            if not all(r.values()):
                bad.append({"case": cases[i], "tracer": ti, "result": r})
        if bad:
            ctx.tie_broken("certificate", "solo-vs-stacked projection certificate fails on %d of %d (program, tracer) pairs" % (len(bad), len(rows)), json.dumps(bad[0])[-3000:])
    shapes = {}
    for c in cases:
        st = c["stack"]
        sets = [set(t["events"]) for t in st]
        inter = set.intersection(*sets)
        kind = "%d tracers, %s" % (len(st), "same" if all(s == sets[0] for s in sets) else ("disjoint" if not any(sets[i] & sets[j] for i in range(len(sets)) for j in range(i)) else ("overlapping" if inter else "partly overlapping")))
        shapes[kind] = shapes.get(kind, 0) + 1
    res = {
        "evaluations": len(cases),
        "distinct_nontrivial": len({lib.digest(c) for c, im in zip(cases, impl) if "configs" in im and len(im["configs"][0].get("global", [])) >= 4}),
        "rule": "generated programs (see C01) x stacks of 2-3 observing tracers with overlapping / disjoint / nested / identical event subsets (densities 0.15-0.8 of all "
                "AST events incl. deferred) and independent global-guard flags, a third of the tracers with a dynamic node condition (by node type, line or column parity), a quarter of the stacks with handlers that call an instrumented function of the program; each stack run once stacked, once per tracer alone, once as one tracer subscribed to the union; "
                "non-trivial = >=4 deliveries in the stacked run; distinct by sha1; plus a pair battery on the six feature programs (oracle only): every statement-level event alone x "
                "single expression-level events on the programs with docstrings, and single events x a dense tracer with / without before_stmt (thorough: every event x every program)",
        "samples": [{"stack": [{"n_events": len(t["events"]), "first": t["events"][:4], "guards": t["guards"], "pred": t.get("pred")} for t in cases[-1]["stack"]], "src_tail": cases[-1]["src"][-300:]}],
        "traces_validated": ok["proj"],
        "distribution": {"pair_battery_stacks": len(pb), "stack_shapes": shapes, "deliveries_compared": deliveries, "certificates_checked": len(rows), "certificates_ok": ok},
        "failures": failures, "extra": {"certificate_failures": len(bad)},
    }
    if model_ok:
        # the fragment models behind C05_frag_stack / C05_prog_stack: model/FragProg.v against the real rewriter, CPython and the real runtime (K-prog)
        from props import fragprog
        fragprog.run_into(ctx, rng, res, 16 if ctx.tier == "quick" else 300)
    return res


def replay(ctx, rep):
    case = (rep.get("failure") or {}).get("case")
    if case and case.get("frag") == "prog":
        from props import fragprog
        return fragprog.replay_case(case)
    return fails_on_impl(case) if case else None
