# C18 - K-book correspondence (model/Book.v vs BookkeepingVisitor) + lexical-structure oracle
import json
import random

import lib
import gen_prog

ID = "C18"
PROP_FILE = "props/C18.v"
COQ_TARGETS = ["props/C18.v"]
THEOREMS = ["C18_contains", "C18_parent", "C18_node", "C18_tables"]
TRUSTED_BASE = [
    "Coq 8.16.1 kernel, vm_compute for the in-coqc correspondence",
    "model/Book.v: hand transcription of BookkeepingVisitor.generic_visit as the ordered list of table writes, tied by K-book",
    "tools/impl/c18_book.py (exports the pristine tree shape and the tables with ids canonicalised to traversal indices)",
]
ASSUMPTIONS = [
    "the shared singleton nodes of CPython ASTs (Load/Store/Del, operators) are outside the tables' contract: they are one object reused "
    "everywhere and are never delivered to handlers",
    "statements only occur in list fields of their parent (true of Python's grammar; checked on every exported tree)",
]

EXTRA = [
    "@deco\ndef g(p) -> int:\n    a = 1\n    return a\ntry:\n    x = 1\nexcept ValueError as e:\n    y = 2\n",
    "def f():\n    try:\n        x = 1\n    except (KeyError, ValueError):\n        y = 2\n    finally:\n        z = 3\n    return 0\n",
    "match 3:\n    case 1:\n        a = 1\n    case [x, *_] if x:\n        a = 2\n@deco\nclass K(Box):\n    c = 1\n",
    "for i in range(2):\n    with Box() as b:\n        if i:\n            q = [j for j in range(2)]\n        else:\n            pass\n",
]


def coq_shape(sh):
    st, i, ch = sh
    return "Nd %s %d%%N [%s]" % ("true" if st else "false", i, "; ".join("(%s, %s)" % ("true" if il else "false", coq_shape(c)) for il, c in ch))


def coq_cases_file(shapes):
    L = ["From Coq Require Import List NArith Bool.", "Import ListNotations.", "From PyccoloV Require Import model.Book.",
         "Definition one (t : node) := let ws := visit None t in",
         "  map (fun n => (nid n, cs_lookup ws (nid n) None, ps_lookup ws (nid n) None, ca_lookup ws (nid n) None)) (nodes t)."]
    for sh in shapes:
        L.append("Eval vm_compute in one (%s)." % coq_shape(sh))
    return "\n".join(L) + "\n"


def optv(x):
    return None if x == "None" else x[1]


def run_impl(cases):
    out = []
    for i in range(0, len(cases), 50):
        rc, res, o = lib.impl_run("c18_book.py", cases[i:i + 50], timeout=900)
        if res is None:
            raise RuntimeError("implementation harness failed:\n" + o[-3000:])
        out += res
    return out


OUTER = {"If", "Try", "With", "AsyncWith"}
INITIAL = OUTER | {"For", "AsyncFor", "While"}


def oracle_file(f):
    if not f["same_shape"]:
        return {"what": "pristine copy does not have the shape of ast.parse(source)"}
    if f["internal"]:
        return {"what": "pristine nodes carry library-internal attributes: %s" % f["internal"][:3]}
    for i, tb in f["tables"].items():
        lx = f["lexical"][i]
        if not tb["node_ok"]:
            return {"what": "node %s (%s): ast_node_by_id does not return the node itself" % (i, lx["type"]), "node": i}
        if lx["anc_or_self_stmts"]:
            if tb["cs"] is None or tb["cs"] not in lx["anc_or_self_stmts"]:
                return {"what": "node %s (%s): containing statement is node %s, which does not contain it (enclosing statements: %s)"
                                % (i, lx["type"], tb["cs"], lx["anc_or_self_stmts"]), "node": i, "kind": "contains:" + lx["type"]}
        if lx["is_stmt"]:
            if tb["ps"] != lx["parent_stmt"]:
                return {"what": "statement %s (%s): parent statement is %s, lexically it is %s" % (i, lx["type"], tb["ps"], lx["parent_stmt"]),
                        "node": i, "kind": "parent"}
            want_outer = all(t in OUTER for t in lx["proper_stmt_ancestor_types"])
            want_init = all(t in INITIAL for t in lx["proper_stmt_ancestor_types"])
            want_excl_try = all(t in OUTER - {"Try"} for t in lx["proper_stmt_ancestor_types"])
            want_excl_iw = all(t in OUTER - {"If", "With"} for t in lx["proper_stmt_ancestor_types"])
            if tb["outer_excl_try"] != want_excl_try or tb["outer_excl_if_with"] != want_excl_iw:
                return {"what": "statement %s (%s) under %s: is_outer_stmt excluding Try=%s (lexically %s), excluding If/With=%s (lexically %s)"
                                % (i, lx["type"], lx["proper_stmt_ancestor_types"], tb["outer_excl_try"], want_excl_try, tb["outer_excl_if_with"], want_excl_iw),
                        "node": i, "kind": "outer-excl"}
            if tb["outer"] != want_outer or tb["initial_frame"] != want_init:
                return {"what": "statement %s (%s) under %s: is_outer_stmt=%s (lexically %s), is_initial_frame_stmt=%s (lexically %s)"
                                % (i, lx["type"], lx["proper_stmt_ancestor_types"], tb["outer"], want_outer, tb["initial_frame"], want_init),
                        "node": i, "kind": "outer"}
    return None


def oracle_case(case, im):
    if "crash" in im:
        return {"what": "instrumentation crashed: " + im["crash"], "tb": im.get("tb")}
    for k, f in enumerate(im["files"]):
        r = oracle_file(f)
        if r:
            r["file"] = k
            return r
    return None


def fails_on_impl(case):
    return oracle_case(case, run_impl([case])[0])


def signature(case, f):
    return "unlisted"


def run(ctx, model_ok):
    rng = ctx.rng
    n = 120 if ctx.tier == "quick" else 1500
    cases = [{"sources": [gen_prog.PRELUDE + s]} for s in EXTRA]
    while len(cases) < n:
        k = rng.choice([1, 1, 2, 3])
        cases.append({"sources": [gen_prog.PRELUDE + gen_prog.gen_program(random.Random(rng.random()), rng.choice(["core", "wide"]), nstmts=rng.choice([2, 3, 4]))
                                  for _ in range(k)]})
    impl = run_impl(cases)
    failures = []
    for c, im in zip(cases, impl):
        f = oracle_case(c, im)
        if f:
            f.update({"case": c, "signature": signature(c, f), "kind_": "oracle"})
            failures.append(f)
            if len(failures) >= 2:
                break
    mism, validated, nodes_checked = [], 0, 0
    if model_ok:
        flat = [(ci, fi, f) for ci, im in enumerate(impl) if "files" in im for fi, f in enumerate(im["files"])]
        shards = [flat[i:i + 25] for i in range(0, len(flat), 25)]
        outs = lib.coq_eval_many([("c18_cases_%d" % i, coq_cases_file([f["shape"] for _, _, f in sh])) for i, sh in enumerate(shards)], timeout=900)
        for i, sh in enumerate(shards):
            rc, out = outs["c18_cases_%d" % i]
            vals = lib.parse_marked(out) if rc == 0 else []
            if rc != 0 or len(vals) != len(sh):
                ctx.tie_broken("correspondence", "coqc failed on exported trees (rc=%s, %d/%d)" % (rc, len(vals), len(sh)), out[-3000:])
                continue
            for (ci, fi, f), v in zip(sh, vals):
                rows = lib.parse_coq_list(v)
                bad = None
                for (nid, cs, ps, ca) in rows:
                    tb = f["tables"][str(nid)]
                    m = {"cs": optv(cs), "ps": optv(ps), "ca": optv(ca)}
                    if m != {k: tb[k] for k in m}:
                        bad = {"case": ci, "file": fi, "node": nid, "type": f["lexical"][str(nid)]["type"], "model": m, "impl": {k: tb[k] for k in m}}
                        break
                    nodes_checked += 1
                if bad:
                    mism.append(bad)
                else:
                    validated += 1
        if mism:
            ctx.tie_broken("correspondence", "model/Book.v and BookkeepingVisitor disagree on %d of %d trees" % (len(mism), len(flat)), json.dumps(mism[0])[:3000])
    types = {}
    for im in impl:
        for f in im.get("files", []):
            for lx in f["lexical"].values():
                types[lx["type"]] = types.get(lx["type"], 0) + 1
    return {
        "evaluations": len(cases), "distinct_nontrivial": len({lib.digest(c) for c in cases}),
        "rule": "4 hand-written programs (decorators, annotations, except handlers, match, class) + generated programs (core/wide profiles, 2-4 top-level "
                "statements after a fixed prelude), 1-3 programs instrumented one after the other under the same tracer; every pristine node of every "
                "program is looked up in the class-level tables after ALL instrumentations; non-trivial = every case (prelude alone has 60+ nodes)",
        "samples": [cases[4]["sources"][0][-300:]], "traces_validated": validated,
        "distribution": {"nodes_checked_against_model": nodes_checked, "node_types": dict(sorted(types.items(), key=lambda x: -x[1])[:25])},
        "failures": failures, "extra": {"model_impl_disagreements": len(mism)},
    }


def replay(ctx, rep):
    case = (rep.get("failure") or {}).get("case")
    return fails_on_impl(case) if case else None
