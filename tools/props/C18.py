# C18 - K-book correspondence (model/Book.v vs BookkeepingVisitor) + lexical-structure oracle
import json
import random

import lib
import gen_prog

ID = "C18"
PROP_FILE = "props/C18.v"
COQ_TARGETS = ["props/C18.v", "model/BookHist.v"]
THEOREMS = ["C18_history_own_keys", "C18_contains", "C18_parent", "C18_parent_exact", "C18_outer_exact", "C18_outer_any_node", "C18_node", "C18_tables", "C18_history", "C18_remove_after_add_refuted"]
TRUSTED_BASE = [
    "Coq 8.16.1 kernel, vm_compute for the in-coqc correspondence",
    "model/Book.v: hand transcription of BookkeepingVisitor.generic_visit as the ordered list of table writes, tied by K-book",
    "tools/impl/c18_book.py (exports the pristine tree shape and the tables with ids canonicalised to traversal indices)",
    "translator tools/translators/gen_book.py (order of removal / addition in AstRewriter.visit, the removal condition, the tables add_bookkeeping / remove_bookkeeping touch)",
    "model/BookHist.v: the class-level tables over a history of instrumentations, tied by K-hist (tools/impl/c18_hist.py: whole modules and single functions, "
    "the same path again, other paths, collection on / off; every tree kept alive so that ids are not reused)",
]
ASSUMPTIONS = [
    "history theorem: the nodes of a new instrumentation are live objects whose ids are not in the tables yet, and its module id is not the module id of a bookkeeper "
    "whose code can still run (hist_fresh; checked on every real history of K-hist)",
    "the shared singleton nodes of CPython ASTs (Load/Store/Del, operators) are outside the tables' contract: they are one object reused "
    "everywhere and are never delivered to handlers",
    "statements only occur in list fields of their parent (true of Python's grammar; checked on every exported tree)",
]

EXTRA = [
    "@deco\ndef g(p) -> int:\n    a = 1\n    return a\ntry:\n    x = 1\nexcept ValueError as e:\n    y = 2\n",
    "def f():\n    try:\n        x = 1\n    except (KeyError, ValueError):\n        y = 2\n    finally:\n        z = 3\n    return 0\n",
    "match 3:\n    case 1:\n        a = 1\n    case [x, *_] if x:\n        a = 2\n@deco\nclass K(Box):\n    c = 1\n",
    "for i in range(2):\n    with Box() as b:\n        if i:\n            q = [j for j in range(2)]\n        else:\n            pass\n",
]


def coq_shape(sh):
    st, i, ch = sh
    return "Nd %s %d%%N [%s]" % ("true" if st else "false", i, "; ".join("(%s, %s)" % ("true" if il else "false", coq_shape(c)) for il, c in ch))


TYCODE = {"If": 1, "Try": 2, "With": 3, "AsyncWith": 4, "For": 5, "AsyncFor": 6, "While": 7}


def coq_cases_file(shapes, types=None):
    L = ["From Coq Require Import List NArith Bool.", "Import ListNotations.", "From PyccoloV Require Import model.Book proofs.BookExact.",
         "Definition tyf (tab : list (N * N)) (i : N) : N := match find (fun p => N.eqb (fst p) i) tab with Some p => snd p | None => 0%N end.",
         "Definition inl (l : list N) (c : N) : bool := existsb (N.eqb c) l.",
         "Definition one (t : node) (tab : list (N * N)) := let ws := visit None t in",
         "  map (fun n => (nid n, cs_lookup ws (nid n) None, ps_lookup ws (nid n) None, ca_lookup ws (nid n) None,",
         "                 [only_allowed_node (tyf tab) (inl [1;2;3;4]%N) t (nid n) (length (nodes t)); only_allowed_node (tyf tab) (inl [1;2;3;4;5;6;7]%N) t (nid n) (length (nodes t));",
         "                  only_allowed_node (tyf tab) (inl [1;3;4]%N) t (nid n) (length (nodes t)); only_allowed_node (tyf tab) (inl [2;4]%N) t (nid n) (length (nodes t))])) (nodes t)."]
    for k, sh in enumerate(shapes):
        tab = "; ".join("(%d, %d)" % (int(i), TYCODE[ty]) for i, ty in (types[k] if types else []) if ty in TYCODE)
        L.append("Eval vm_compute in one (%s) [%s]%%N." % (coq_shape(sh), tab))
    return "\n".join(L) + "\n"


def optv(x):
    return None if x == "None" else x[1]


def run_impl(cases):
    out = []
    for i in range(0, len(cases), 50):
        rc, res, o = lib.impl_run("c18_book.py", cases[i:i + 50], timeout=900)
        if res is None:
            raise RuntimeError("implementation harness failed:\n" + o[-3000:])
        out += res
    return out


OUTER = {"If", "Try", "With", "AsyncWith"}
INITIAL = OUTER | {"For", "AsyncFor", "While"}


def oracle_file(f):
    if not f["same_shape"]:
        return {"what": "pristine copy does not have the shape of ast.parse(source)"}
    if f["internal"]:
        return {"what": "pristine nodes carry library-internal attributes: %s" % f["internal"][:3]}
    for i, tb in f["tables"].items():
        lx = f["lexical"][i]
        if not tb["node_ok"]:
            return {"what": "node %s (%s): ast_node_by_id does not return the node itself" % (i, lx["type"]), "node": i}
        if lx["anc_or_self_stmts"]:
            if tb["cs"] is None or tb["cs"] not in lx["anc_or_self_stmts"]:
                return {"what": "node %s (%s): containing statement is node %s, which does not contain it (enclosing statements: %s)"
                                % (i, lx["type"], tb["cs"], lx["anc_or_self_stmts"]), "node": i, "kind": "contains:" + lx["type"]}
        if lx["is_stmt"] and tb["ps"] != lx["parent_stmt"]:
            return {"what": "statement %s (%s): parent statement is %s, lexically it is %s" % (i, lx["type"], tb["ps"], lx["parent_stmt"]),
                    "node": i, "kind": "parent"}
        if lx["is_stmt"] or lx["anc_or_self_stmts"]:
            # the classification of ANY node inside a statement is that of its statement: the statements strictly above that one decide
            above = lx["proper_stmt_ancestor_types"] if lx["is_stmt"] else lx["proper_stmt_ancestor_types"][:-1]
            want_outer = all(t in OUTER for t in above)
            want_init = all(t in INITIAL for t in above)
            want_excl_try = all(t in OUTER - {"Try"} for t in above)
            want_excl_iw = all(t in OUTER - {"If", "With"} for t in above)
            if tb["outer_excl_try"] != want_excl_try or tb["outer_excl_if_with"] != want_excl_iw:
                return {"what": "node %s (%s), statements above its statement %s: is_outer_stmt excluding Try=%s (lexically %s), excluding If/With=%s (lexically %s)"
                                % (i, lx["type"], above, tb["outer_excl_try"], want_excl_try, tb["outer_excl_if_with"], want_excl_iw),
                        "node": i, "kind": "outer-excl"}
            if tb["outer"] != want_outer or tb["initial_frame"] != want_init:
                return {"what": "node %s (%s), statements above its statement %s: is_outer_stmt=%s (lexically %s), is_initial_frame_stmt=%s (lexically %s)"
                                % (i, lx["type"], above, tb["outer"], want_outer, tb["initial_frame"], want_init),
                        "node": i, "kind": "outer"}
    return None


def oracle_case(case, im):
    if "crash" in im:
        return {"what": "instrumentation crashed: " + im["crash"], "tb": im.get("tb")}
    for k, f in enumerate(im["files"]):
        r = oracle_file(f)
        if r:
            r["file"] = k
            return r
    return None


def fails_on_impl(case):
    if "ops" in case:
        return hist_oracle(case, run_hist([case])[0])
    return oracle_case(case, run_impl([case])[0])


# ---------------------------------------------------------------- K-hist: histories of instrumentations (model/BookHist.v)
def gen_hist_case(rng):
    npaths = rng.choice([1, 2, 2, 3])
    ops = []
    versions = {}
    for _ in range(rng.choice([2, 3, 4, 5])):
        path = rng.randrange(npaths)
        kind = "module" if path not in versions or rng.random() < 0.65 else "function"
        if path in versions and rng.random() < 0.5:
            src = versions[path]                                  # the same text again (re-import, second decoration)
            if rng.random() < 0.5:
                src = src + "zz_added = %d\n" % rng.randrange(9)  # an edited file: one more line
        else:
            src = ("async " if rng.random() < 0.3 else "") + "def fh(p=1):\n    q = p + %d\n    return q\n" % rng.randrange(9) + gen_prog.gen_program(random.Random(rng.random()), "core", nstmts=rng.choice([1, 2, 3]))
        versions[path] = src
        ops.append({"path": path, "kind": kind, "src": src})
    return {"ops": ops, "gc": rng.random() < 0.85}


def run_hist(cases):
    out = []
    for i in range(0, len(cases), 50):
        rc, res, o = lib.impl_run("c18_hist.py", cases[i:i + 50], timeout=900)
        if res is None:
            raise RuntimeError("implementation harness failed:\n" + o[-3000:])
        out += res
    return out


def valid_ops(case):
    """the instrumentations whose code can still run: per path the latest whole-module one (when collection is on) and everything after it"""
    val = {}
    for j, op in enumerate(case["ops"]):
        if case.get("gc", True) and op["kind"] == "module":
            val[op["path"]] = [j]
        else:
            val.setdefault(op["path"], []).append(j)
    return sorted(j for v in val.values() for j in v)


def hist_oracle(case, im):
    if "crash" in im:
        return {"what": "instrumentation crashed: " + im["crash"], "tb": im.get("tb")}
    for j in valid_ops(case):
        r = im["ops"][j]
        op = case["ops"][j]
        if r["present"] != r["n"]:
            return {"what": "instrumentation %d of the history (%s, path %d) can still run but only %d of its %d nodes are still in ast_node_by_id" % (j, op["kind"], op["path"], r["present"], r["n"]),
                    "kind": "hist-nodes", "op": j}
        if not r["links_ok"]:
            return {"what": "instrumentation %d: a containing / parent entry points into another instrumentation's tree" % j, "kind": "hist-links", "op": j}
        last = {}
        for l, want, got, starts in r["lines"]:
            last[l] = (want, got, starts)
        for l, (want, got, starts) in last.items():
            if got != want:
                return {"what": "instrumentation %d (%s, path %d) can still run but the line table of its module returns %s for line %d (its statement there is node %s)"
                                % (j, op["kind"], op["path"], got, l, want), "kind": "hist-lines", "op": j}
    return None


def mid_code(j, r):
    """the module id in the numbering of the model's node ids (j * 100000 + index) when it is the id of one of the bookkeeper's own nodes"""
    return j * 100000 + r["mid_node"] if r.get("mid_node") is not None else 90000000 + r["mid"]


def hist_cases_file(cases, impl):
    L = ["From Coq Require Import List NArith Bool.", "Import ListNotations.", "From PyccoloV Require Import gen.BookOrder model.BookHist.",
         "Definition one (gc : bool) (ops : list op) := let s := BookHist.run book_remove_first book_remove_old_mid gc ops st0 in",
         "  map (fun o => let b := o_bk o in (length (filter (gn s) (b_ids b)), map (fun li => gl s (b_mid b) (fst li)) (b_lines b), map b_mid (valid s (o_path o)))) ops."]
    for c, im in zip(cases, impl):
        ops = []
        for j, (op, r) in enumerate(zip(c["ops"], im["ops"])):
            ids = "; ".join("%d" % (j * 100000 + i) for i in range(r["n"]))
            lines = "; ".join("(%d, %d)" % (l, want[0] * 100000 + want[1]) for l, want, _, _ in r["lines"])
            ops.append("{| o_path := %d; o_kind := %s; o_bk := {| b_mid := %d; b_ids := [%s]; b_lines := [%s] |} |}"
                       % (op["path"], "KModule" if op["kind"] == "module" else "KFunction", mid_code(j, r), ids, lines))
        L.append("Eval vm_compute in one %s [%s]%%N." % ("true" if c.get("gc", True) else "false", "; ".join(ops)))
    return "\n".join(L) + "\n"


def signature(case, f):
    return "unlisted"


def run(ctx, model_ok):
    rng = ctx.rng
    n = 120 if ctx.tier == "quick" else 1500
    cases = [{"sources": [gen_prog.PRELUDE + s]} for s in EXTRA]
    while len(cases) < n:
        k = rng.choice([1, 1, 2, 3])
        cases.append({"sources": [gen_prog.PRELUDE + gen_prog.gen_program(random.Random(rng.random()), rng.choice(["core", "wide"]), nstmts=rng.choice([2, 3, 4]))
                                  for _ in range(k)]})
    impl = run_impl(cases)
    failures = []
    for c, im in zip(cases, impl):
        f = oracle_case(c, im)
        if f:
            f.update({"case": c, "signature": signature(c, f), "kind_": "oracle"})
            failures.append(f)
            if len(failures) >= 2:
                break
    mism, validated, nodes_checked = [], 0, 0
    if model_ok:
        flat = [(ci, fi, f) for ci, im in enumerate(impl) if "files" in im for fi, f in enumerate(im["files"])]
        shards = [flat[i:i + 25] for i in range(0, len(flat), 25)]
        outs = lib.coq_eval_many([("c18_cases_%d" % i, coq_cases_file([f["shape"] for _, _, f in sh], [[(ix, lx["type"]) for ix, lx in f["lexical"].items()] for _, _, f in sh]))
                                  for i, sh in enumerate(shards)], timeout=900)
        for i, sh in enumerate(shards):
            rc, out = outs["c18_cases_%d" % i]
            vals = lib.parse_marked(out) if rc == 0 else []
            if rc != 0 or len(vals) != len(sh):
                ctx.tie_broken("correspondence", "coqc failed on exported trees (rc=%s, %d/%d)" % (rc, len(vals), len(sh)), out[-3000:])
                continue
            for (ci, fi, f), v in zip(sh, vals):
                rows = lib.parse_coq_list(v)
                bad = None
                for (nid, cs, ps, ca, cl) in rows:
                    tb = f["tables"][str(nid)]
                    m = {"cs": optv(cs), "ps": optv(ps), "ca": optv(ca)}
                    if cl and "outer" in tb:
                        m.update({"outer": cl[0], "initial_frame": cl[1], "outer_excl_try": cl[2], "outer_excl_if_with": cl[3]})
                    if m != {k: tb[k] for k in m}:
                        bad = {"case": ci, "file": fi, "node": nid, "type": f["lexical"][str(nid)]["type"], "model": m, "impl": {k: tb[k] for k in m}}
                        break
                    nodes_checked += 1
                if bad:
                    mism.append(bad)
                else:
                    validated += 1
        if mism:
            ctx.tie_broken("correspondence", "model/Book.v and BookkeepingVisitor disagree on %d of %d trees" % (len(mism), len(flat)), json.dumps(mism[0])[:3000])
    # histories
    hcases = [dict(r) for r in getattr(ctx, "known_replays", []) + getattr(ctx, "fixed_replays", []) if "ops" in r]
    while len(hcases) < (100 if ctx.tier == "quick" else 1200):
        hcases.append(gen_hist_case(rng))
    himpl = run_hist(hcases)
    hfail = 0
    for c, im in zip(hcases, himpl):
        f = hist_oracle(c, im)
        if f and hfail < 2:
            hfail += 1
            f.update({"case": c, "signature": "unlisted", "kind_": "oracle", "harness": "c18_hist.py"})
            failures.append(f)
    hvalidated, hm, not_fresh, foreign_keys = 0, [], 0, 0
    if model_ok:
        good = [(c, im) for c, im in zip(hcases, himpl) if "ops" in im]
        shards = [good[i:i + 40] for i in range(0, len(good), 40)]
        outs = lib.coq_eval_many([("c18_hist_%d" % i, hist_cases_file([c for c, _ in sh], [im for _, im in sh])) for i, sh in enumerate(shards)], timeout=900)
        for i, sh in enumerate(shards):
            rc, out = outs["c18_hist_%d" % i]
            vals = lib.parse_marked(out) if rc == 0 else []
            if rc != 0 or len(vals) != len(sh):
                ctx.tie_broken("correspondence", "coqc failed on exported histories (rc=%s, %d/%d)" % (rc, len(vals), len(sh)), out[-3000:])
                continue
            for (c, im), v in zip(sh, vals):
                rows = lib.parse_coq_list(v)
                if not all(r["fresh"] for r in im["ops"]):
                    not_fresh += 1
                mids_valid = sorted(mid_code(j, im["ops"][j]) for j in valid_ops(c))
                if not all(r.get("mid_node") is not None for r in im["ops"]):
                    foreign_keys += 1
                mvalid = sorted({m for (_, _, vl) in rows for m in vl})
                bad = None
                for j, ((present, lines, _), r) in enumerate(zip(rows, im["ops"])):
                    ml = [None if x == "None" else [x[1] // 100000, x[1] % 100000] for x in lines]
                    il = [got for _, _, got, _ in r["lines"]]
                    if present != r["present"] or ml != il:
                        bad = {"case": c, "op": j, "model": {"present": present, "lines": ml}, "impl": {"present": r["present"], "lines": il}}
                        break
                if bad is None and mvalid != mids_valid:
                    bad = {"case": c, "model_valid": mvalid, "expected_valid": mids_valid}
                if bad:
                    hm.append(bad)
                else:
                    hvalidated += 1
        if hm:
            mism += hm
            ctx.tie_broken("correspondence", "model/BookHist.v and the real tables disagree on %d of %d histories" % (len(hm), len(hcases)), json.dumps(hm[0])[:3000])
        if foreign_keys:
            ctx.tie_broken("correspondence", "%d real histories have a line table keyed by something that is not one of the bookkeeper's own nodes "
                           "(the hypothesis of C18_history_own_keys; gen/BookOrder.v book_mid_is_registered_node)" % foreign_keys, "")
        if not_fresh:
            ctx.tie_broken("correspondence", "%d real histories do not meet the freshness hypothesis of C18_history (new node ids already in the tables)" % not_fresh, "")
    validated += hvalidated
    types = {}
    for im in impl:
        for f in im.get("files", []):
            for lx in f["lexical"].values():
                types[lx["type"]] = types.get(lx["type"], 0) + 1
    return {
        "evaluations": len(cases) + len(hcases), "distinct_nontrivial": len({lib.digest(c) for c in cases + hcases}),
        "rule": "4 hand-written programs (decorators, annotations, except handlers, match, class) + generated programs (core/wide profiles, 2-4 top-level "
                "statements after a fixed prelude), 1-3 programs instrumented one after the other under the same tracer; every pristine node of every "
                "program is looked up in the class-level tables after ALL instrumentations; non-trivial = every case (prelude alone has 60+ nodes).  K-hist: histories of "
                "2-5 instrumentations over 1-3 paths (whole module 65% / a single function of the file; the same text again, an edited text, or new text; collection "
                "on 85%): afterwards, for every instrumentation whose code can still run, all nodes present, links stay inside its tree, the line table of its module "
                "returns its own statements; every table compared with model/BookHist.v",
        "samples": [cases[4]["sources"][0][-300:]], "traces_validated": validated,
        "distribution": {"histories": len(hcases), "history_ops": sum(len(c["ops"]) for c in hcases),
                         "histories_reinstrumenting_a_path": sum(1 for c in hcases if len({o["path"] for o in c["ops"]}) < len(c["ops"])),
                         "history_kinds": {k: sum(1 for c in hcases for o in c["ops"] if o["kind"] == k) for k in ("module", "function")},
                         "nodes_checked_against_model": nodes_checked, "node_types": dict(sorted(types.items(), key=lambda x: -x[1])[:25])},
        "failures": failures, "extra": {"model_impl_disagreements": len(mism)},
    }


def replay(ctx, rep):
    case = (rep.get("failure") or {}).get("case")
    return fails_on_impl(case) if case else None
