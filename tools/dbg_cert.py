#!/venv/bin/python
# debugging aid:  dbg_cert.py '<case json: {"src":..., "events":[...], "guards":bool}>'  -> first difference between erase(rewriter output) and norm(source)
import json
import sys
import os
sys.path.insert(0, os.path.dirname(os.path.abspath(__file__)))
import lib
from props import C01
from props import rwcommon as rc
import dbg_proj as dp


def first_diff(a, b, path=""):
    if a == b:
        return None
    if a == "NoneNode" or b == "NoneNode" or len(a) != 4 or len(b) != 4 or a[1] != b[1] or a[2] != b[2] or len(a[3]) != len(b[3]):
        return path, a, b
    for i, (fa, fb) in enumerate(zip(a[3], b[3])):
        if len(fa) != len(fb):
            return path + "/%s.f%d(len %d vs %d)" % (dp.KN.get(a[1], a[1]), i, len(fa), len(fb)), fa, fb
        for j, (x, y) in enumerate(zip(fa, fb)):
            d = first_diff(x, y, path + "/%s.f%d[%d]" % (dp.KN.get(a[1], a[1]), i, j))
            if d:
                return d
    return path, a, b


def main():
    case = json.loads(sys.argv[1]) if not os.path.exists(sys.argv[1]) else json.load(open(sys.argv[1]))
    im = C01.run_impl([case])[0]
    text = rc.CERT_HEADER + "Definition s0 := %s.\nDefinition o0 := %s.\nEval vm_compute in (erase o0, norm s0).\n" % (im["src_tree"], im["out_tree"])
    rcode, out = lib.coq_eval("dbg_cert", text, timeout=600)
    vals = lib.parse_marked(out)
    er, no = lib.parse_coq_list(vals[0])
    print("erase:", "None" if er == "None" else "Some [%d trees]" % len(er[1]))
    if er == "None":
        return
    d = first_diff(er[1][0], no)
    if d is None:
        print("equal")
        return
    print("PATH", d[0])
    for label, t in (("ERASED OUTPUT", d[1]), ("NORMALISED SOURCE", d[2])):
        print("----", label)
        if isinstance(t, list):
            for x in t:
                print("\n".join(dp.pp(x)[:40]))
        else:
            print("\n".join(dp.pp(t)[:60]))


main()
