# K-select for C19: the code-object tree of compiled snippets and what tracer.find_function_code picks in it.
#   stdin: list of {"src": text, "names": [function names]}
import json
import sys
import types

from pyccolo.tracer import find_function_code


def main():
    cases = json.load(sys.stdin)
    out = []
    for c in cases:
        try:
            code = compile(c["src"], "<k-select>", "exec")
            names = {}
            uids = {}

            def name_id(n):
                return names.setdefault(n, len(names) + 1)

            def export(co):
                uid = len(uids)
                uids[id(co)] = uid
                kids = [export(k) for k in co.co_consts if isinstance(k, types.CodeType)]
                return [uid, name_id(co.co_name), co.co_name.startswith("<generic parameters"), kids]
            tree = export(code)
            picks = []
            for n in c["names"]:
                got = find_function_code(code, n)
                picks.append([name_id(n), None if got is None else uids[id(got)]])
            out.append({"tree": tree, "picks": picks})
        except BaseException as e:
            out.append({"crash": "%s: %s" % (type(e).__name__, e)})
    print("@@" + json.dumps(out))


main()
