# K-sysfold: the path system events take - ONE tracer's own fold (tracer._sys_tracer -> tracer._emit_event), with scripted handlers.
#   stdin: list of {"event": "call" | "exception" | "return_" | "line", "init": int, "handlers": [{"pred":..., "table":..., "default":...}]}
import json
import sys

import os

import pyccolo as pyc

sys.path.insert(0, os.path.dirname(os.path.abspath(__file__)))
import c04_rt  # noqa: E402  (classify / realise)


def run_case(case, ci):
    event = case["event"]
    evobj = pyc.TraceEvent(event if event != "return_" else "return")
    log = []
    attrs = {"should_instrument_file": lambda self, f: True, "file_passes_filter_for_event": lambda self, e, f: True}
    for hi, h in enumerate(case["handlers"]):
        def make(hi=hi, h=h):
            def handler(self, ret, node, frame, evt, guard, **kw):
                seen = ["sys"] if ret is self.sys_tracer else c04_rt.classify(ret)
                log.append([0, hi, seen])
                return c04_rt.realise(h["table"].get(json.dumps(seen), h["default"]), event)
            handler.__name__ = "h_%d" % hi
            kw = {}
            if h["pred"] is not None:
                kw["when"] = (lambda node, p=h["pred"]: p)
            return pyc.register_raw_handler(evobj, **kw)(handler)
        attrs["h_%d" % hi] = make()
    t = type("S%d" % ci, (pyc.BaseTracer,), attrs).instance()
    t.sys_tracer = t._make_composed_tracer(None)

    def subject():
        return sys._getframe()
    frame = subject()
    try:
        if event == "call":
            out = t._sys_tracer(frame, "call", None)
        else:
            out = t._sys_tracer(frame, {"return_": "return"}.get(event, event), case["init"])
        if type(out) is tuple and len(out) == 2 and out[0] is pyc.SkipAll:
            res = {"skipall": True, "value": ["sys"] if out[1] is t.sys_tracer else c04_rt.classify(out[1])}
        else:
            res = {"skipall": False, "value": ["sys"] if out is t.sys_tracer else c04_rt.classify(out)}
    except BaseException as e:
        res = {"exc": type(e).__name__}
    res["log"] = log
    type(t).clear_instance()
    return res


def main():
    cases = json.load(sys.stdin)
    out = []
    for i, c in enumerate(cases):
        try:
            out.append(run_case(c, i))
        except BaseException as e:
            import traceback
            out.append({"crash": "%s: %s" % (type(e).__name__, e), "tb": traceback.format_exc()[-800:]})
    print("@@" + json.dumps(out))


main()
