# K-aug: token replacement + position fixing on generated sources; end-to-end marks via get_augmentations
import ast
import itertools
import json
import sys

import pyccolo as pyc
from pyccolo.syntax_augmentation import (AugmentationSpec, AugmentationType, fix_positions, make_tokens_by_line,
                                         replace_tokens_and_get_augmented_positions)

KIND = {"prefix": AugmentationType.prefix, "suffix": AugmentationType.suffix, "dot": AugmentationType.dot, "binop": AugmentationType.binop}


def ident(node):
    if isinstance(node, ast.Name):
        return "N:" + node.id
    if isinstance(node, ast.Attribute) and isinstance(node.value, ast.Name):
        return "A:" + node.value.id + "." + node.attr
    if isinstance(node, ast.Attribute):
        return "A:?." + node.attr
    if isinstance(node, ast.BinOp) and isinstance(node.left, ast.Name):
        return "B:" + node.left.id
    if isinstance(node, ast.BinOp):
        l = node.left
        while isinstance(l, ast.BinOp):
            l = l.right
        return "B:" + (l.id if isinstance(l, ast.Name) else (l.attr if isinstance(l, ast.Attribute) else "?"))
    return type(node).__name__


OPAQUE = {"STRING", "COMMENT", "FSTRING_MIDDLE"}


def export_tokens(text, toks):
    """[gap text before the token, the token's own text (source slice for strings / f-string literal parts / comments), opaque?, row, col] -
    gaps and slices are cut from the source text here, independently of the library"""
    import tokenize
    rows = text.splitlines(keepends=True)

    def between(a, b):
        if a >= b:
            return ""
        if a[0] == b[0]:
            return rows[a[0] - 1][a[1]:b[1]] if a[0] <= len(rows) else ""
        out = [rows[a[0] - 1][a[1]:] if a[0] <= len(rows) else ""]
        out += [rows[r - 1] for r in range(a[0] + 1, b[0]) if r <= len(rows)]
        out.append(rows[b[0] - 1][:b[1]] if b[0] <= len(rows) else "")
        return "".join(out)
    out, prev = [], (1, 0)
    for t in toks:
        opaque = tokenize.tok_name[t.type] in OPAQUE
        out.append([between(prev, t.start), between(t.start, t.end) if opaque else t.string, opaque, t.start[0], t.start[1]])
        prev = t.end
    return out


def run_case(case, ci):
    specs = [AugmentationSpec(KIND[s["kind"]], s["token"], s["repl"]) for s in case["specs"]]
    res = {"passes": []}
    # 1. pass by pass with the real functions
    text = case["src"]
    pos_by_spec = {}
    for sp in specs:
        toks = list(itertools.chain(*make_tokens_by_line(text.splitlines(keepends=True))))
        out, positions = replace_tokens_and_get_augmented_positions(toks, sp)
        res["passes"].append({"tokens": export_tokens(text, toks), "out": out,
                              "positions": [list(p) for p in positions]})
        pos_by_spec[sp] = set(positions)
        text = out
    res["final_text"] = text
    try:
        fixed = fix_positions(pos_by_spec, tuple(specs))
        res["fixed"] = [sorted(list(p) for p in fixed[sp]) for sp in specs]
    except Exception as e:
        res["fixed_exc"] = type(e).__name__
    # 2. end to end
    class T(pyc.BaseTracer):
        @property
        def syntax_augmentation_specs(self):
            return specs

        @pyc.register_handler(pyc.after_stmt)
        def h(self, *_, **__):
            return None
    T.__name__ = "Aug%d" % ci
    t = T.instance()
    try:
        with t.tracing_enabled():
            rewriter = t.make_ast_rewriter("<sandbox-aug-%d>" % ci)
            code = case["src"]
            code = t.preprocess(code, rewriter)
            res["e2e_text"] = code
            rewriter.visit(ast.parse(code))
            marks = []
            for n in t.ast_node_by_id.values():
                augs = t.get_augmentations(id(n))
                for a in augs:
                    marks.append([a.token, ident(n), getattr(n, "lineno", None)])
            res["marks"] = sorted(marks)
    except Exception as e:
        res["e2e_exc"] = "%s: %s" % (type(e).__name__, str(e)[:80])
    finally:
        for sp in specs:
            t.augmented_node_ids_by_spec[sp].clear()
        T.clear_instance()
    return res


def main():
    cases = json.load(sys.stdin)
    out = []
    for i, c in enumerate(cases):
        try:
            out.append(run_case(c, i))
        except BaseException as e:
            import traceback
            out.append({"crash": "%s: %s" % (type(e).__name__, e), "tb": traceback.format_exc()[-800:]})
    print("@@" + json.dumps(out))


main()
