# C19 harness: module-level functions of a REAL module file, decorated with one or several tracers; for every function and
# argument list: original vs decorated (result / exception, name, doc), the events delivered during the call (with node
# validity), the tracer stack and per-tracer flags before / after every call, and the events an independently instrumented
# copy of the same function delivers (reference).
#   stdin: list of cases {"module_src": text with placeholders, "funcs": [{"name":..., "calls": [expr, ...]}], "tracers": [{"events": [...]}],
#                         "style": "pyc" | "method"}
import ast
import importlib
import inspect
import json
import os
import shutil
import sys
import tempfile
import textwrap
import types

import pyccolo as pyc
from pyccolo.emit_event import _TRACER_STACK

sys.path.insert(0, os.path.join(os.path.dirname(os.path.abspath(__file__)), ".."))
import gen_prog  # noqa: E402


def ser(v, d=0):
    if isinstance(v, int) and not isinstance(v, bool) and v.bit_length() > 256:
        return "<int of %d bits, %d mod 1000003>" % (v.bit_length(), v % 1000003)
    if isinstance(v, (bool, int, str, float, type(None))):
        return repr(v)
    if isinstance(v, (list, tuple)) and d < 3:
        return [type(v).__name__] + [ser(x, d + 1) for x in v]
    if isinstance(v, dict) and d < 3:
        return ["dict"] + [[ser(k, d + 1), ser(x, d + 1)] for k, x in v.items()]
    if isinstance(v, types.GeneratorType):
        out = []
        try:
            for x in v:
                out.append(ser(x, d + 1))
        except BaseException as e:
            out.append("!" + type(e).__name__)
        return ["generator"] + out
    return "<%s>" % type(v).__name__


def outcome(fn, args_src, env):
    try:
        a, k = eval("(lambda *a, **k: (a, k))(%s)" % args_src, dict(env))
        return ["ok", ser(fn(*a, **k))]
    except BaseException as e:
        return ["exc", type(e).__name__, [ser(x) for x in e.args]]


def reset(mod):
    """the generated bodies mutate module globals: every run starts from the same state"""
    mod.bx = mod.Box(5)
    mod._rec.clear()
    mod.a, mod.b, mod.c, mod.d = 1, 2, 3, 4


def snapshot(tracers):
    import builtins
    return {"stack": len(_TRACER_STACK), "enabled": [bool(t._is_tracing_enabled) for t in tracers],
            "emit": hasattr(builtins, "_X5ix_PYCCOLO_EVT_EMIT")}


def run_case(c, ci, root):
    log = []
    active = {"on": False}
    tracers = []
    res = {"funcs": {}}
    modname = "c19mod_%d" % ci
    try:
        for ti, ts in enumerate(c["tracers"]):
            evs = tuple(pyc.TraceEvent(e) for e in ts["events"])

            def handler(self, ret, node, frame, evt, *a, ti=ti, **kw):
                desc = None if node is None else [type(node).__name__, getattr(node, "lineno", None), getattr(node, "col_offset", None)]
                log.append([ti, evt.value, desc, os.path.basename(frame.f_code.co_filename), active["on"]])
            handler.__name__ = "h"
            attrs = {"h": pyc.register_handler(evs)(handler), "global_guards_enabled": ts.get("guards", True),
                     "should_instrument_file": lambda self, fn, root=root: fn.startswith(root) or fn.startswith("<sandbox")}
            tracers.append(type("DT%d_%d" % (ci, ti), (pyc.BaseTracer,), attrs).instance())
        support = types.ModuleType("c19_support")
        support.DECO = pyc.instrumented(tracers) if c["style"] == "pyc" else tracers[0]
        import functools

        def OTHER(f):
            @functools.wraps(f)
            def w(*a, **k):
                return f(*a, **k)
            return w
        support.OTHER = OTHER
        sys.modules["c19_support"] = support
        path = os.path.join(root, modname + ".py")
        with open(path, "w") as f:
            f.write(c["module_src"])
        try:
            mod = importlib.import_module(modname)
        except BaseException as e:
            import traceback
            res["import_error"] = "%s: %s" % (type(e).__name__, str(e)[:200]) + traceback.format_exc()[-800:]
            return res
        res["after_import"] = snapshot(tracers)
        res["events_at_import"] = len(log)
        used = tracers if c["style"] == "pyc" else tracers[:1]
        order = [(fn, i) for fn in c["funcs"] for i in range(len(fn["calls"]))]
        if c.get("interleave"):
            order.sort(key=lambda x: x[1])
        for fn, i in order:
            name = fn["name"]
            args = fn["calls"][i]
            dec, plain = getattr(mod, name), getattr(mod, name + "__plain")
            r = res["funcs"].setdefault(name, {"name": dec.__name__, "doc": dec.__doc__, "plain_doc": plain.__doc__, "calls": []})
            before = snapshot(tracers)
            n0 = len(log)
            reset(mod)
            active["on"] = True
            got = outcome(dec, args, vars(mod))
            active["on"] = False
            after = snapshot(tracers)
            rec_dec = list(mod._rec)
            reset(mod)
            want = outcome(plain, args, vars(mod))
            if rec_dec != list(mod._rec):
                want = want + ["side effects differ"]
            reset(mod)
            # reference: the same function text instrumented on its own through exec, called inside an explicit context
            ref_log = []
            src = textwrap.dedent(inspect.getsource(plain)).replace("%s__plain" % name, name)
            n1 = len(log)
            try:
                from contextlib import ExitStack
                with ExitStack() as st:
                    for t in used:
                        st.enter_context(t.tracing_enabled())
                    env = dict(vars(mod))
                    genv = env
                    env = dict(genv, **used[-1].exec(src, genv, {}))
                    genv[name] = env[name]            # recursion must reach the reference function, not the module's decorated one
                    m1 = len(log)
                    ref_outcome = outcome(env[name], args, env)
                ref_log = [[e[0], e[1], None if e[2] is None else e[2][0]] for e in log[m1:]]
            except BaseException as e:
                ref_log = ["reference failed: %s: %s" % (type(e).__name__, e)]
            del log[n1:]
            evs = [[e[0], e[1], None if e[2] is None else e[2][0]] for e in log[n0:n1]]
            r["calls"].append({"args": args, "reference_outcome": locals().get("ref_outcome"), "decorated": got, "plain": want, "before": before, "after": after, "events": evs, "reference": ref_log,
                               "invalid_nodes": sum(1 for e in log[n0:n1] if e[2] is None)})
        res["outside_events"] = sum(1 for e in log if not e[4]) - res["events_at_import"]
    finally:
        for t in tracers:
            type(t).clear_instance()
        sys.modules.pop(modname, None)
        sys.modules.pop("c19_support", None)
    return res


def main():
    cases = json.load(sys.stdin)
    root = tempfile.mkdtemp(prefix="pycc19-", dir="/var/tmp")
    sys.path.insert(0, root)
    sys.dont_write_bytecode = True
    out = []
    try:
        for i, c in enumerate(cases):
            try:
                out.append(run_case(c, i, root))
            except BaseException as e:
                import traceback
                out.append({"crash": "%s: %s" % (type(e).__name__, e), "tb": traceback.format_exc()[-1500:]})
    finally:
        shutil.rmtree(root, ignore_errors=True)
    print("@@" + json.dumps(out))


if __name__ == "__main__":
    main()
