# C19 harness: module-level functions of a REAL module file, decorated with one or several tracers; for every function and
# argument list: original vs decorated (result / exception, name, doc), the events delivered during the call (with node
# validity), the tracer stack and per-tracer flags before / after every call, and the events an independently instrumented
# copy of the same function delivers (reference).
#   stdin: list of cases {"module_src": text with placeholders, "funcs": [{"name":..., "calls": [expr, ...]}], "tracers": [{"events": [...]}],
#                         "style": "pyc" | "method"}
import ast
import importlib
import inspect
import json
import os
import shutil
import sys
import tempfile
import textwrap
import types

import pyccolo as pyc
from pyccolo.emit_event import _TRACER_STACK

sys.path.insert(0, os.path.join(os.path.dirname(os.path.abspath(__file__)), ".."))
import gen_prog  # noqa: E402


def ser(v, d=0):
    if isinstance(v, int) and not isinstance(v, bool) and v.bit_length() > 256:
        return "<int of %d bits, %d mod 1000003>" % (v.bit_length(), v % 1000003)
    if isinstance(v, (bool, int, str, float, type(None))):
        return repr(v)
    if isinstance(v, (list, tuple)) and d < 3:
        return [type(v).__name__] + [ser(x, d + 1) for x in v]
    if isinstance(v, dict) and d < 3:
        return ["dict"] + [[ser(k, d + 1), ser(x, d + 1)] for k, x in v.items()]
    if isinstance(v, types.GeneratorType):
        out = []
        try:
            for x in v:
                out.append(ser(x, d + 1))
        except BaseException as e:
            out.append("!" + type(e).__name__)
        return ["generator"] + out
    return "<%s>" % type(v).__name__


def outcome(fn, args_src, env, own_name=None):
    try:
        a, k = eval("(lambda *a, **k: (a, k))(%s)" % args_src, dict(env))
        return ["ok", ser(fn(*a, **k))]
    except BaseException as e:
        out = ["exc", type(e).__name__, [ser(x) for x in e.args]]
        if own_name is not None:
            # where the traceback says the exception came from: the text of the innermost line in the module file (the twins differ in their name only)
            import linecache
            tb, where = e.__traceback__, None
            while tb is not None:
                if os.path.basename(tb.tb_frame.f_code.co_filename).startswith("c19mod_"):
                    where = linecache.getline(tb.tb_frame.f_code.co_filename, tb.tb_lineno).strip().replace(own_name + "__plain", own_name)
                tb = tb.tb_next
            out.append(where)
        return out


_IN_PLACE = {}


def node_in_place(node, src):
    if node is None:
        return False
    key = (id(node), id(src))
    if key not in _IN_PLACE:
        _IN_PLACE[key] = (_node_in_place(node, src), node)        # the node is kept alive: ids are not reused
    return _IN_PLACE[key][0]


def _node_in_place(node, src):
    """the node carries the position it has in the file: the text there parses to a node of the same type"""
    if not hasattr(node, "lineno"):
        return True
    seg = ast.get_source_segment(src, node)
    if seg is None:
        return False
    try:
        if isinstance(node, ast.stmt):
            got = ast.parse("if 1:\n" + " " * node.col_offset + seg).body[0].body[0] if node.col_offset else ast.parse(seg).body[0]
        elif isinstance(node, ast.expr):
            got = ast.parse("(" + seg + ")", mode="eval").body
        else:
            return True
    except SyntaxError:
        return False
    return type(got) is type(node)


def reset(mod):
    """the generated bodies mutate module globals: every run starts from the same state"""
    mod.bx = mod.Box(5)
    mod._rec.clear()
    mod.a, mod.b, mod.c, mod.d = 1, 2, 3, 4


def snapshot(tracers):
    import builtins
    return {"stack": len(_TRACER_STACK), "enabled": [bool(t._is_tracing_enabled) for t in tracers],
            "emit": hasattr(builtins, "_X5ix_PYCCOLO_EVT_EMIT")}


def run_case(c, ci, root):
    log = []
    active = {"on": False}
    tracers = []
    res = {"funcs": {}}
    modname = "c19mod_%d" % ci
    try:
        for ti, ts in enumerate(c["tracers"]):
            evs = tuple(pyc.TraceEvent(e) for e in ts["events"])

            def handler(self, ret, node, frame, evt, *a, ti=ti, **kw):
                desc = None if node is None else [type(node).__name__, getattr(node, "lineno", None), getattr(node, "col_offset", None)]
                log.append([ti, evt.value, desc, os.path.basename(frame.f_code.co_filename), active["on"],
                            frame.f_code.co_filename.startswith("<") or node_in_place(node, c["module_src"])])
            handler.__name__ = "h"
            attrs = {"h": pyc.register_handler(evs)(handler), "global_guards_enabled": ts.get("guards", True),
                     "should_instrument_file": lambda self, fn, root=root: fn.startswith(root) or fn.startswith("<sandbox")}
            if ts.get("sys"):
                attrs["hs"] = pyc.register_raw_handler(pyc.TraceEvent(ts["sys"]))(lambda self, *a, **k: None)
            tracers.append(type("DT%d_%d" % (ci, ti), (pyc.BaseTracer,), attrs).instance())
        support = types.ModuleType("c19_support")
        support.DECO = pyc.instrumented(tracers) if c["style"] == "pyc" else tracers[0]
        import functools

        def OTHER(f):
            @functools.wraps(f)
            def w(*a, **k):
                return f(*a, **k)
            return w
        support.OTHER = OTHER
        sys.modules["c19_support"] = support
        path = os.path.join(root, modname + ".py")
        with open(path, "w") as f:
            f.write(c["module_src"])
        try:
            mod = importlib.import_module(modname)
        except BaseException as e:
            import traceback
            res["import_error"] = "%s: %s" % (type(e).__name__, str(e)[:200]) + traceback.format_exc()[-800:]
            return res
        res["after_import"] = snapshot(tracers)
        res["events_at_import"] = len(log)
        used = tracers if c["style"] == "pyc" else tracers[:1]
        order = [(fn, i) for fn in c["funcs"] for i in range(len(fn["calls"]))]
        if c.get("interleave"):
            order.sort(key=lambda x: x[1])
        for fn, i in order:
            name = fn["name"]
            args = fn["calls"][i]
            dec, plain = getattr(mod, name), getattr(mod, name + "__plain")
            r = res["funcs"].setdefault(name, {"name": dec.__name__, "doc": dec.__doc__, "plain_doc": plain.__doc__, "calls": []})
            before = snapshot(tracers)
            n0 = len(log)
            reset(mod)
            active["on"] = True
            got = outcome(dec, args, vars(mod), name)
            active["on"] = False
            after = snapshot(tracers)
            rec_dec = list(mod._rec)
            reset(mod)
            want = outcome(plain, args, vars(mod), name)
            if rec_dec != list(mod._rec):
                want = want + ["side effects differ"]
            reset(mod)
            # reference: the same function text instrumented on its own through exec, called inside an explicit context
            ref_log = []
            src = inspect.getsource(plain).replace("%s__plain" % name, name)
            if src[:1] == " ":
                src = "if 1:\n" + src             # not dedent: that would change multi-line string literals
            n1 = len(log)
            try:
                from contextlib import ExitStack
                with ExitStack() as st:
                    for t in used:
                        st.enter_context(t.tracing_enabled())
                    env = dict(vars(mod))
                    genv = env
                    env = dict(genv, **used[-1].exec(src, genv, {}))
                    genv[name] = env[name]            # recursion must reach the reference function, not the module's decorated one
                    m1 = len(log)
                    ref_outcome = outcome(env[name], args, env)
                ref_log = [[e[0], e[1], None if e[2] is None else e[2][0]] for e in log[m1:]]
            except BaseException as e:
                ref_log = ["reference failed: %s: %s" % (type(e).__name__, e)]
            del log[n1:]
            evs = [[e[0], e[1], None if e[2] is None else e[2][0]] for e in log[n0:n1]]
            r["calls"].append({"args": args, "reference_outcome": locals().get("ref_outcome"), "decorated": got, "plain": want, "before": before, "after": after, "events": evs, "reference": ref_log,
                               "invalid_nodes": sum(1 for e in log[n0:n1] if e[2] is None),
                               "misplaced_nodes": sum(1 for e in log[n0:n1] if e[2] is not None and not e[5])})
        res["outside_events"] = sum(1 for e in log if not e[4]) - res["events_at_import"]
    finally:
        for t in tracers:
            type(t).clear_instance()
        sys.modules.pop(modname, None)
        sys.modules.pop("c19_support", None)
    return res


def main():
    cases = json.load(sys.stdin)
    root = tempfile.mkdtemp(prefix="pycc19-", dir="/var/tmp")
    sys.path.insert(0, root)
    sys.dont_write_bytecode = True
    out = []
    try:
        for i, c in enumerate(cases):
            _IN_PLACE.clear()
            try:
                out.append(run_case(c, i, root))
            except BaseException as e:
                import traceback
                out.append({"crash": "%s: %s" % (type(e).__name__, e), "tb": traceback.format_exc()[-1500:]})
    finally:
        shutil.rmtree(root, ignore_errors=True)
    print("@@" + json.dumps(out))


if __name__ == "__main__":
    main()
