# K-loop: programs of the FragLoop fragment (FragSem + while loops) under the REAL rewriter and runtime with a recording tracer whose
# handler activates / deactivates loop guards by rule: the stream (event, node index, value), final bindings, exception type, and the
# exported trees with guard names canonicalised to (kind, loop node index).
#   stdin: list of {"src", "events", "guards": bool, "rules": [[k, on, kind, n], ...]}   (k = number of events delivered so far)
import ast
import json
import sys

import pyccolo as pyc
import astexport
import rw_common as rw
from c01_sem import ser

PFX = "_X5ix_PYCCOLO_"
GBASE = 5000000


def guard_of(test):
    """the guard name tested by `TRACING and GUARD_x [and ...]`"""
    if isinstance(test, ast.BoolOp) and isinstance(test.op, ast.And) and len(test.values) >= 2:
        a, b = test.values[0], test.values[1]
        if isinstance(a, ast.Name) and a.id == PFX + "TRACING_ENABLED" and isinstance(b, ast.Name) and b.id.startswith(PFX + "GUARD_"):
            return b.id
    return None


def scan_guards(out, idmap):
    """guard name -> (kind, traversal index of the pristine while node)"""
    gm = {}
    for w in ast.walk(out):
        if isinstance(w, ast.While) and isinstance(w.test, ast.IfExp):
            g = guard_of(w.test.test)
            if g is None:
                continue
            n = idmap.get(int(g[len(PFX + "GUARD_"):]))
            if n is None:
                continue
            gm[g] = ("test", n)
            if w.body and isinstance(w.body[0], ast.If):
                gb = guard_of(w.body[0].test)
                if gb is not None:
                    gm[gb] = ("body", n)
    return gm


class GInterner(astexport.Interner):
    def __init__(self, gm):
        super().__init__()
        self.gm = gm

    def ident(self, s):
        if s in self.gm:
            kind, n = self.gm[s]
            return GBASE + 2 * n + (1 if kind == "body" else 0)
        return super().ident(s)


def run_case(c, ci):
    fname = "%s-lsem-%d>" % (rw.FNAME_PREFIX, ci)
    log = []
    idmap = {}
    names = {}
    rules = sorted(c.get("rules", []), key=lambda x: x[0])

    def recorder(self, evt, ret, node, guard, kw):
        log.append([evt.value, idmap.get(id(node), -1), ser(ret)])
        for k, on, kind, n in rules:
            if k == len(log):
                nm = names.get((kind, n))
                if nm is not None:
                    (self.deactivate_guard if on else self.activate_guard)(nm)
        return None

    res = {}
    t = rw.make_tracer("LSEM%d" % ci, c["events"], guards=c.get("guards", True), recorder=recorder)
    try:
        with t.tracing_enabled():
            out, pristine = rw.rewrite(c["src"], [t], fname)
            order = astexport.traversal(pristine)
            by_id = {}
            for i, n in enumerate(order):
                if not isinstance(n, (ast.expr_context, ast.operator, ast.boolop, ast.unaryop, ast.cmpop)):
                    idmap[id(n)] = i
                    by_id[id(n)] = i
            gm = scan_guards(out, by_id)
            for g, key in gm.items():
                names[key] = g
            I = GInterner(gm)
            res["src_tree"], res["out_tree"], _, _ = rw.export_pair(out, pristine, I)
            res["names"] = {k: v for k, v in I.tab.items() if k in ("a", "b", "c", "d", "i", "j", "zz")}
            res["guards_found"] = sorted([k[0], k[1]] for k in names)
            code = compile(out, fname, "exec")
            env = {}
            exc = None
            try:
                exec(code, env)
            except BaseException as e:
                exc = type(e).__name__
            res["exc"] = exc
            res["bindings"] = {k: ser(env[k]) for k in ("a", "b", "c", "d", "i", "j") if k in env}
            res["log"] = log
        env2 = {}
        exc2 = None
        try:
            exec(compile(c["src"], fname, "exec"), env2)
        except BaseException as e:
            exc2 = type(e).__name__
        res["plain_exc"] = exc2
        res["plain_bindings"] = {k: ser(env2[k]) for k in ("a", "b", "c", "d", "i", "j") if k in env2}
    finally:
        type(t).clear_instance()
        pyc.BaseTracer.guards.clear()
    return res


def main():
    cases = json.load(sys.stdin)
    out = []
    for i, c in enumerate(cases):
        try:
            out.append(run_case(c, i))
        except BaseException as e:
            import traceback
            out.append({"crash": "%s: %s" % (type(e).__name__, e), "tb": traceback.format_exc()[-1000:]})
    print("@@" + json.dumps(out))


if __name__ == "__main__":
    main()
