# K-sys: handler log of a system-trace tracer vs a plain sys.settrace recorder on the same program; third-party
# trace functions installed before / mid-run, with and without pyccolo.
import json
import sys

import pyccolo as pyc

FNAME = "<sandbox-p>"

# a function of a file the tracers do NOT accept (a real module file outside the sandbox names): third-party functions follow its frames too
import os
import tempfile
_EXT_DIR = tempfile.mkdtemp(prefix="pycc09-", dir="/var/tmp")
EXT_FILE = os.path.join(_EXT_DIR, "c09_ext.py")
with open(EXT_FILE, "w") as _f:
    _f.write("def ext(cb):\n    a = 1\n    cb()\n    b = a + 1\n    return b\n")
_ns = {}
exec(compile(open(EXT_FILE).read(), EXT_FILE, "exec"), _ns)
ext = _ns["ext"]
TRACED_FILES = (FNAME, EXT_FILE)


def make_third_party(kind, log, tag=""):
    """kind: 'self' (returns itself), 'local' (returns a distinct local function), 'selective' (declines frames named g*),
    'switch' (its local function hands over to a second local function at its first event, as debuggers do)"""
    def local2(frame, evt, arg):
        if frame.f_code.co_filename in TRACED_FILES:
            log.append([tag + "M", evt, frame.f_code.co_name, frame.f_lineno])
        return local2

    def local(frame, evt, arg):
        if frame.f_code.co_filename in TRACED_FILES:
            log.append([tag + "L", evt, frame.f_code.co_name, frame.f_lineno])
        return local2 if kind == "switch" else local

    def glob(frame, evt, arg):
        if frame.f_code.co_filename not in TRACED_FILES:
            return None
        log.append([tag + "G", evt, frame.f_code.co_name, frame.f_lineno])
        if kind == "self":
            return glob
        if kind in ("local", "switch"):
            return local
        if kind == "selective":
            return None if frame.f_code.co_name.startswith("g") else local
        return None
    return glob


def run_program(src, env_extra):
    env = dict(env_extra)
    out = {}
    try:
        exec(compile(src, FNAME, "exec"), env)
        out["result"] = {k: v for k, v in env.items() if isinstance(v, (int, str, list, tuple)) and not k.startswith("__")}
    except BaseException as e:
        tb = e.__traceback__
        chain = []
        while tb is not None:
            if tb.tb_frame.f_code.co_filename == FNAME:
                chain.append([tb.tb_frame.f_code.co_name, tb.tb_lineno])
            tb = tb.tb_next
        out["exc"] = [type(e).__name__, str(e), chain]
    return out


def hist_env(case, log):
    third = {"A": make_third_party(case["third_party"], log, "A"), "B": make_third_party("self", log, "B")}
    tags = {id(v): k for k, v in third.items()}

    def tp_step(what):
        if what.startswith("ext:"):
            # the same action, taken while a frame of the non-accepted file is running
            w = what[4:]
            ext(lambda: sys.settrace(None if w == "off" else third[w]))
        else:
            sys.settrace(None if what == "off" else third[what])
    return third, tp_step, (lambda f: None if f is None else tags.get(id(f), "other"))


def plain_run(case):
    """no pyccolo: (a) a recorder for all four event kinds, (b) the third-party tracer alone"""
    rec = []

    def recorder(frame, evt, arg):
        if frame.f_code.co_filename != FNAME:
            return None
        rec.append([evt, frame.f_code.co_name, frame.f_lineno])
        return recorder
    mid = bool(case["third_party"]) and case["install"] in ("mid", "hist")
    sys.settrace(recorder)
    try:
        out = run_program(case["src_mid"] if mid else case["src"], {"install": (lambda: None), "tp_step": (lambda w: None)} if mid else {})
    finally:
        sys.settrace(None)
    tp_log = []
    tp_after = None
    if case["third_party"] and case["install"] == "hist":
        third, tp_step, tag_of = hist_env(case, tp_log)
        if case["pre"]:
            sys.settrace(third[case["pre"]])
        try:
            run_program(case["src_mid"], {"tp_step": tp_step})
            tp_after = tag_of(sys.gettrace())
        finally:
            sys.settrace(None)
    elif case["third_party"]:
        tp = make_third_party(case["third_party"], tp_log)
        env = {}
        if case["install"] == "pre":
            sys.settrace(tp)
        else:
            env["install"] = lambda: sys.settrace(tp)
        try:
            run_program(case["src_mid"] if case["install"] == "mid" else case["src"], env)
            tp_after = sys.gettrace() is tp
        finally:
            sys.settrace(None)
    return {"rec": rec, "out": out, "tp_log": tp_log, "tp_in_place_after": tp_after}


def traced_run(case, ci):
    hlog = []
    attrs = {}
    for evt in case["events"]:
        def make(evt=evt):
            def h(self, ret, node, frame, event, guard, **kw):
                if frame.f_code.co_filename == FNAME:
                    hlog.append([evt, frame.f_code.co_name, frame.f_lineno])
            h.__name__ = "h_" + evt
            return pyc.register_handler(pyc.TraceEvent(evt))(h)
        attrs["h_" + evt] = make()
    cls = type("S%d" % ci, (pyc.BaseTracer,), attrs)
    t = cls.instance()
    tp_log = []
    hist = bool(case["third_party"]) and case["install"] == "hist"
    tp = make_third_party(case["third_party"], tp_log) if case["third_party"] and not hist else None
    env = {}
    if hist:
        third, tp_step, tag_of = hist_env(case, tp_log)
        env["tp_step"] = tp_step
        if case["pre"]:
            sys.settrace(third[case["pre"]])
    if tp is not None and case["install"] == "pre":
        sys.settrace(tp)
    if tp is not None and case["install"] == "mid":
        env["install"] = lambda: sys.settrace(tp)
    try:
        with t.tracing_enabled():
            out = run_program(case["src_mid"] if hist or (tp is not None and case["install"] == "mid") else case["src"], env)
        after = sys.gettrace()
        tp_after = tag_of(after) if hist else ((after is tp) if tp is not None else (after is None))
    finally:
        sys.settrace(None)
        cls.clear_instance()
    return {"hlog": hlog, "out": out, "tp_log": tp_log, "tp_in_place_after": tp_after}


def main():
    import atexit
    import shutil
    atexit.register(lambda: shutil.rmtree(_EXT_DIR, ignore_errors=True))
    cases = json.load(sys.stdin)
    res = []
    for i, c in enumerate(cases):
        try:
            res.append({"plain": plain_run(c), "traced": traced_run(c, i)})
        except BaseException as e:
            import traceback
            sys.settrace(None)
            res.append({"crash": "%s: %s" % (type(e).__name__, e), "tb": traceback.format_exc()[-1000:]})
    print("@@" + json.dumps(res, default=str))


main()
