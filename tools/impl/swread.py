# read the two re-entrancy switches of pyccolo.emit_event as the calling thread sees them (module globals or thread-local)
import pyccolo.emit_event as ee


def read_switches():
    if hasattr(ee, "_allow_event_handling"):
        return [ee._allow_event_handling, ee._allow_reentrant_event_handling]
    for v in vars(ee).values():
        if hasattr(v, "allow_event_handling") and hasattr(v, "allow_reentrant_event_handling") and not isinstance(v, type):
            return [v.allow_event_handling, v.allow_reentrant_event_handling]
    raise RuntimeError("cannot find the re-entrancy switches in pyccolo.emit_event")


def reset_switches():
    if hasattr(ee, "_allow_event_handling"):
        ee._allow_event_handling, ee._allow_reentrant_event_handling = True, False
        return
    for v in vars(ee).values():
        if hasattr(v, "allow_event_handling") and hasattr(v, "allow_reentrant_event_handling") and not isinstance(v, type):
            v.allow_event_handling, v.allow_reentrant_event_handling = True, False
