# Runs TraceStack operation sequences on the real class; prints per-op outcome + attribute snapshot.
import json
import sys

import pyccolo as pyc
from pyccolo.trace_stack import TraceStack

KINDS = {0: list, 1: dict, 2: set, 3: tuple}


def pyval(v):
    t = v[0]
    if t == "none":
        return None
    if t == "int":
        return v[1]
    if t == "bool":
        return bool(v[1])
    if t == "str":
        return "s%d" % v[1]
    if t == "float":
        return float(v[1]) + 0.5
    if t == "cont":
        k = KINDS[v[1]]
        return k({z: z for z in v[2]}) if k is dict else k(v[2])
    if t == "nest":
        return [list(l) for l in v[2]] if v[1] == 0 else {"k%d" % i: list(l) for i, l in enumerate(v[2])}
    raise ValueError(v)


def ser(x):
    if x is None:
        return ["none"]
    if isinstance(x, bool):
        return ["bool", x]
    if isinstance(x, int):
        return ["int", x]
    if isinstance(x, str):
        return ["str", int(x[1:])]
    if isinstance(x, float):
        return ["float", int(x - 0.5)]
    if isinstance(x, TraceStack):
        names = list(x._stack_item_names())
        return ["stack", [{n: ser(v) for n, v in zip(names, fr)} for fr in x._stack]]
    if type(x) is list and x and all(type(e) is list for e in x):
        return ["nest", 0, [list(e) for e in x]]
    if type(x) is dict and x and all(type(e) is list for e in x.values()):
        return ["nest", 1, [list(e) for e in x.values()]]
    for k, ty in KINDS.items():
        if type(x) is ty:
            return ["cont", k, sorted(x) if ty is set else list(x)]
    return ["other", repr(type(x))]


def gen_body(items, owner, ind, out):
    i = 0
    if not items:
        out.append(" " * ind + "pass")
    while i < len(items):
        it = items[i]
        if it[0] == "field":
            man = it[3]
            if man is not None:
                out.append(" " * ind + "with self.%s.needing_manual_initialization():" % owner)
                while i < len(items) and items[i][0] == "field" and items[i][3] == man:
                    out.append(" " * (ind + 4) + "self.%s = pyval(%r)" % (items[i][1], items[i][2]))
                    i += 1
                continue
            out.append(" " * ind + "self.%s = pyval(%r)" % (it[1], it[2]))
        else:
            out.append(" " * ind + "self.%s = self.make_stack()" % it[1])
            out.append(" " * ind + "with self.%s.register_stack_state():" % it[1])
            gen_body(it[2], it[1], ind + 4, out)
        i += 1


def all_names(items):
    for it in items:
        yield it[1]
        if it[0] == "stack":
            yield from all_names(it[2])


def run_case(case, idx):
    lines = ["class T%d(pyc.BaseTracer):" % idx, "    def __init__(self, *a, **k):", "        super().__init__(*a, **k)"]
    for top in case["decl"]:
        lines.append("        self.%s = self.make_stack()" % top[1])
        lines.append("        with self.%s.register_stack_state():" % top[1])
        gen_body(top[2], top[1], 12, lines)
    env = {"pyc": pyc, "pyval": pyval}
    exec("\n".join(lines), env)
    t = env["T%d" % idx].instance()
    names = list(all_names(case["decl"]))

    def snap():
        return {n: ser(t.__dict__[n]) for n in names if n in t.__dict__}

    reg = {}
    for n in names:
        x = t.__dict__.get(n)
        if isinstance(x, TraceStack):
            reg[n] = {"auto": sorted(x._stack_item_initializers), "manual": sorted(x._stack_items_with_manual_initialization)}
    res = {"init": snap(), "reg": reg, "steps": []}
    pending = {}
    for o in case["ops"]:
        k = o[0]
        try:
            if k == "push":
                cm = getattr(t, o[1]).push()
                cm.__enter__()
                pending.setdefault(o[1], []).append(cm)
                r = ["done"]
            elif k == "check":
                cm = pending[o[1]].pop()
                cm.__exit__(None, None, None)
                r = ["done"]
            elif k == "set":
                setattr(t, o[1], pyval(o[2]))
                r = ["done"]
            elif k == "append":
                c = getattr(t, o[1])
                if ser(c)[0] == "nest":
                    raise AttributeError("append")        # the operation is defined for flat containers (appendin is the one for nested ones)
                if isinstance(c, list):
                    c.append(o[2])
                elif isinstance(c, dict):
                    c[o[2]] = o[2]
                elif isinstance(c, set):
                    c.add(o[2])
                else:
                    raise AttributeError("append")
                r = ["done"]
            elif k == "appendin":
                c = getattr(t, o[1])
                if not (type(c) in (list, dict) and c and all(type(e) is list for e in (c if type(c) is list else c.values()))):
                    raise AttributeError("appendin")
                (c[o[2]] if type(c) is list else list(c.values())[o[2]]).append(o[3])
                r = ["done"]
            elif k == "read":
                r = ["val", ser(getattr(t, o[1]).get_field(o[2], height=o[3]))]
            elif k == "len":
                r = ["len", len(getattr(t, o[1]))]
            elif k == "pop":
                getattr(t, o[1]).pop()
                r = ["done"]
            elif k == "clear":
                getattr(t, o[1]).clear()
                r = ["done"]
            else:
                raise RuntimeError(k)
        except KeyError:
            r = ["ErrKey"]
        except IndexError:
            r = ["ErrIndex"]
        except ValueError:
            r = ["ErrValue"]
        except (AttributeError, TypeError):
            r = ["ErrAttr"]
        res["steps"].append([r, snap()])
    return res


def main():
    cases = json.load(sys.stdin)
    out = []
    for i, c in enumerate(cases):
        try:
            out.append(run_case(c, i))
        except Exception as e:
            out.append({"crash": "%s: %s" % (type(e).__name__, e)})
    print("@@" + json.dumps(out))


main()
