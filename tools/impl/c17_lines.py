# K-lines for C17: line-level scheduler.  Every thread is parked before EVERY line of every function of emit_event.py
# (no assumption about which statements exist there), a controller releases one thread for one line at a time.  Handlers may
# run nested instrumented code (so emissions nest inside worker and main threads).  The oracle is the property itself:
# per thread, the deliveries of the concurrent run equal the deliveries of the same thread running alone.
#   stdin: list of cases {"tracers": [{"multi","allow_re","h_re","nest"}], "threads": [n0, n1, ...], "sched": [tid, ...]}
import json
import sys
import threading
from contextlib import ExitStack

import pyccolo as pyc
import pyccolo.emit_event as ee
from swread import read_switches, reset_switches

TIMEOUT = 20.0
TLS = threading.local()


def run_once(case, ci, tag, only=None):
    """only=None: all threads under the schedule; only=t: thread t alone, unscheduled"""
    reset_switches()
    nthreads = len(case["threads"])
    log, errors = [], []
    arrived = [threading.Event() for _ in range(nthreads)]
    go = [threading.Event() for _ in range(nthreads)]
    finished = [threading.Event() for _ in range(nthreads)]
    free = [only is not None] * nthreads
    nested_code = []
    tracers = []
    for ti, td in enumerate(case["tracers"]):
        def make(ti=ti, td=td):
            def handler(self, ret, node, frame, evt, guard, **kw):
                d = getattr(TLS, "depth", 0)
                log.append([TLS.tid, ti, d])
                if td.get("nest") and d < 2:
                    TLS.depth = d + 1
                    try:
                        if td.get("region"):
                            with pyc.allow_reentrant_event_handling():
                                exec(nested_code[0], {})
                        else:
                            exec(nested_code[0], {})
                    finally:
                        TLS.depth = d
            handler.__name__ = "h_%d" % ti
            return pyc.register_handler(pyc.after_assign_rhs, reentrant=bool(td.get("h_re")))(handler)
        cls = type("Ln%s%d_%d" % (tag, ci, ti), (pyc.BaseTracer,), {"h": make(), "multiple_threads_allowed": td["multi"], "allow_reentrant_events": td["allow_re"]})
        tracers.append(cls.instance())

    def tracefn(tid):
        def local(frame, evt, arg):
            if evt == "line" and not free[tid]:
                arrived[tid].set()
                if not go[tid].wait(TIMEOUT):
                    errors.append("thread %d timed out waiting" % tid)
                    free[tid] = True
                go[tid].clear()
            return local

        def glob(frame, evt, arg):
            return local if frame.f_code.co_filename == ee.__file__ else None
        return glob

    with ExitStack() as st:
        for t in tracers:
            st.enter_context(t.tracing_enabled())
        nested_code.append(compile(pyc.parse("z = 0"), "<sandbox-nested>", "exec"))
        codes = [compile(pyc.parse("\n".join("x%d = 0" % k for k in range(n)) or "pass"), "<sandbox-l%d>" % tid, "exec") for tid, n in enumerate(case["threads"])]

        def body(tid):
            TLS.tid, TLS.depth = tid, 0
            if only is None:
                sys.settrace(tracefn(tid))
            try:
                if only is None or only == tid:
                    exec(codes[tid], {})
            except BaseException as e:
                errors.append("thread %d: %s: %s" % (tid, type(e).__name__, e))
            finally:
                sys.settrace(None)
                finished[tid].set()
                arrived[tid].set()

        def controller():
            for tid in range(nthreads):
                arrived[tid].wait(TIMEOUT)
            for tid in case["sched"]:
                if tid >= nthreads or finished[tid].is_set():
                    continue
                arrived[tid].clear()
                go[tid].set()
                if not arrived[tid].wait(TIMEOUT):
                    errors.append("controller timed out on thread %d" % tid)
                    break
            # whatever is left runs freely, workers first
            for tid in list(range(1, nthreads)) + [0]:
                free[tid] = True
                go[tid].set()
                finished[tid].wait(TIMEOUT)

        workers = [threading.Thread(target=body, args=(tid,)) for tid in range(1, nthreads)]
        ctl = threading.Thread(target=controller) if only is None else None
        for w in workers:
            w.start()
        if ctl:
            ctl.start()
        body(0)
        if ctl:
            ctl.join(120)
        for w in workers:
            w.join(TIMEOUT)
        sw_main = read_switches()
        n0 = len(log)
        TLS.tid, TLS.depth = 0, 0
        exec(compile(pyc.parse("y = 0"), "<sandbox-after>", "exec"), {})
        after = log[n0:]
        del log[n0:]
    for t in tracers:
        type(t).clear_instance()
    reset_switches()
    return {"log": log, "switches_main": sw_main, "after": after, "errors": errors}


def run_case(case, ci):
    res = {"run": run_once(case, ci, "r"), "alone": {}}
    for t in range(len(case["threads"])):
        res["alone"][str(t)] = run_once(case, ci, "a%d_" % t, only=t)
    return res


def main():
    cases = json.load(sys.stdin)
    out = []
    for i, c in enumerate(cases):
        try:
            out.append(run_case(c, i))
        except BaseException as e:
            import traceback
            out.append({"crash": "%s: %s" % (type(e).__name__, e), "tb": traceback.format_exc()[-800:]})
    print("@@" + json.dumps(out))


if __name__ == "__main__":
    main()
