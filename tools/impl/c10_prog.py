# K-prog: programs of the FragProg fragment (FragSem + while loops + module-level functions, return, calls as right-hand sides) under the
# REAL rewriter and runtime with a recording tracer whose handler activates / deactivates loop-test, loop-body and function guards by
# rule: the stream (event, node index, value), final bindings, exception type, and the exported trees with guard names canonicalised
# to (kind, node index).
#   stdin: list of {"src", "events", "guards": bool, "rules": [[k, on, kind, n], ...]}   (kind: test | body | fun | fbody)
import ast
import json
import sys

import pyccolo as pyc
import astexport
import rw_common as rw
from c01_sem import ser
from c10_sem import scan_guards as scan_loop_guards, PFX, GBASE
from c01_fun import scan_guards as scan_fun_guards

NAMES = ("a", "b", "c", "d", "r", "i", "j", "f", "g", "h", "p", "q", "zz")


class PInterner(astexport.Interner):
    def __init__(self, gm):
        super().__init__()
        self.gm = gm

    def ident(self, s):
        if s in self.gm:
            kind, n = self.gm[s]
            return GBASE + 2 * n + (0 if kind == "test" else 1)
        return super().ident(s)


def run_case(c, ci):
    fname = "%s-psem-%d>" % (rw.FNAME_PREFIX, ci)
    log = []
    idmap = {}
    names = {}
    rules = sorted(c.get("rules", []), key=lambda x: x[0])

    def recorder(self, evt, ret, node, guard, kw):
        log.append([evt.value, idmap.get(id(node), -1), ser(ret)])
        for k, on, kind, n in rules:
            if k == len(log):
                nm = names.get((kind, n))
                if nm is not None:
                    (self.deactivate_guard if on else self.activate_guard)(nm)
        return None

    res = {}
    t = rw.make_tracer("PSEM%d" % ci, c["events"], guards=c.get("guards", True), recorder=recorder)
    try:
        with t.tracing_enabled():
            out, pristine = rw.rewrite(c["src"], [t], fname)
            order = astexport.traversal(pristine)
            by_id = {}
            for i, n in enumerate(order):
                if not isinstance(n, (ast.expr_context, ast.operator, ast.boolop, ast.unaryop, ast.cmpop)):
                    idmap[id(n)] = i
                    by_id[id(n)] = i
            gm = dict(scan_loop_guards(out, by_id))
            for w in ast.walk(out):
                if isinstance(w, ast.For) and w.body and isinstance(w.body[0], ast.If):
                    from c10_sem import guard_of
                    g = guard_of(w.body[0].test)
                    if g is not None:
                        n = by_id.get(int(g[len(PFX + "GUARD_"):].split("_")[0]))
                        if n is not None:
                            gm[g] = ("fbody", n)
            for g, n in scan_fun_guards(out, by_id).items():
                gm[g] = ("fun", n)
            for g, key in gm.items():
                names[key] = g
            I = PInterner(gm)
            res["src_tree"], res["out_tree"], _, _ = rw.export_pair(out, pristine, I)
            res["names"] = {k: v for k, v in I.tab.items() if k in NAMES}
            res["guards_found"] = sorted([k[0], k[1]] for k in names)
            code = compile(out, fname, "exec")
            env = {}
            exc = None
            try:
                exec(code, env)
            except BaseException as e:
                exc = type(e).__name__
            res["exc"] = exc
            res["bindings"] = {k: ser(env[k]) for k in NAMES if k in env}
            res["log"] = log
        env2 = {}
        exc2 = None
        try:
            exec(compile(c["src"], fname, "exec"), env2)
        except BaseException as e:
            exc2 = type(e).__name__
        res["plain_exc"] = exc2
        res["plain_bindings"] = {k: ser(env2[k]) for k in NAMES if k in env2}
    finally:
        type(t).clear_instance()
        pyc.BaseTracer.guards.clear()
    return res


def main():
    cases = json.load(sys.stdin)
    out = []
    for i, c in enumerate(cases):
        try:
            out.append(run_case(c, i))
        except BaseException as e:
            import traceback
            out.append({"crash": "%s: %s" % (type(e).__name__, e), "tb": traceback.format_exc()[-1000:]})
    print("@@" + json.dumps(out))


if __name__ == "__main__":
    main()
