# K-sbx: tracer.exec / eval on generated straight-line programs vs the function-body reference
import json
import sys

import pyccolo as pyc


class Obs(pyc.BaseTracer):
    @pyc.register_handler((pyc.after_assign_rhs, pyc.load_name, pyc.before_stmt, pyc.after_stmt))
    def h(self, ret, *_, **__):
        return None


def ser(d):
    out = {}
    for k, v in d.items():
        if k == "__builtins__":
            continue
        out[k] = v if isinstance(v, int) and not isinstance(v, bool) else "<%s>" % type(v).__name__
    return out


def reference(text, L, G):
    """the property's reference: the same text as the body of a function whose parameters are the supplied names"""
    import keyword
    first = text.splitlines()[0] if text else ""
    declared = [n.strip() for n in first[len("global "):].split(",")] if first.startswith("global ") else []
    # supplied names the program declares global, or that cannot be parameter names, are no locals of the function: they come back unchanged
    args = [k for k in L if k.isidentifier() and not keyword.iskeyword(k) and k != "__debug__" and k not in declared]
    src = "def __ref__(%s):\n%s\n    return locals()" % (", ".join(args), "\n".join("    " + l for l in text.splitlines()) or "    pass")
    ns = {}
    G2 = dict(G)
    exec(src, G2, ns)
    try:
        res = ns["__ref__"](**{k: L[k] for k in args})
        for k in L:
            if k not in args:
                res.setdefault(k, L[k])
        return {"result": ser(res), "G": ser(G2)}
    except Exception as e:
        return {"exc": type(e).__name__, "G": ser(G2)}


def reference_same(text, M):
    """locals is globals: the text as the body of a function whose globals are the mapping itself"""
    import keyword
    first = text.splitlines()[0] if text else ""
    declared = [n.strip() for n in first[len("global "):].split(",")] if first.startswith("global ") else []
    args = [k for k in M if k.isidentifier() and not keyword.iskeyword(k) and k != "__debug__" and k not in declared]
    src = "def __ref__(%s):\n%s\n    return locals()" % (", ".join(args), "\n".join("    " + l for l in text.splitlines()) or "    pass")
    ns = {}
    G2 = dict(M)
    exec(src, G2, ns)
    try:
        res = ns["__ref__"](**{k: M[k] for k in args})
        for k in M:
            if k not in args and k in G2:
                res.setdefault(k, G2[k])          # handed back with the value the mapping has in the end
        return {"result": ser(res), "G": ser(G2)}
    except Exception as e:
        return {"exc": type(e).__name__, "G": ser(G2)}


def run_case(c):
    t = Obs.instance() if c["tracer"] == "obs" else pyc.NoopTracer.instance()
    L, G = dict(c["L"]), dict(c["G"])
    if c.get("same"):
        G = L
    out = {"ref": reference_same(c["text"], c["L"]) if c.get("same") else reference(c["text"], c["L"], c["G"])}
    try:
        if c["tracer"] == "obs":
            with t.tracing_enabled():
                res = t.exec(c["text"], global_env=G, local_env=L, instrument=c["instrument"])
        else:
            res = t.exec(c["text"], global_env=G, local_env=L, instrument=c["instrument"])
        out["result"] = ser(res)
    except Exception as e:
        out["exc"] = type(e).__name__
    out["L"] = ser(L)
    out["G"] = ser(G)
    if c.get("expr"):
        L2, G2 = dict(c["L"]), dict(c["G"])
        try:
            out["eval_ref"] = repr(eval(c["expr"], dict(c["G"]), dict(c["L"])))
        except Exception as e:
            out["eval_ref"] = "exc:" + type(e).__name__
        try:
            out["eval"] = repr(t.eval(c["expr"], G2, L2, instrument=c["instrument"]))
        except Exception as e:
            out["eval"] = "exc:" + type(e).__name__
        out["eval_L"] = ser(L2)
        out["eval_G"] = ser(G2)
    return out


def main():
    cases = json.load(sys.stdin)
    out = []
    for c in cases:
        try:
            out.append(run_case(c))
        except BaseException as e:
            import traceback
            out.append({"crash": "%s: %s" % (type(e).__name__, e), "tb": traceback.format_exc()[-800:]})
    print("@@" + json.dumps(out))


main()
