# Independent probe-inserting reference instrumenter (C02's specification, DESIGN section 11).
# It knows nothing about guards, thunks, saved slices or statement expansion: it walks the SOURCE tree and wraps each
# anchor named by the event table in a probe call that logs (event, node position, value) at the instant the table says.
import ast

CONST_EVENTS = [(bool, "after_bool"), (int, "after_int"), (float, "after_float"), (complex, "after_complex"), (str, "after_string"),
                (bytes, "after_bytes"), (type(None), "after_none"), (type(Ellipsis), "ellipsis")]


def pos(node):
    return [type(node).__name__, getattr(node, "lineno", None), getattr(node, "col_offset", None),
            getattr(node, "end_lineno", None), getattr(node, "end_col_offset", None)]


def canon(v, d=0):
    import types
    if isinstance(v, int) and not isinstance(v, bool) and v.bit_length() > 128:
        return "int~%d:%d" % (v.bit_length(), v % 1000003)          # repr() of a huge int raises ValueError
    if isinstance(v, (bool, int, str, bytes, type(None), type(Ellipsis))):
        return repr(v)
    if isinstance(v, float):
        return repr(v)
    if isinstance(v, (list, tuple)) and d < 3:
        return "%s[%s]" % (type(v).__name__, ",".join(canon(x, d + 1) for x in v))
    if isinstance(v, dict) and d < 3:
        return "dict[%s]" % ",".join("%s:%s" % (canon(k, d + 1), canon(x, d + 1)) for k, x in v.items())
    if isinstance(v, (set, frozenset)) and d < 3:
        return "set[%s]" % ",".join(sorted(canon(x, d + 1) for x in v))
    if isinstance(v, slice):
        return "slice(%s,%s,%s)" % (canon(v.start), canon(v.stop), canon(v.step))
    if isinstance(v, (types.FunctionType, types.BuiltinFunctionType, types.MethodType)):
        return "<fn %s>" % getattr(v, "__name__", "?")
    if isinstance(v, type):
        return "<class %s>" % v.__name__
    if isinstance(v, BaseException):
        return "<exc %s>" % type(v).__name__
    return "<%s>" % type(v).__name__


P, Q = "_refP_", "_refQ_"
A, B = "_refA_", "_refB_"   # no leading double underscore: class bodies would mangle it
V = "_refV_"
LINKS = (ast.Attribute, ast.Subscript, ast.Call)


def call(fn, *args):
    return ast.Call(func=ast.Name(fn, ast.Load()), args=list(args), keywords=[])


def const(v):
    return ast.Constant(v)


class Ref(ast.NodeTransformer):
    """events: set of event names to probe"""

    def __init__(self, events):
        self.ev = set(events)
        self.poss = []
        self.in_chain = False      # inside the object / callee part of an attribute / subscript / call chain

    def symbol(self, node, inside, expr):
        """before_/after_load_complex_symbol bracket the OUTERMOST link of a chain of attribute loads, subscript loads and calls
        (call arguments and subscript indices start afresh); the before event is deferred"""
        if inside:
            return expr
        return self.after("after_load_complex_symbol", node, self.before("before_load_complex_symbol", node, expr))

    def p(self, node):
        self.poss.append(pos(node))
        return const(len(self.poss) - 1)

    def after(self, evt, node, expr):
        if evt in self.ev:
            return ast.copy_location(call(A, const(evt), self.p(node), expr), expr)
        return expr

    def before(self, evt, node, expr):
        """a deferred before-expression event: it is delivered before ANYTHING of the anchor is evaluated (the handler may replace
        the computation), and carries a thunk, so no value is compared"""
        if evt in self.ev:
            probe = call(B, const(evt), self.p(node))
            return ast.copy_location(ast.Subscript(value=ast.Tuple(elts=[probe, expr], ctx=ast.Load()), slice=const(1), ctx=ast.Load()), expr)
        return expr

    def as_expr(self, s):
        """a subscript index as an ordinary expression: `a:b:c` is `slice(a, b, c)`"""
        if isinstance(s, ast.Slice):
            parts = [const(None) if x is None else x for x in (s.lower, s.upper)] + ([] if s.step is None else [s.step])
            return ast.copy_location(call("slice", *parts), s)
        if isinstance(s, ast.Tuple) and any(isinstance(e, ast.Slice) for e in s.elts):
            return ast.copy_location(ast.Tuple(elts=[self.as_expr(e) for e in s.elts], ctx=ast.Load()), s)
        return s

    def stmt_probe(self, evt, node):
        return ast.Expr(call(B, const(evt), self.p(node)))

    # ---- expressions
    def visit_Name(self, node):
        if isinstance(node.ctx, ast.Load):
            return self.after("load_name", node, node)
        return node

    def visit_Constant(self, node):
        for ty, evt in CONST_EVENTS:
            if type(node.value) is ty:
                return self.after(evt, node, node)
        return node

    def visit_JoinedStr(self, node):
        return self.after("after_fstring", node, self.before("before_fstring", node, node))        # pyccolo does not descend into f-strings

    def visit_BinOp(self, node):
        orig = node
        l = self.after("left_binop_arg", node.left, self.visit(node.left))
        r = self.after("right_binop_arg", node.right, self.visit(node.right))
        new = ast.BinOp(left=l, op=node.op, right=r)
        return self.after("after_binop", orig, self.before("before_binop", orig, ast.copy_location(new, orig)))

    def visit_Compare(self, node):
        l = self.after("left_compare_arg", node.left, self.visit(node.left))
        cs = [self.after("compare_arg", c, self.visit(c)) for c in node.comparators]
        new = ast.copy_location(ast.Compare(left=l, ops=node.ops, comparators=cs), node)
        return self.after("after_compare", node, self.before("before_compare", node, new))

    def visit_Call(self, node):
        inside = self.in_chain
        self.in_chain = isinstance(node.func, LINKS)         # any other expression ends the chain
        f = self.visit(node.func)
        self.in_chain = False                       # arguments start afresh
        f = self.after("before_call", node, f)
        args = []
        for a in node.args:
            if isinstance(a, ast.Starred):
                args.append(ast.Starred(value=self.after("after_argument", a.value, self.before("before_argument", a.value, self.visit(a.value))), ctx=a.ctx))
            else:
                args.append(self.after("after_argument", a, self.before("before_argument", a, self.visit(a))))
        kws = [ast.keyword(arg=k.arg, value=self.after("after_argument", k.value, self.before("before_argument", k.value, self.visit(k.value)))) for k in node.keywords]
        self.in_chain = inside
        new = ast.copy_location(ast.Call(func=f, args=args, keywords=kws), node)
        return self.symbol(node, inside, self.after("after_call", node, new))

    def visit_Attribute(self, node):
        inside = self.in_chain
        self.in_chain = isinstance(node.value, LINKS)
        v = self.visit(node.value)
        self.in_chain = inside
        if isinstance(node.ctx, ast.Load):
            v = self.after("before_attribute_load", node, v)
            new = ast.copy_location(ast.Attribute(value=v, attr=node.attr, ctx=node.ctx), node)
            return self.symbol(node, inside, self.after("after_attribute_load", node, new))
        evt = "before_attribute_store" if isinstance(node.ctx, ast.Store) else "before_attribute_del"
        v = self.after(evt, node, v)
        return ast.copy_location(ast.Attribute(value=v, attr=node.attr, ctx=node.ctx), node)

    def visit_Subscript(self, node):
        # pyccolo's before_subscript_* events carry the evaluated subscript too, so they fire once BOTH the object and the
        # subscript have been evaluated (DESIGN section 11): the object is parked, the probe fires after the slice
        inside = self.in_chain
        self.in_chain = isinstance(node.value, LINKS)
        v = self.visit(node.value)
        self.in_chain = False                       # the index starts afresh
        s = self.visit(node.slice)
        self.in_chain = inside
        if "before_subscript_slice" in self.ev or "after_subscript_slice" in self.ev:
            s = self.after("after_subscript_slice", node, self.before("before_subscript_slice", node, self.as_expr(s)))
        evt = {ast.Load: "before_subscript_load", ast.Store: "before_subscript_store", ast.Del: "before_subscript_del"}[type(node.ctx)]
        if evt in self.ev:
            site = const(len(self.poss))
            v = call(P, site, v)
            s = call(Q, const(evt), self.p(node), site, s)
        new = ast.copy_location(ast.Subscript(value=v, slice=s, ctx=node.ctx), node)
        if isinstance(node.ctx, ast.Load):
            return self.symbol(node, inside, self.after("after_subscript_load", node, new))
        return new

    def _collection(self, node, elt_evt, lit_evt):
        if not isinstance(getattr(node, "ctx", ast.Load()), ast.Load):
            return self.generic_visit(node)
        elts = []
        for e in node.elts:
            if isinstance(e, ast.Starred):
                elts.append(self.visit(e))
            else:
                elts.append(self.after(elt_evt, e, self.visit(e)))
        new = ast.copy_location(type(node)(elts=elts, **({"ctx": node.ctx} if hasattr(node, "ctx") else {})), node)
        return self.after(lit_evt, node, self.before("before" + lit_evt[5:], node, new))

    def visit_List(self, node):
        return self._collection(node, "list_elt", "after_list_literal")

    def visit_Tuple(self, node):
        return self._collection(node, "tuple_elt", "after_tuple_literal")

    def visit_Set(self, node):
        return self._collection(node, "set_elt", "after_set_literal")

    def visit_Dict(self, node):
        ks, vs = [], []
        for k, v in zip(node.keys, node.values):
            ks.append(None if k is None else self.after("dict_key", k, self.visit(k)))
            vs.append(self.after("dict_value", v, self.visit(v)))
        return self.after("after_dict_literal", node, self.before("before_dict_literal", node, ast.copy_location(ast.Dict(keys=ks, values=vs), node)))

    def visit_Lambda(self, node):
        body = self.after("after_lambda_body", node, self.visit(node.body))
        self.generic_visit(node.args)
        return self.after("after_lambda", node, self.before("before_lambda", node, ast.copy_location(ast.Lambda(args=node.args, body=body), node)))

    def _comp(self, node):
        for g in node.generators:
            g.iter = self.visit(g.iter)
            g.ifs = [self.after("after_comprehension_if", i, self.visit(i)) for i in g.ifs]
        for f, evt in (("elt", "after_comprehension_elt"), ("key", "after_dict_comprehension_key"), ("value", "after_dict_comprehension_value")):
            x = getattr(node, f, None)
            if x is not None:
                setattr(node, f, self.after(evt, x, self.visit(x)))
        return node

    visit_ListComp = visit_SetComp = visit_GeneratorExp = visit_DictComp = _comp

    # ---- statements
    def body(self, stmts, module=False, docstring=False):
        out = []
        for i, s in enumerate(stmts):
            if docstring and i == 0 and isinstance(s, ast.Expr) and isinstance(s.value, ast.Constant) and isinstance(s.value.value, str):
                out.append(s)                   # the docstring of a class or module: not an executed statement, no events
                continue
            if isinstance(s, (ast.Global, ast.Nonlocal)) or (isinstance(s, ast.ImportFrom) and s.module == "__future__"):
                out.append(s)
                continue
            orig = s
            if "before_stmt" in self.ev:
                out.append(self.stmt_probe("before_stmt", orig))
            new = self.visit(s)
            want_mod = module and "after_module_stmt" in self.ev
            if want_mod and isinstance(new, ast.Expr):
                # the value of a module-level expression statement is what after_module_stmt carries
                new = ast.copy_location(ast.Assign(targets=[ast.Name(V, ast.Store())], value=new.value), new)
            out.append(new)
            if "after_stmt" in self.ev and not isinstance(orig, ast.Return):
                out.append(self.stmt_probe("after_stmt", orig))
            if want_mod:
                out.append(ast.Expr(call(A, const("after_module_stmt"), self.p(orig), ast.Name(V, ast.Load()) if isinstance(orig, ast.Expr) else const(None))))
        return out

    def visit_Module(self, node):
        orig = node
        body = self.body(node.body, module=True, docstring=True)
        # init_module: once, before the first statement (after the docstring and the __future__ imports, which are not statements
        # that run); exit_module: once, after the last statement, when the module ends normally
        k = 0
        while k < len(body) and ((k == 0 and isinstance(body[k], ast.Expr) and isinstance(body[k].value, ast.Constant) and isinstance(body[k].value.value, str)
                                  and node.body and body[k] is node.body[0])
                                 or (isinstance(body[k], ast.ImportFrom) and body[k].module == "__future__")):
            k += 1
        if "init_module" in self.ev:
            body.insert(k, self.stmt_probe("init_module", orig))
        if "exit_module" in self.ev:
            body.append(self.stmt_probe("exit_module", orig))
        node.body = body
        return node

    def visit_Expr(self, node):
        node.value = self.after("after_expr_stmt", node, self.visit(node.value))
        return node

    def visit_Assign(self, node):
        node.targets = [self.visit(t) for t in node.targets]
        node.value = self.after("after_assign_rhs", node.value, self.before("before_assign_rhs", node.value, self.visit(node.value)))
        return node

    def visit_AnnAssign(self, node):
        node.target = self.visit(node.target)
        if node.value is not None:
            node.value = self.after("after_assign_rhs", node.value, self.before("before_assign_rhs", node.value, self.visit(node.value)))
        return node

    def visit_AugAssign(self, node):
        node.target = self.visit(node.target)
        node.value = self.after("after_augassign_rhs", node.value, self.before("before_augassign_rhs", node.value, self.visit(node.value)))
        return node

    def visit_Return(self, node):
        if node.value is not None:
            node.value = self.after("after_return", node.value, self.before("before_return", node.value, self.visit(node.value)))
        return node

    def visit_If(self, node):
        node.test = self.after("after_if_test", node, self.visit(node.test))
        node.body = self.body(node.body)
        node.orelse = self.body(node.orelse)
        return node

    def _loop_body(self, node, before_evt, after_evt):
        body = self.body(node.body)
        if before_evt in self.ev:
            body = [self.stmt_probe(before_evt, node)] + body
        if after_evt in self.ev:
            body = [ast.Try(body=body, handlers=[], orelse=[], finalbody=[self.stmt_probe(after_evt, node)])]
        return body

    def visit_While(self, node):
        node.test = self.after("after_while_test", node, self.visit(node.test))
        node.body = self._loop_body(node, "before_while_loop_body", "after_while_loop_iter")
        node.orelse = self.body(node.orelse)
        return node

    def visit_For(self, node):
        node.iter = self.after("after_for_iter", node.iter, self.before("before_for_iter", node.iter, self.visit(node.iter)))
        node.target = self.visit(node.target)
        node.body = self._loop_body(node, "before_for_loop_body", "after_for_loop_iter")
        node.orelse = self.body(node.orelse)
        return node

    def visit_AsyncFor(self, node):
        return self.visit_For(node)

    def visit_AsyncFunctionDef(self, node):
        return self.visit_FunctionDef(node)

    def visit_FunctionDef(self, node):
        orig = node
        self.generic_visit(node.args)
        body = node.body
        doc = []
        if body and isinstance(body[0], ast.Expr) and isinstance(body[0].value, ast.Constant) and isinstance(body[0].value.value, str):
            doc, body = [body[0]], body[1:]
        decls = [s for s in body if isinstance(s, (ast.Global, ast.Nonlocal))]
        rest = [s for s in body if not isinstance(s, (ast.Global, ast.Nonlocal))]
        new = self.body(rest) or [ast.Pass()]         # a body of only a docstring / declarations is an invocation all the same
        if "before_function_body" in self.ev:
            new = [self.stmt_probe("before_function_body", orig)] + new
        if "after_function_execution" in self.ev:
            new = [ast.Try(body=new, handlers=[], orelse=[], finalbody=[self.stmt_probe("after_function_execution", orig)])]
        node.body = doc + decls + new
        node.decorator_list = [self.after("decorator", d, self.visit(d)) for d in node.decorator_list]
        return node

    def visit_ClassDef(self, node):
        node.bases = [self.visit(b) for b in node.bases]
        node.keywords = [ast.keyword(arg=k.arg, value=self.visit(k.value)) for k in node.keywords]
        node.body = self.body(node.body, docstring=True)
        node.decorator_list = [self.after("decorator", d, self.visit(d)) for d in node.decorator_list]
        return node

    def visit_Try(self, node):
        node.body = self.body(node.body)
        for h in node.handlers:
            if h.type is not None:
                h.type = self.after("exception_handler_type", h.type, self.visit(h.type))
            elif "exception_handler_type" in self.ev:
                # a bare `except:` is read as `except BaseException:` (pyccolo's documented desugaring): there is no type
                # expression, the event is about the handler itself
                h.type = call(A, const("exception_handler_type"), self.p(h), ast.Name("BaseException", ast.Load()))
            h.body = self.body(h.body)
        node.orelse = self.body(node.orelse)
        node.finalbody = self.body(node.finalbody)
        return node

    def visit_With(self, node):
        for it in node.items:
            it.context_expr = self.visit(it.context_expr)
            if it.optional_vars is not None:
                it.optional_vars = self.visit(it.optional_vars)
        node.body = self.body(node.body)
        return node

    def visit_Match(self, node):
        node.subject = self.visit(node.subject)
        for c in node.cases:
            if c.guard is not None:
                c.guard = self.visit(c.guard)
            c.body = self.body(c.body)
        return node

    def visit_Delete(self, node):
        node.targets = [self.visit(t) for t in node.targets]
        return node


SUPPORTED = {
    "load_name", "after_bool", "after_int", "after_float", "after_complex", "after_string", "after_bytes", "after_none", "ellipsis", "after_fstring",
    "left_binop_arg", "right_binop_arg", "after_binop", "left_compare_arg", "compare_arg", "after_compare", "before_call", "after_call", "after_argument",
    "before_attribute_load", "after_attribute_load", "before_attribute_store", "before_attribute_del", "before_subscript_load", "after_subscript_load",
    "before_subscript_store", "before_subscript_del", "list_elt", "tuple_elt", "set_elt", "after_list_literal", "after_tuple_literal", "after_set_literal",
    "dict_key", "dict_value", "after_dict_literal", "after_lambda", "after_lambda_body", "after_comprehension_if", "after_comprehension_elt",
    "after_dict_comprehension_key", "after_dict_comprehension_value", "before_stmt", "after_stmt", "after_expr_stmt", "after_assign_rhs", "after_augassign_rhs",
    "after_return", "after_if_test", "after_while_test", "after_for_iter", "before_for_loop_body", "after_for_loop_iter", "before_while_loop_body",
    "after_while_loop_iter", "before_function_body", "after_function_execution", "decorator", "exception_handler_type",
    # deferred before-expression events (delivered before anything of the anchor is evaluated; they carry a thunk)
    "before_binop", "before_compare", "before_fstring", "before_list_literal", "before_tuple_literal", "before_set_literal", "before_dict_literal",
    "before_lambda", "before_assign_rhs", "before_augassign_rhs", "before_return", "before_for_iter", "before_argument", "before_load_complex_symbol",
    # the outermost link of an attribute / subscript / call chain in load position
    "after_load_complex_symbol",
    # the index of a subscript (deferred before / value after), module brackets, module-level statements
    "before_subscript_slice", "after_subscript_slice", "init_module", "exit_module", "after_module_stmt",
}


def reference_stream(src, events, env, fname):
    tr = Ref(events)
    tree = tr.visit(ast.parse(src))
    ast.fix_missing_locations(tree)
    log = []

    def refA(evt, p, v):
        log.append([evt, tr.poss[p], canon(v)])
        return v

    def refB(evt, p):
        log.append([evt, tr.poss[p], None])     # value-less events: the value column is not compared
        return True
    parked = {}

    def refP(site, v):
        parked.setdefault(site, []).append(v)
        return v

    def refQ(evt, p, site, s):
        log.append([evt, tr.poss[p], canon(parked[site].pop())])
        return s
    env[A], env[B], env[P], env[Q] = refA, refB, refP, refQ
    exc = None
    try:
        exec(compile(tree, fname, "exec"), env)
    except BaseException as e:
        exc = type(e).__name__
    return log, exc
