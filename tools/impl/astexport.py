# Python AST -> text of a Coq term of type Tree.tree (see coq/model/Tree.v), with canonicalisation:
#   identifiers / strings interned to N (reserved numbers for the names pyccolo introduces, 1000+i for event names,
#   5000+k for guard names renumbered by first occurrence), ints that are id()s of pristine nodes -> SNid <traversal index>.
import ast
import json
import os
import re

_HERE = os.path.dirname(os.path.abspath(__file__))
_TAB = json.load(open(os.path.join(_HERE, "..", "..", "coq", "gen", "pyast.json")))
_EV = json.load(open(os.path.join(_HERE, "..", "..", "coq", "gen", "events.json")))
KCODE = _TAB["kinds"]
LAYOUT = _TAB["layout"]
EVENTS = _EV["events"]
PFX = "_X5ix_PYCCOLO_"
RESERVED = json.load(open(os.path.join(_HERE, "..", "reserved_ids.json")))
EVCODE = {e: 1000 + i for i, e in enumerate(EVENTS)}
GUARD_BASE = 5000


class Interner:
    def __init__(self):
        self.tab = dict(RESERVED)
        self.next = 100
        self.guards = {}

    def ident(self, s):
        m = re.fullmatch(PFX + r"GUARD_(\d+)(_[A-Za-z_]+)?", s)
        if m:
            return GUARD_BASE + self.guards.setdefault(s, len(self.guards))
        if s in EVCODE:
            return EVCODE[s]
        if s not in self.tab:
            self.tab[s] = self.next
            self.next += 1
        return self.tab[s]


def traversal(node, out=None):
    out = [] if out is None else out
    out.append(node)
    for name, field in ast.iter_fields(node):
        if isinstance(field, ast.AST):
            traversal(field, out)
        elif isinstance(field, list):
            for x in field:
                if isinstance(x, ast.AST):
                    traversal(x, out)
    return out


def enc(node, I, idmap=None):
    """idmap: id(pristine node) -> traversal index (only meaningful for rewriter output)"""
    name = type(node).__name__
    sc_names = LAYOUT[name]["scalars"]
    scalars, fields = [], []
    for fname, v in ast.iter_fields(node):
        if fname in sc_names:
            if v is None:
                scalars.append("SNone")
            elif isinstance(v, bool):
                scalars.append("SBool %s" % ("true" if v else "false"))
            elif isinstance(v, int):
                if idmap is not None and v in idmap:
                    scalars.append("SNid %d" % idmap[v])
                elif v > 10 ** 9:
                    scalars.append("SNidUnknown")
                else:
                    scalars.append("SInt (%d)%%Z" % v)
            elif isinstance(v, str):
                scalars.append(("SStr %d" if isinstance(node, ast.Constant) else "SId %d") % I.ident(v))
            else:
                scalars.append("SOpaque %d" % I.ident(repr(v)))
        else:
            if isinstance(v, ast.AST):
                fields.append("[" + enc(v, I, idmap) + "]")
            elif isinstance(v, list):
                if v and all(isinstance(x, str) for x in v):        # Global.names, Nonlocal.names, MatchMapping.rest ...
                    scalars.append("SInt (%d)%%Z" % len(v))
                    scalars += ["SId %d" % I.ident(x) for x in v]
                    fields.append("[]")
                else:
                    fields.append("[" + "; ".join(enc(x, I, idmap) if isinstance(x, ast.AST) else "NoneNode" for x in v) + "]")
            elif v is None:
                fields.append("[]")
            elif isinstance(v, str):
                scalars.append("SId %d" % I.ident(v))
                fields.append("[]")
            else:
                scalars.append("SOpaque %d" % I.ident(repr(v)))
                fields.append("[]")
    return "(T %d [%s] [%s])" % (KCODE[name], "; ".join(scalars), "; ".join(fields))


def count_nodes(node):
    return sum(1 for _ in ast.walk(node))
