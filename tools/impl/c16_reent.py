# K-rt for C16: handlers that run instrumented code according to a behaviour tree; logs nesting depth per invocation.
import json
import sys
from contextlib import ExitStack

import pyccolo as pyc
import pyccolo.emit_event as ee
from swread import read_switches, reset_switches

CUR, LOG, DEPTH, VIA = [], [], [0], ["assign"]
MOD = "verif_c16_mod"
SYS_EVT = {"call": pyc.call, "return": pyc.return_, "import": pyc.after_import}


def _module_dir():
    import os
    import tempfile
    d = tempfile.mkdtemp(prefix="verif_c16_")
    with open(os.path.join(d, MOD + ".py"), "w") as f:
        f.write("pass\n")
    sys.path.insert(0, d)
    return d


def run_acts(acts):
    for a in acts:
        k = a["k"]
        if k == "em":
            CUR.append(a)
            try:
                if VIA[0] in ("call", "return") and DEPTH[0] == 0:
                    # a top-level emission is the `call` (`return`) event of a sandbox function; the emissions made by the handlers it reaches are AST events
                    # (CPython itself does not trace code run by a trace function, so nested `call` events do not exist)
                    pyc.exec("def trigger():\n    return 0\ntrigger()", {}, {})
                elif VIA[0] == "import" and DEPTH[0] == 0:
                    # a top-level emission is the after_import event of a module loaded by the tracer's import hook
                    import importlib
                    sys.modules.pop(MOD, None)
                    importlib.invalidate_caches()
                    importlib.import_module(MOD)
                else:
                    pyc.exec("x = 0", {}, {})
            finally:
                CUR.pop()
        elif k == "region":
            with pyc.allow_reentrant_event_handling():
                run_acts(a["acts"])
        elif k == "catch":
            try:
                run_acts(a["acts"])
            except Exception:
                pass


def run_case(case, ci):
    del LOG[:]
    del CUR[:]
    DEPTH[0] = 0
    VIA[0] = case.get("via", "assign")
    tracers = []
    for ti, td in enumerate(case["tracers"]):
        attrs = {"allow_reentrant_events": td["allow_re"], "multiple_threads_allowed": bool(td.get("multi", False))}
        for hi, hre in enumerate(td["handlers"]):
            def make(ti=ti, hi=hi):
                def handler(self, ret, node, frame, evt, guard, **kw):
                    if evt in (pyc.call, pyc.return_) and frame.f_code.co_name != "trigger":
                        return None
                    if evt is pyc.after_import and getattr(kw.get("module"), "__name__", None) != MOD:
                        return None
                    beh = CUR[-1]["tracers"][ti][hi]
                    LOG.append([DEPTH[0], beh["id"]])
                    DEPTH[0] += 1
                    try:
                        run_acts(beh["acts"])
                        if beh["raises"]:
                            raise RuntimeError("h")
                    finally:
                        DEPTH[0] -= 1
                    return {0: None, 1: pyc.Skip, 2: pyc.SkipAll}[beh["ctl"]]
                handler.__name__ = "h_%d_%d" % (ti, hi)
                return pyc.register_handler((SYS_EVT[case["via"]], pyc.after_assign_rhs) if case.get("via", "assign") != "assign" else pyc.after_assign_rhs, reentrant=hre)(handler)
            attrs["h_%d" % hi] = make()
        if td["propagate"]:
            attrs["should_propagate_handler_exception"] = lambda self, e, x: True
        if case.get("via") == "import":
            attrs["should_instrument_file"] = lambda self, fn: MOD in fn
        cls = type("R%d_%d" % (ci, ti), (pyc.BaseTracer,), attrs)
        tracers.append(cls.instance())
    raised, flags = [], []
    with ExitStack() as st:
        for t in tracers:
            st.enter_context(t.tracing_enabled())
        def body():
            for top in case["tops"]:
                try:
                    run_acts([top])
                    raised.append(False)
                except RuntimeError:
                    raised.append(True)
                flags.append(read_switches())
        if case.get("worker"):
            import threading
            th = threading.Thread(target=body)
            th.start()
            th.join(120)
        else:
            body()
    for t in tracers:
        type(t).clear_instance()
    return {"log": list(LOG), "raised": raised, "flags": flags, "final": read_switches() + [len(ee._TRACER_STACK)]}


def main():
    cases = json.load(sys.stdin)
    out = []
    if any(c.get("via") == "import" for c in cases):
        _module_dir()
    for i, c in enumerate(cases):
        try:
            out.append(run_case(c, i))
        except BaseException as e:
            import traceback
            out.append({"crash": "%s: %s" % (type(e).__name__, e), "tb": traceback.format_exc()[-800:]})
            reset_switches()
    print("@@" + json.dumps(out))


main()
