# K-book: build the bookkeeping tables for a source program with the real rewriter; export the pristine tree shape and
# the tables (ids -> traversal indices), plus the lexical facts computed on ast.parse(source).
import ast
import json
import sys

import pyccolo as pyc

SINGLETON = (ast.expr_context, ast.operator, ast.boolop, ast.unaryop, ast.cmpop)


class T(pyc.BaseTracer):
    @pyc.register_handler(pyc.after_stmt)
    def h(self, *_, **__):
        return None


def index_tree(root):
    """traversal indices in StatementMapper.visit order, skipping shared singleton nodes (Load, Add, ...)"""
    order = []

    def go(n):
        order.append(n)
        for name, field in ast.iter_fields(n):
            if isinstance(field, ast.AST):
                if not isinstance(field, SINGLETON):
                    go(field)
            elif isinstance(field, list):
                for x in field:
                    if isinstance(x, ast.AST) and not isinstance(x, SINGLETON):
                        go(x)
    go(root)
    return order


def shape(n, idx):
    ch = []
    for name, field in ast.iter_fields(n):
        if isinstance(field, ast.AST):
            if not isinstance(field, SINGLETON):
                ch.append([False, shape(field, idx)])
        elif isinstance(field, list):
            for x in field:
                if isinstance(x, ast.AST) and not isinstance(x, SINGLETON):
                    ch.append([True, shape(x, idx)])
    return [isinstance(n, ast.stmt), idx[id(n)], ch]


def lexical(root, idx):
    """independent facts from the tree structure: nearest enclosing statement, lexical parent statement, ancestor types"""
    out = {}

    def go(n, stmts):
        me = stmts + [n] if isinstance(n, ast.stmt) else stmts
        out[idx[id(n)]] = {
            "anc_or_self_stmts": [idx[id(s)] for s in me],
            "parent_stmt": (idx[id(stmts[-1])] if stmts else None),
            "proper_stmt_ancestor_types": [type(s).__name__ for s in stmts],
            "type": type(n).__name__, "is_stmt": isinstance(n, ast.stmt),
        }
        for name, field in ast.iter_fields(n):
            kids = [field] if isinstance(field, ast.AST) else (field if isinstance(field, list) else [])
            for x in kids:
                if isinstance(x, ast.AST) and not isinstance(x, SINGLETON):
                    go(x, me)
    go(root, [])
    return out


def run_case(case, ci):
    t = T.instance()
    res = {"files": []}
    with t.tracing_enabled():
        roots = []
        for k, src in enumerate(case["sources"]):
            fname = "<sandbox-c18-%d-%d>" % (ci, k)
            tree = t.make_ast_rewriter(fname).visit(ast.parse(src))
            bk = t.ast_bookkeeper_by_fname[fname]
            root = [n for n in bk.ast_node_by_id.values() if isinstance(n, ast.Module)][0]
            roots.append((fname, root, src))
        # query the class-level tables AFTER all instrumentations (entries of earlier code must still be there)
        for fname, root, src in roots:
            order = index_tree(root)
            idx = {id(n): i for i, n in enumerate(order)}
            tables = {}
            internal = []
            for n in order:
                i = idx[id(n)]
                got = t.ast_node_by_id.get(id(n))
                cs = t.containing_stmt_by_id.get(id(n))
                ps = t.parent_stmt_by_id.get(id(n))
                ca = t.containing_ast_by_id.get(id(n))
                tables[i] = {"node_ok": got is n, "cs": idx.get(id(cs)) if cs is not None else None,
                             "ps": idx.get(id(ps)) if ps is not None else None, "ca": idx.get(id(ca)) if ca is not None else None}
                if isinstance(n, ast.stmt) or cs is not None:
                    # every node a handler can be given, not only statements.  API history: queries with an exclusion set come first, the plain queries after them
                    tables[i]["outer_excl_try"] = bool(pyc.BaseTracer.is_outer_stmt(n, exclude_outer_stmt_types={ast.Try}))
                    tables[i]["outer_excl_if_with"] = bool(pyc.BaseTracer.is_outer_stmt(n, exclude_outer_stmt_types={ast.If, ast.With}))
                    tables[i]["outer"] = bool(pyc.BaseTracer.is_outer_stmt(n))
                    tables[i]["initial_frame"] = bool(pyc.BaseTracer.is_initial_frame_stmt(n))
                for k2, v2 in vars(n).items():
                    if k2.startswith("_X5ix") or k2 == "parent" or (isinstance(v2, str) and v2.startswith("_X5ix")):
                        internal.append([i, k2])
            plain_root = ast.parse(src)
            porder = index_tree(plain_root)
            pidx = {id(n): i for i, n in enumerate(porder)}
            same_shape = [type(a).__name__ for a in order] == [type(b).__name__ for b in porder]
            res["files"].append({"shape": shape(root, idx), "tables": tables, "lexical": lexical(plain_root, pidx), "same_shape": same_shape,
                                 "internal": internal, "n": len(order)})
    T.clear_instance()
    return res


def main():
    cases = json.load(sys.stdin)
    out = []
    for i, c in enumerate(cases):
        try:
            out.append(run_case(c, i))
        except BaseException as e:
            import traceback
            out.append({"crash": "%s: %s" % (type(e).__name__, e), "tb": traceback.format_exc()[-1000:]})
    print("@@" + json.dumps(out))


main()
