# K-rt: real tracer classes built from data; one emission site per program; observe value/log/flags.
import json
import sys
from contextlib import ExitStack

import pyccolo as pyc
import pyccolo.emit_event as ee
from swread import read_switches, reset_switches


def classify(x):
    if x is None:
        return ["none"]
    if x is pyc.Pass:
        return ["pass"]
    if x is pyc.Null:
        return ["null"]
    if x is pyc.Skip:
        return ["skip"]
    if x is pyc.SkipAll:
        return ["skipall"]
    if isinstance(x, bool):
        return ["other", repr(x)]
    if isinstance(x, int):
        return ["u", x]
    if isinstance(x, str):
        return ["u", int(x.split("(")[1].rstrip(")"))] if x.startswith("rec.append(") else (["u", 0] if x == "" else ["other", x])
    if callable(x):
        n = getattr(x, "_verif_id", None)
        return ["thunk", n] if n is not None else ["thunk0"]
    return ["other", repr(x)]


def realise(out, event):
    k = out[0]
    if k == "none":
        return None
    if k == "val":
        if event == "before_stmt":
            return "rec.append(%d)" % out[1] if out[1] != 0 else ""
        return out[1]
    if k == "thunk":
        f = lambda *a: out[1]  # noqa: E731
        f._verif_id = out[1]
        return f
    if k == "null":
        return pyc.Null
    if k == "skip":
        return pyc.Skip
    if k == "skipall":
        return pyc.SkipAll
    if k == "pass":
        return pyc.Pass
    if k == "raise":
        raise RuntimeError("handler")
    raise ValueError(out)


def key_of(seen):
    return json.dumps(seen)


def run_case(case, ci):
    event = case["event"]
    evobj = pyc.TraceEvent(event)
    log = []
    tracers = []
    for ti, td in enumerate(case["tracers"]):
        attrs = {}
        for hi, h in enumerate(td["handlers"]):
            def make(ti=ti, hi=hi, h=h):
                def handler(self, ret, node, frame, evt, guard, **kw):
                    seen = classify(ret)
                    log.append([ti, hi, seen])
                    out = h["table"].get(key_of(seen), h["default"])
                    return realise(out, event)
                handler.__name__ = "h_%d_%d" % (ti, hi)
                kw = {"reentrant": h.get("reentrant", False)}
                if h["pred"] is not None:
                    p = h["pred"]
                    kw["when"] = (lambda node, p=p: p)
                return pyc.register_handler(evobj, **kw)(handler)
            attrs["h_%d" % hi] = make()
        if td.get("propagate"):
            attrs["should_propagate_handler_exception"] = lambda self, e, x: True
        if not td.get("file_ok", True):
            attrs["file_passes_filter_for_event"] = lambda self, e, f: False
        cls = type("T%d_%d" % (ci, ti), (pyc.BaseTracer,), attrs)
        tracers.append(cls.instance())
    rec = []
    env = {"rec": rec}
    res = {}
    prog = {"after_assign_rhs": "x = %d" % case["init"], "before_assign_rhs": "x = %d" % case["init"],
            "before_stmt": "rec.append(%d)" % case["init"]}[event]
    try:
        with ExitStack() as st:
            for t, td in zip(tracers, case["tracers"]):
                st.enter_context(t.tracing_disabled() if td.get("disabled") else t.tracing_enabled())
            out = pyc.exec(prog, env, {})
        res["x"] = classify(out.get("x")) if "x" in out else ["unbound"]
    except BaseException as e:
        res["exc"] = type(e).__name__
    res["rec"] = list(rec)
    res["log"] = log
    res["flags"] = read_switches()
    res["stack"] = len(ee._TRACER_STACK)
    for t in tracers:
        type(t).clear_instance()
    return res


def main():
    cases = json.load(sys.stdin)
    out = []
    for i, c in enumerate(cases):
        try:
            out.append(run_case(c, i))
        except BaseException as e:
            import traceback
            out.append({"crash": "%s: %s" % (type(e).__name__, e), "tb": traceback.format_exc()[-800:]})
    print("@@" + json.dumps(out))


if __name__ == "__main__":
    main()
