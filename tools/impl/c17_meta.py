# C17, process-wide import state: while a worker thread imports something, what the interpreter's import machinery shows to everybody
# (sys.meta_path) must still contain the finder the main thread's context installed - a main-thread import that reads sys.meta_path in that
# window would otherwise be loaded uninstrumented and lose all its events for good.
#   stdin: list of cases {"kind": "missing" | "plain" | "accepted", "has_sys": bool}
#   stdout: per case {"seen": [[module name, finder present while a probe finder was consulted from the worker]...], "worker_events": n, "main_events": n}
import importlib
import json
import os
import sys
import tempfile
import threading

import pyccolo as pyc
from pyccolo.import_hooks import TraceFinder

D = tempfile.mkdtemp(prefix="verif_c17_meta_")
sys.path.insert(0, D)
SEEN = []
MAIN = threading.current_thread()


class Probe:
    """consulted by the import system like any finder; knows nothing"""

    @staticmethod
    def find_spec(name, path=None, target=None):
        if threading.current_thread() is not MAIN and name.startswith("verif_c17m_"):
            SEEN.append([name, any(isinstance(f, TraceFinder) for f in sys.meta_path)])
        return None


def run_case(c, ci):
    del SEEN[:]
    hits = []
    name = "verif_c17m_%d" % ci
    main_name = "verif_c17m_main_%d" % ci
    if c["kind"] != "missing":
        with open(os.path.join(D, name + ".py"), "w") as f:
            f.write("x = 1\ny = x + 1\n")
    with open(os.path.join(D, main_name + ".py"), "w") as f:
        f.write("x = 1\ny = x + 1\n")
    importlib.invalidate_caches()

    def handler(self, ret, node, frame, evt, *a, **k):
        hits.append([threading.current_thread() is MAIN, os.path.basename(frame.f_code.co_filename)])
        return ret
    attrs = {"h": pyc.register_raw_handler(pyc.after_assign_rhs)(handler),
             "should_instrument_file": (lambda self, fn: "verif_c17m_" in fn) if c["kind"] == "accepted" else (lambda self, fn: "verif_c17m_main_" in fn)}
    if c.get("has_sys"):
        attrs["hs"] = pyc.register_raw_handler(pyc.call)(lambda self, *a, **k: None)
    t = type("M%d" % ci, (pyc.BaseTracer,), attrs).instance()
    sys.meta_path.insert(0, Probe)          # consulted first, by every thread
    errors = []
    try:
        with t.tracing_enabled():
            def work():
                try:
                    importlib.import_module(name)
                except ImportError:
                    pass
                except BaseException as e:  # noqa
                    errors.append("%s: %s" % (type(e).__name__, e))
            th = threading.Thread(target=work)
            th.start()
            th.join(60)
            importlib.import_module(main_name)            # afterwards, on the main thread: instrumented as ever
    finally:
        sys.meta_path.remove(Probe)
        type(t).clear_instance()
    return {"seen": list(SEEN), "worker_events": sum(1 for m, _ in hits if not m), "main_events": sum(1 for m, f in hits if m and f.startswith(main_name)), "errors": errors}


def main():
    cases = json.load(sys.stdin)
    out = []
    for i, c in enumerate(cases):
        try:
            out.append(run_case(c, i))
        except BaseException as e:  # noqa
            import traceback
            out.append({"crash": "%s: %s" % (type(e).__name__, e), "tb": traceback.format_exc()[-800:]})
    print("@@" + json.dumps(out))


main()
