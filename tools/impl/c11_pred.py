# C11 harness.  Two kinds of cases:
#  kind "pred": predicate structures built with the REAL predicate.py (CompositePredicate.any/all coalescing, .static,
#               __call__, dynamic_call) evaluated under every truth assignment of the case;
#  kind "inv":  real tracers whose after_int handlers carry such conditions (and optionally local guards) run on the
#               program `u = 0; u = 1; ...` (node i = the constant i; base condition c holds on node i iff table[c][i];
#               the program itself sets the guard names between the statements): which handler was invoked at which node.
import ast
import json
import sys

import pyccolo as pyc
from pyccolo.predicate import Predicate, CompositePredicate

PFX = "_X5ix_g"


def build(spec, table, cur):
    t = spec["t"]
    if t == "true":
        return Predicate.TRUE
    if t == "false":
        return Predicate.FALSE
    if t == "base":
        c = spec["c"]
        def cond(node, c=c):
            v = table[c][cur(node)]
            if v is None:         # a condition written for another node shape
                raise AttributeError("'Constant' object has no attribute 'func'")
            return bool(v)
        return Predicate(cond, use_raw_node_id=False, static=spec["static"])
    parts = [build(p, table, cur) for p in spec["parts"]]
    return CompositePredicate.any(parts) if t == "any" else CompositePredicate.all(parts)


def ident(p):
    return "IsTrue" if p is Predicate.TRUE else ("IsFalse" if p is Predicate.FALSE else "IsOther")


def run_pred(c):
    table = c["table"]
    n = len(table[0]) if table else 1
    state = {"i": 0}
    p = build(c["pred"], table, lambda node: state["i"])
    rows = []
    for i in range(n):
        state["i"] = i
        row = []
        for f in (p, p.dynamic_call):
            try:
                row.append(bool(f(None)))
            except AssertionError:
                row.append("assert")
            except AttributeError:
                row.append("raise")
        rows.append("assert" if "assert" in row else row)
    return {"ident": ident(p), "static": bool(p.static), "rows": rows}


def run_inv(c, ci):
    table = c["table"]
    n = c["n"]
    calls = []          # [tracer, handler, node index]
    tracers = []
    names = sorted({g for t in c["tracers"] for h in t for g in (h.get("guard") or []) if g is not None})
    lines = ["%s%d = False" % (PFX, g) for g in names]
    for i in range(n):
        for g, v in sorted((c.get("G") or {}).get(str(i), {}).items()):
            lines.append("%s%s = %s" % (PFX, g, "True" if v else "False"))
        lines.append("u = %d" % (1000 + i))
    src = "\n".join(lines) + "\n"
    cur = lambda node: node.value - 1000
    try:
        for ti, hs in enumerate(c["tracers"]):
            attrs = {}
            for hi, h in enumerate(hs):
                def handler(self, ret, node, frame, evt, guard, ti=ti, hi=hi, **kw):
                    if isinstance(node, ast.Constant) and isinstance(node.value, int) and node.value >= 1000:
                        calls.append([ti, hi, node.value - 1000])
                handler.__name__ = "h%d" % hi
                kw = {"when": build(h["pred"], table, cur)}
                if h.get("guard") is not None:
                    gl = h["guard"]       # per node index: guard number or None
                    kw["guard"] = lambda node, gl=gl: (None if not (isinstance(node, ast.Constant) and isinstance(node.value, int) and node.value >= 1000)
                                                       or gl[node.value - 1000] is None else "%s%d" % (PFX, gl[node.value - 1000]))
                attrs["h%d" % hi] = pyc.register_handler(pyc.TraceEvent.after_int, **kw)(handler)
            attrs["global_guards_enabled"] = False
            tracers.append(type("CT%d_%d" % (ci, ti), (pyc.BaseTracer,), attrs).instance())
        from contextlib import ExitStack
        with ExitStack() as st:
            for t in tracers:
                st.enter_context(t.tracing_enabled())
            try:
                env = tracers[-1].exec(src, {})
            except AttributeError as e:
                # at delivery the exceptions of conditions are swallowed: this one comes from the rewrite (the program itself is `u = <int>` lines)
                return {"crash": "an exception of a condition escaped the rewrite: %s" % e}
    finally:
        for t in tracers:
            type(t).clear_instance()
    return {"calls": calls, "src": src}


def main():
    cases = json.load(sys.stdin)
    out = []
    for i, c in enumerate(cases):
        try:
            out.append(run_pred(c) if c["kind"] == "pred" else run_inv(c, i))
        except BaseException as e:
            import traceback
            out.append({"crash": "%s: %s" % (type(e).__name__, e), "tb": traceback.format_exc()[-1500:]})
    print("@@" + json.dumps(out))


if __name__ == "__main__":
    main()
