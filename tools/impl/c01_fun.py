# K-fun: programs of the FragFun fragment (FragSem + module-level functions, return, calls as right-hand sides) under the REAL
# rewriter and runtime with a recording tracer whose handler activates / deactivates FUNCTION guards by rule: the stream
# (event, node index, value), final bindings, exception type, and the exported trees with guard names canonicalised to the index of
# the definition they belong to.
#   stdin: list of {"src", "events", "guards": bool, "rules": [[k, on, n], ...]}   (k = number of events delivered so far, n = def node index)
import ast
import json
import sys

import pyccolo as pyc
import astexport
import rw_common as rw
from c01_sem import ser
from c10_sem import guard_of as loop_guard_of, PFX, GBASE

NAMES = ("a", "b", "c", "d", "r", "f", "g", "h", "p", "q", "zz")


def fguard_of(test):
    if isinstance(test, ast.BoolOp) and isinstance(test.op, ast.And) and len(test.values) >= 2:
        a, b = test.values[0], test.values[1]
        if isinstance(a, ast.Name) and a.id == PFX + "FUNCTION_TRACING_ENABLED" and isinstance(b, ast.Name) and b.id.startswith(PFX + "GUARD_"):
            return b.id
    return None


def scan_guards(out, by_id):
    """guard name -> traversal index of the pristine def node (read off the name, checked against the position)"""
    gm = {}
    for w in ast.walk(out):
        if isinstance(w, ast.FunctionDef) and w.body and isinstance(w.body[0], ast.Try) and w.body[0].body and isinstance(w.body[0].body[0], ast.If):
            g = fguard_of(w.body[0].body[0].test)
            if g is None:
                continue
            digits = g[len(PFX + "GUARD_"):].split("_")[0]
            n = by_id.get(int(digits))
            if n is not None:
                gm[g] = n
    return gm


class FInterner(astexport.Interner):
    def __init__(self, gm):
        super().__init__()
        self.gm = gm

    def ident(self, s):
        if s in self.gm:
            return GBASE + 2 * self.gm[s] + 1
        return super().ident(s)


def run_case(c, ci):
    fname = "%s-fsem-%d>" % (rw.FNAME_PREFIX, ci)
    log = []
    idmap = {}
    names = {}
    rules = sorted(c.get("rules", []), key=lambda x: x[0])

    def recorder(self, evt, ret, node, guard, kw):
        log.append([evt.value, idmap.get(id(node), -1), ser(ret)])
        for k, on, n in rules:
            if k == len(log):
                nm = names.get(n)
                if nm is not None:
                    (self.deactivate_guard if on else self.activate_guard)(nm)
        return None

    res = {}
    t = rw.make_tracer("FSEM%d" % ci, c["events"], guards=c.get("guards", True), recorder=recorder)
    try:
        with t.tracing_enabled():
            out, pristine = rw.rewrite(c["src"], [t], fname)
            order = astexport.traversal(pristine)
            by_id = {}
            for i, n in enumerate(order):
                if not isinstance(n, (ast.expr_context, ast.operator, ast.boolop, ast.unaryop, ast.cmpop)):
                    idmap[id(n)] = i
                    by_id[id(n)] = i
            gm = scan_guards(out, by_id)
            for g, n in gm.items():
                names[n] = g
            I = FInterner(gm)
            res["src_tree"], res["out_tree"], _, _ = rw.export_pair(out, pristine, I)
            res["names"] = {k: v for k, v in I.tab.items() if k in NAMES}
            res["guards_found"] = sorted(names)
            code = compile(out, fname, "exec")
            env = {}
            exc = None
            try:
                exec(code, env)
            except BaseException as e:
                exc = type(e).__name__
            res["exc"] = exc
            res["bindings"] = {k: ser(env[k]) for k in NAMES if k in env}
            res["log"] = log
        env2 = {}
        exc2 = None
        try:
            exec(compile(c["src"], fname, "exec"), env2)
        except BaseException as e:
            exc2 = type(e).__name__
        res["plain_exc"] = exc2
        res["plain_bindings"] = {k: ser(env2[k]) for k in NAMES if k in env2}
    finally:
        type(t).clear_instance()
        pyc.BaseTracer.guards.clear()
    return res


def main():
    cases = json.load(sys.stdin)
    out = []
    for i, c in enumerate(cases):
        try:
            out.append(run_case(c, i))
        except BaseException as e:
            import traceback
            out.append({"crash": "%s: %s" % (type(e).__name__, e), "tb": traceback.format_exc()[-1000:]})
    print("@@" + json.dumps(out))


if __name__ == "__main__":
    main()
