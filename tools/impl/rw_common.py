# shared by the rewriter-family harnesses: tracer construction from data, plain / instrumented execution with the same
# observables, export of source and rewritten ASTs
import ast
import io
import os
import sys
import types
import contextlib

import pyccolo as pyc
import astexport

FNAME_PREFIX = "<sandbox-rw"
SYS_EVENTS = {"line", "call", "return", "exception", "opcode", "c_call", "c_return", "c_exception"}
AST_EVENTS = [e for e in pyc.TraceEvent if e.value not in SYS_EVENTS and e.value not in ("before_import", "after_import")]
DEFERRED = {e.name for e in pyc.trace_events.BEFORE_EXPR_EVENTS}
PRIVATE = {"_load_saved_slice", "_load_saved_expr_stmt_ret"}


def make_tracer(name, events, guards=True, recorder=None, extra_attrs=None):
    """an observing tracer subscribed to `events` (names); recorder(evt, ret, node, kwargs) is called if given"""
    attrs = dict(extra_attrs or {})
    evs = tuple(pyc.TraceEvent[e] if e in pyc.TraceEvent.__members__ else pyc.TraceEvent(e) for e in events)
    if evs:
        def handler(self, ret, node, frame, evt, local_guard, **kw):
            # NB the bracket events pass a keyword argument named `guard`: the positional parameter must not have that name
            if recorder is not None:
                return recorder(self, evt, ret, node, local_guard, kw)
            return None
        handler.__name__ = "h_all"
        attrs["h_all"] = pyc.register_handler(evs)(handler)
    attrs["global_guards_enabled"] = guards
    cls = type(name, (pyc.BaseTracer,), attrs)
    return cls.instance()


def observe(env, exc, rec_name="_rec"):
    def ser(v, d=0):
        if isinstance(v, int) and not isinstance(v, bool) and v.bit_length() > 256:
            return "<int of %d bits, %d mod 1000003>" % (v.bit_length(), v % 1000003)
        if isinstance(v, (bool, int, str, float, type(None))):
            return v if not isinstance(v, float) else repr(v)
        if isinstance(v, (list, tuple)) and d < 3:
            return [type(v).__name__] + [ser(x, d + 1) for x in v]
        if isinstance(v, dict) and d < 3:
            return ["dict"] + [[ser(k, d + 1), ser(x, d + 1)] for k, x in v.items()]
        if isinstance(v, (set, frozenset)) and d < 3:
            return ["set"] + sorted(repr(x) for x in v)
        if isinstance(v, types.FunctionType):
            return "<function %s doc=%r ann=%s>" % (v.__name__, v.__doc__, sorted((k, repr(a)) for k, a in getattr(v, "__annotations__", {}).items()))
        if isinstance(v, type):
            return "<class %s doc=%r>" % (v.__name__, v.__dict__.get("__doc__"))
        if hasattr(v, "v") and hasattr(v, "items"):
            return ["Box", ser(v.v, d + 1), ser(v.items, d + 1)]
        return "<%s>" % type(v).__name__
    out = {"bindings": {k: ser(v) for k, v in sorted(env.items()) if not k.startswith("__") and not k.startswith("_X5ix")
                        and k not in ("t", "Box", "deco")}}
    if isinstance(env.get("__doc__"), str):
        out["bindings"]["__doc__"] = env["__doc__"]
    if exc is not None:
        chain = []
        tb = exc.__traceback__
        while tb is not None:
            co = tb.tb_frame.f_code
            if co.co_filename.startswith(FNAME_PREFIX) and co.co_name not in ("<traced_lambda>",):
                chain.append([co.co_name, tb.tb_lineno])
            tb = tb.tb_next
        out["exc"] = [type(exc).__name__, [ser(a) for a in exc.args], chain]
    return out


sys.path.insert(0, os.path.join(os.path.dirname(os.path.abspath(__file__)), ".."))
import gen_prog  # noqa: E402

_PRELUDE_CODE = compile(gen_prog.PRELUDE, "<prelude>", "exec")


def run_code(code_obj):
    env = {}
    exec(_PRELUDE_CODE, env)        # helper functions/classes of the generated programs: plain, never instrumented
    prelude_names = set(env)
    exc = None
    buf = io.StringIO()
    try:
        with contextlib.redirect_stdout(buf):
            exec(code_obj, env)
    except BaseException as e:
        exc = e
    o = observe(env, exc)
    o["stdout"] = buf.getvalue()
    return o


def run_plain(src, fname):
    return run_code(compile(src, fname, "exec"))


def rewrite(src, tracers, fname):
    """must be called with the tracers active; returns (rewritten Module, pristine Module copy)"""
    tree = ast.parse(src)
    out = tracers[-1].make_ast_rewriter(fname).visit(tree)
    bk = tracers[-1].ast_bookkeeper_by_fname[fname]
    pristine = [n for n in bk.ast_node_by_id.values() if isinstance(n, ast.Module)][0]
    return out, pristine


def export_pair(out, pristine, I=None):
    I = astexport.Interner() if I is None else I
    order = astexport.traversal(pristine)
    idmap = {id(n): i for i, n in enumerate(order)}
    src_txt = astexport.enc(pristine, I, None)
    out_txt = astexport.enc(out, I, idmap)
    return src_txt, out_txt, len(order), astexport.count_nodes(out)
