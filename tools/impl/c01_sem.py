# K-sem: programs of the RwFrag fragment run under the REAL rewriter and runtime with a recording (observing) tracer:
# the stream of (event, traversal index of the node, value), the final bindings and the exception type, plus the exported
# source / output trees for the in-coqc evaluation of model/FragSem.v.
#   stdin: list of {"src": text, "events": [names], "guards": bool}
import ast
import json
import sys

import pyccolo as pyc
import astexport
import rw_common as rw


def ser(v):
    if v is None:
        return ["none"]
    if isinstance(v, bool):
        return ["bool", v]
    if isinstance(v, int):
        return ["int", v]
    if isinstance(v, str):
        return ["str", v]
    if callable(v):
        return ["callable"]
    return ["other", repr(v)[:40]]


def run_case(c, ci):
    fname = "%s-sem-%d>" % (rw.FNAME_PREFIX, ci)
    log = []
    idmap = {}

    def recorder(self, evt, ret, node, guard, kw):
        log.append([evt.value, idmap.get(id(node), -1), ser(ret)])
        return None

    res = {}
    t = rw.make_tracer("SEM%d" % ci, c["events"], guards=c.get("guards", True), recorder=recorder)
    try:
        with t.tracing_enabled():
            out, pristine = rw.rewrite(c["src"], [t], fname)
            order = astexport.traversal(pristine)
            for i, n in enumerate(order):
                if not isinstance(n, (ast.expr_context, ast.operator, ast.boolop, ast.unaryop, ast.cmpop)):
                    idmap[id(n)] = i
            I = astexport.Interner()
            res["src_tree"], res["out_tree"], _, _ = rw.export_pair(out, pristine, I)
            res["names"] = {k: v for k, v in I.tab.items() if k in ("a", "b", "c", "d", "zz")}
            code = compile(out, fname, "exec")
            env = {}
            exc = None
            try:
                exec(code, env)
            except BaseException as e:
                exc = type(e).__name__
            res["exc"] = exc
            res["bindings"] = {k: ser(env[k]) for k in ("a", "b", "c", "d") if k in env}
            res["log"] = log
        # the same program untouched
        env2 = {}
        exc2 = None
        try:
            exec(compile(c["src"], fname, "exec"), env2)
        except BaseException as e:
            exc2 = type(e).__name__
        res["plain_exc"] = exc2
        res["plain_bindings"] = {k: ser(env2[k]) for k in ("a", "b", "c", "d") if k in env2}
    finally:
        type(t).clear_instance()
        pyc.BaseTracer.guards.clear()
    return res


def main():
    cases = json.load(sys.stdin)
    out = []
    for i, c in enumerate(cases):
        try:
            out.append(run_case(c, i))
        except BaseException as e:
            import traceback
            out.append({"crash": "%s: %s" % (type(e).__name__, e), "tb": traceback.format_exc()[-1000:]})
    print("@@" + json.dumps(out))


if __name__ == "__main__":
    main()
