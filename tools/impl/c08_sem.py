# K-ov: programs of the fragment under the REAL rewriter and runtime with a tracer whose handler OVERRIDES values by table:
#   overrides: [[event name, node index, ["int", k] | ["bool", b] | ["none"]], ...]   (["none"] is handed back as pyc.Null)
# output as c01_sem.py
import ast
import json
import sys

import pyccolo as pyc
import astexport
import rw_common as rw
from c01_sem import ser


def run_case(c, ci):
    fname = "%s-osem-%d>" % (rw.FNAME_PREFIX, ci)
    log = []
    idmap = {}
    table = {}
    for e, n, v in c.get("overrides", []):
        table[(e, n)] = pyc.Null if v[0] == "none" else v[1]

    def recorder(self, evt, ret, node, guard, kw):
        key = (evt.value, idmap.get(id(node), -1))
        log.append([key[0], key[1], ser(ret)])
        if key in table:
            return table[key]
        return None

    res = {}
    t = rw.make_tracer("OSEM%d" % ci, c["events"], guards=c.get("guards", True), recorder=recorder)
    try:
        with t.tracing_enabled():
            out, pristine = rw.rewrite(c["src"], [t], fname)
            order = astexport.traversal(pristine)
            for i, n in enumerate(order):
                if not isinstance(n, (ast.expr_context, ast.operator, ast.boolop, ast.unaryop, ast.cmpop)):
                    idmap[id(n)] = i
            I = astexport.Interner()
            res["src_tree"], res["out_tree"], _, _ = rw.export_pair(out, pristine, I)
            res["names"] = {k: v for k, v in I.tab.items() if k in ("a", "b", "c", "d", "zz")}
            code = compile(out, fname, "exec")
            env = {}
            exc = None
            try:
                exec(code, env)
            except BaseException as e:
                exc = type(e).__name__
            res["exc"] = exc
            res["bindings"] = {k: ser(env[k]) for k in ("a", "b", "c", "d") if k in env}
            res["log"] = log
    finally:
        type(t).clear_instance()
        pyc.BaseTracer.guards.clear()
    return res


def main():
    cases = json.load(sys.stdin)
    out = []
    for i, c in enumerate(cases):
        try:
            out.append(run_case(c, i))
        except BaseException as e:
            import traceback
            out.append({"crash": "%s: %s" % (type(e).__name__, e), "tb": traceback.format_exc()[-1000:]})
    print("@@" + json.dumps(out))


if __name__ == "__main__":
    main()
