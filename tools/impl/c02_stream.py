# C02 / C03 / C05 / C11 harness: recorded event streams of one or more stacked tracers on a program, the emit sites of
# the rewritten AST, and (on request) the stream of the independent reference instrumenter.
import ast
import json
import sys
from contextlib import ExitStack

import pyccolo as pyc
import rw_common as rw
import ref_instr


def node_pos(node):
    if node is None:
        return None
    if not isinstance(node, ast.AST):
        return ["?" + type(node).__name__]
    return ref_instr.pos(node)


def emit_sites(tree):
    out = []
    for n in ast.walk(tree):
        if isinstance(n, ast.Call) and isinstance(n.func, ast.Name) and n.func.id == "_X5ix_PYCCOLO_EVT_EMIT" and n.args and isinstance(n.args[0], ast.Constant):
            out.append(n.args[0].value)
    return out


def make_pred(spec):
    """spec: {"kind": "type"|"name"|"op"|"const"|"line", "arg":..., "dynamic": bool, "combine": None|"any"|"all", "parts":[...]}"""
    from pyccolo.predicate import Predicate, CompositePredicate
    if spec is None:
        return None
    if spec.get("combine"):
        parts = [make_pred(p) for p in spec["parts"]]
        return CompositePredicate.any(parts) if spec["combine"] == "any" else CompositePredicate.all(parts)
    if spec["kind"] == "true":
        return Predicate.TRUE
    if spec["kind"] == "false":
        return Predicate.FALSE
    fn = pred_fn(spec)
    return Predicate(fn, use_raw_node_id=False, static=not spec.get("dynamic", False))


def pred_fn(spec):
    k, a = spec["kind"], spec.get("arg")
    if k == "type":
        return lambda node: type(node).__name__ in a
    if k == "name":
        return lambda node: isinstance(node, ast.Name) and node.id in a
    if k == "op":
        return lambda node: isinstance(node, ast.BinOp) and type(node.op).__name__ in a
    if k == "const":
        return lambda node: isinstance(node, ast.Constant) and isinstance(node.value, int) and not isinstance(node.value, bool) and node.value % 2 == a
    if k == "line":
        return lambda node: getattr(node, "lineno", 0) % 2 == a
    if k == "col":
        return lambda node: getattr(node, "col_offset", 0) % 3 == a
    raise ValueError(k)


def run_case(c, ci):
    fname = "%s-%d>" % (rw.FNAME_PREFIX, ci)
    res = {}
    glob = []
    streams = []
    tracers = []
    try:
        for ti, ts in enumerate(c["tracers"]):
            stream = []
            streams.append(stream)

            def recorder(self, evt, ret, node, guard, kw, ti=ti, stream=stream):
                row = [evt.value, node_pos(node), ref_instr.canon(ret)]
                stream.append(row)
                glob.append([ti, evt.value, node_pos(node)])
                return None
            attrs = {}
            if ts.get("handlers"):
                # C11: several handlers, each with its own events / predicate / local guard
                for hi, hs in enumerate(ts["handlers"]):
                    busy = [False]

                    def h(self, ret, node, frame, evt, local_guard, hi=hi, stream=stream, ti=ti, calls=hs.get("calls"), busy=busy, sets_guard=hs.get("sets_guard"), **kw):
                        stream.append([evt.value, node_pos(node), ref_instr.canon(ret), hi])
                        glob.append([ti, evt.value, node_pos(node), hi])
                        if sets_guard and local_guard is not None:
                            frame.f_globals[local_guard] = True          # from now on: skip me, evaluate the expression untouched
                        if calls and not busy[0] and len(stream) % 3 == 1:
                            # an observing handler that runs instrumented code of the program (C05 / C16): nothing it emits may be delivered
                            fn = frame.f_globals.get(calls)
                            if callable(fn):
                                busy[0] = True
                                try:
                                    fn()
                                finally:
                                    busy[0] = False
                        return None
                    h.__name__ = "h%d" % hi
                    evs = tuple(pyc.TraceEvent(e) for e in hs["events"])
                    kwargs = {}
                    if hs.get("pred") is not None:
                        kwargs["when"] = make_pred(hs["pred"])
                    if hs.get("guard") is not None:
                        g = hs["guard"]
                        if isinstance(g, dict) and g.get("by") == "id":
                            # the guard named after the variable (as in the suite's local-guard tests)
                            kwargs["guard"] = (lambda node: "_X5ix_lg_" + node.id if isinstance(node, ast.Name) else None)
                        else:
                            kwargs["guard"] = (lambda node, g=g: g)
                    attrs["h%d" % hi] = pyc.register_handler(evs, **kwargs)(h)
                if any(hs.get("guard") is not None for hs in ts["handlers"]):
                    # the documented protocol: the tracer's init_module handler defines every local guard of the module as False
                    def init_module(self, _ret, node, frame, *_, **__):
                        for g in self.local_guards_by_module_id.get(id(node), []):
                            frame.f_globals[g] = False
                    attrs["init_module_h"] = pyc.register_handler(pyc.TraceEvent.init_module)(init_module)
                attrs["global_guards_enabled"] = ts.get("guards", False)
                t = type("ST%d_%d" % (ci, ti), (pyc.BaseTracer,), attrs).instance()
            else:
                t = rw.make_tracer("ST%d_%d" % (ci, ti), ts["events"], guards=ts.get("guards", False), recorder=recorder)
            if ts.get("nobook"):
                type(t).requires_ast_bookkeeping = False       # this tracer does not want node tables; the others of the stack do
            tracers.append(t)
        with ExitStack() as st:
            for t in tracers:
                st.enter_context(t.tracing_enabled())
            try:
                out, pristine = rw.rewrite(c["src"], tracers, fname)
            except BaseException as e:
                res["rewrite_exc"] = "%s: %s" % (type(e).__name__, str(e)[:120])
                return res
            res["sites"] = sorted(set(emit_sites(out)))
            if c.get("export"):
                s_txt, o_txt, ns, no = rw.export_pair(out, pristine, c.get("_interner"))
                res["src_tree"], res["out_tree"], res["src_nodes"], res["out_nodes"] = s_txt, o_txt, ns, no
            try:
                code = compile(out, fname, "exec")
            except BaseException as e:
                res["compile_exc"] = "%s: %s" % (type(e).__name__, str(e)[:120])
                return res
            o = rw.run_code(code)
            res["exc"] = o.get("exc", [None])[0] if "exc" in o else None
        res["streams"] = streams
        res["global"] = glob
    finally:
        for t in tracers:
            type(t).clear_instance()
        pyc.BaseTracer.guards.clear()
    if c.get("reference"):
        env = {}
        exec(rw._PRELUDE_CODE, env)
        import io
        import contextlib
        with contextlib.redirect_stdout(io.StringIO()):
            log, exc = ref_instr.reference_stream(c["src"], c["reference"], env, fname + "ref")
        res["ref"] = log
        res["ref_exc"] = exc
    return res


def main():
    cases = json.load(sys.stdin)
    out = []
    for i, c in enumerate(cases):
        try:
            out.append(run_case(c, i))
        except BaseException as e:
            import traceback
            out.append({"crash": "%s: %s" % (type(e).__name__, e), "tb": traceback.format_exc()[-1500:]})
    print("@@" + json.dumps(out))


if __name__ == "__main__":
    main()
