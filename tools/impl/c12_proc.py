# One PROCESS of the import experiments (C12 / C13): imports modules of a package on disk, plain or inside tracing contexts of
# tracers built from data, and reports namespaces, per-tracer event logs (file, event, node type/line or INVALID), what
# the import system looks like afterwards, and what is in the cache directory.
#   stdin: {"root": dir containing the package, "imports": [module names], "tracers": [...] | [], "pre": [modules imported
#           before the context], "post": [modules imported after the context], "dont_write": bool}
#   tracer: {"cls": class name, "accept": [file basenames] | "ALL" (instrument_all_files), "events": [...], "caching": bool,
#            "bookkeeping": bool, "guards": bool, "salt": int (different handler set behind the same class name)}
import ast
import contextlib  # noqa: F401
import encodings.latin_1  # noqa: F401
import encodings.utf_8  # noqa: F401
import importlib
import importlib.util
import json
import linecache  # noqa: F401
import pickle  # noqa: F401
import tokenize  # noqa: F401
import os
import sys
import traceback


def simple(v, d=0):
    if isinstance(v, int) and not isinstance(v, bool) and v.bit_length() > 256:
        return "<int of %d bits, %d mod 1000003>" % (v.bit_length(), v % 1000003)
    if isinstance(v, (bool, int, str, float, type(None))):
        return repr(v)
    if isinstance(v, (list, tuple)) and d < 3:
        return [type(v).__name__] + [simple(x, d + 1) for x in v]
    if isinstance(v, dict) and d < 3:
        return ["dict"] + [[simple(k, d + 1), simple(x, d + 1)] for k, x in sorted(v.items(), key=lambda kv: repr(kv[0]))]
    import types
    if isinstance(v, types.FunctionType):
        return "<function %s>" % v.__name__
    if isinstance(v, types.ModuleType):
        return "<module %s>" % v.__name__
    if isinstance(v, type):
        return "<class %s>" % v.__name__
    return "<%s>" % type(v).__name__


def namespace(m):
    return {k: simple(v) for k, v in sorted(vars(m).items()) if not k.startswith("__") and not k.startswith("_X5ix")}


def main():
    c = json.load(sys.stdin)
    deferred_spec = None
    sys.dont_write_bytecode = bool(c.get("dont_write"))
    sys.path.insert(0, c["root"])
    res = {"events": [], "errors": [], "ns": {}, "post_events": 0}
    log = []
    tracers = []
    if c.get("tracers"):
        import pyccolo as pyc
        for ti, ts in enumerate(c["tracers"]):
            evs = tuple(pyc.TraceEvent(e) for e in ts["events"])

            def handler(self, ret, node, frame, evt, *a, ti=ti, **kw):
                fn = os.path.basename(os.path.dirname(frame.f_code.co_filename)) + "/" + os.path.basename(frame.f_code.co_filename)
                if node is None:
                    desc = "INVALID"
                elif isinstance(node, ast.AST):
                    desc = "%s@%s" % (type(node).__name__, getattr(node, "lineno", "-"))
                else:
                    desc = "?%s" % type(node).__name__
                # the modules whose bodies are being executed (imports in progress), innermost first
                fr, importing = frame, []
                while fr is not None:
                    if fr.f_code.co_name == "<module>" and fr.f_code.co_filename.startswith(c["root"]):
                        importing.append(os.path.basename(os.path.dirname(fr.f_code.co_filename)) + "/" + os.path.basename(fr.f_code.co_filename))
                    fr = fr.f_back
                log.append([ti, fn, evt.value, desc, importing])
            handler.__name__ = "h_salt%d" % ts.get("salt", 0)
            kw = {}
            if ts.get("static_parity") is not None:
                from pyccolo.predicate import Predicate
                kw["when"] = Predicate(lambda node, k=ts["static_parity"]: getattr(node, "lineno", 0) % 2 == k, static=True)
            attrs = {"h": pyc.register_handler(evs, **kw)(handler) if evs else None,
                     "bytecode_caching_allowed": ts.get("caching", True), "requires_ast_bookkeeping": ts.get("bookkeeping", True),
                     "global_guards_enabled": ts.get("guards", True)}
            # where the class is defined: a user script (__main__, no package version) unless the configuration says otherwise
            attrs["__module__"] = ts.get("module", "__main__")
            if ts["accept"] == "ALL":
                attrs["instrument_all_files"] = True
            else:
                acc = set(ts["accept"])
                attrs["should_instrument_file"] = lambda self, filename, acc=acc: os.path.basename(os.path.dirname(filename)) + "/" + os.path.basename(filename) in acc
            if ts.get("no_import_events"):
                attrs["file_passes_filter_for_event"] = lambda self, evt, filename: evt not in ("before_import", "after_import")
            cls = type(ts["cls"], (pyc.BaseTracer,), attrs)
            tracers.append(cls.instance())

    def imp(names, tag):
        for n in names:
            try:
                if n.startswith("reload:"):
                    m = importlib.reload(sys.modules[n[7:]])          # importlib.reload of a module that is already loaded
                elif n.startswith("evict:"):
                    sys.modules.pop(n[6:], None)                      # dropped from sys.modules, imported afresh
                    m = importlib.import_module(n[6:])
                else:
                    m = importlib.import_module(n)
                res["ns"][n] = namespace(m)
            except BaseException as e:
                res["errors"].append([tag, n, type(e).__name__, str(e)[:200], traceback.format_exc()[-600:]])

    if c.get("block"):
        # a dependency that is missing in this process: importing it raises (so the importing module's body raises at import)
        blocked = set(c["block"])

        class Blocker:
            @staticmethod
            def find_spec(name, path=None, target=None):
                if name in blocked:
                    raise ImportError("blocked: " + name)
                return None
        sys.meta_path.insert(0, Blocker)
    if c.get("drop_uid") and os.getuid() == 0:
        # a read-only cache directory means nothing to root: continue as an unprivileged user (everything this process
        # still needs from the interpreter's own directories is imported by now)
        os.setgid(65534)
        os.setuid(65534)
    imp(c.get("pre", []), "pre")
    if tracers and c.get("optin_before"):
        # an EARLIER context of every tracer opts files in for its own duration (tracing_enabled_file, as the `instrumented` decorator
        # does for the file of the function it wraps); it has ended before the contexts below are entered
        for f in c["optin_before"]:
            path = os.path.join(c["root"], "pk", f) if f.startswith("sub/") else os.path.join(c["root"], f)
            for t in tracers:
                with t.tracing_context(disabled=False, tracing_enabled_file=path):
                    pass
    if tracers:
        from contextlib import ExitStack
        try:
            with ExitStack() as st:
                for t in tracers:
                    st.enter_context(t.tracing_enabled())
                imp(c["imports"], "ctx")
                if c.get("deferred"):
                    # the spec (with its loader) is obtained inside the context; the module is executed later
                    deferred_spec = importlib.util.find_spec(c["deferred"]["module"])
                for call in c.get("calls", []):
                    try:
                        mod, fn = call.rsplit(".", 1)
                        res.setdefault("call_results", []).append(simple(getattr(sys.modules[mod], fn)()))
                    except BaseException as e:
                        res["errors"].append(["call", call, type(e).__name__, str(e)[:200], ""])
        except BaseException as e:
            res["errors"].append(["context", "", type(e).__name__, str(e)[:200], traceback.format_exc()[-600:]])
    else:
        imp(c["imports"], "plain")
        for call in c.get("calls", []):
            mod, fn = call.rsplit(".", 1)
            try:
                res.setdefault("call_results", []).append(simple(getattr(sys.modules[mod], fn)()))
            except BaseException as e:
                res["errors"].append(["call", call, type(e).__name__, str(e)[:200], ""])
    res["events"] = list(log)
    n0 = len(log)
    imp(c.get("post", []), "post")
    # functions of modules imported in the context, called after it
    for call in c.get("post_calls", []):
        mod, fn = call.rsplit(".", 1)
        try:
            res.setdefault("post_call_results", []).append(simple(getattr(sys.modules[mod], fn)()))
        except BaseException as e:
            res["errors"].append(["post_call", call, type(e).__name__, str(e)[:200], ""])
    res["post_events"] = len(log) - n0
    if c.get("deferred") and tracers:
        n1 = len(log)
        name = c["deferred"]["module"]

        def load_deferred():
            try:
                m = importlib.util.module_from_spec(deferred_spec)
                sys.modules[name] = m
                deferred_spec.loader.exec_module(m)
                res["ns"]["deferred:" + name] = namespace(m)
            except BaseException as e:
                res["errors"].append(["deferred", name, type(e).__name__, str(e)[:200], traceback.format_exc()[-600:]])
        if c["deferred"]["load"] == "first":
            with tracers[0].tracing_enabled():          # a second context, of the first tracer only
                load_deferred()
        else:
            load_deferred()                             # after every context
        res["deferred_events"] = [e[:4] for e in log[n1:]]
    res["finder_left"] = any(type(f).__name__ == "TraceFinder" for f in sys.meta_path)
    res["cache_fn_patched"] = importlib.util.cache_from_source.__code__.co_name != "cache_from_source"
    cache = []
    for d, _, files in os.walk(c["root"]):
        if os.path.basename(d) == "__pycache__":
            cache += sorted(os.path.relpath(os.path.join(d, f), c["root"]) for f in files)
    res["cache"] = sorted(cache)
    print("@@" + json.dumps(res))


main()
