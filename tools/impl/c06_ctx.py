# K-ctx: runs a history tree of tracing contexts / site executions / raises on real tracers; snapshots process state.
import builtins
import json
import os
import sys

import pyccolo as pyc
import pyccolo.emit_event as ee
from pyccolo.extra_builtins import EMIT_EVENT, EXEC_SAVED_THUNK, FUNCTION_TRACING_ENABLED, TRACE_LAMBDA, TRACING_ENABLED
from pyccolo.import_hooks import TraceFinder
from swread import read_switches

SNIPPET = """
x = 1
def f():
    y = 2
    return y
lam = lambda: 3
def g():
    for _ in (None,):
        w = 4
    return w
"""
ORIG_SETTRACE, ORIG_GETTRACE = sys.settrace, sys.gettrace
META_PATH0 = list(sys.meta_path)
import importlib.util
ORIG_CFS_CODE = importlib.util.cache_from_source.__code__


def user_trace(frame, evt, arg):
    return None


class Blocker:
    """an import blocker at the END of sys.meta_path: simulates a missing optional dependency by raising"""

    @classmethod
    def find_spec(cls, fullname, path=None, target=None):
        if fullname == "verif_blocked_optional_dep":
            raise ImportError("blocked: " + fullname)
        return None


_MOD_DIR = [None]


def _module_dir():
    """source files imported through pyccolo's loader: one that does not compile, one that raises while executing, a good one"""
    if _MOD_DIR[0] is None:
        import atexit
        import shutil
        import tempfile
        d = tempfile.mkdtemp(prefix="pyccctx-", dir="/var/tmp")
        atexit.register(shutil.rmtree, d, True)
        for name, src in (("verif_broken_mod", "def (:\n"), ("verif_raising_mod", "X = 1\nraise ValueError('at import')\n"), ("verif_good_mod", "Y = [q for q in range(2)]\n")):
            with open(os.path.join(d, name + ".py"), "w") as f:
                f.write(src)
        sys.path.insert(0, d)
        _MOD_DIR[0] = d
    return _MOD_DIR[0]


def do_import(which):
    import importlib
    try:
        if which == "blocked":
            importlib.import_module("verif_blocked_optional_dep")
        elif which == "missing":
            importlib.import_module("verif_surely_missing_module")
        elif which in ("broken", "raising", "good"):
            _module_dir()
            sys.modules.pop("verif_%s_mod" % which, None)
            importlib.invalidate_caches()
            importlib.import_module("verif_%s_mod" % which)
        else:
            sys.modules.pop("colorsys", None)
            importlib.import_module("colorsys")
    except (ImportError, SyntaxError, ValueError):
        pass


def snapshot(tracers):
    def owner(name):
        f = getattr(builtins, name, None)
        if f is None:
            return None
        o = getattr(f, "__self__", None)
        return tracers.index(o) if o in tracers else "other"

    def flag(name):
        return getattr(builtins, name) if hasattr(builtins, name) else "absent"

    tf = ORIG_GETTRACE()
    if tf is None:
        cur = "none"
    elif tf is user_trace:
        cur = "user"
    else:
        who = [i for i, t in enumerate(tracers) if tf is t.sys_tracer]
        cur = ["composed", who[0]] if who else "other"
    guards = set()
    for t in tracers:
        guards |= set(t.guards)
    return {
        "stack": [tracers.index(t) if t in tracers else -1 for t in ee._TRACER_STACK],
        "tsts": [[bool(t._is_tracing_enabled), bool(t._is_tracing_hard_disabled)] for t in tracers],
        "emit": getattr(builtins, EMIT_EVENT, None) is ee._emit_event,
        "guards_live": (all(hasattr(builtins, g) for g in guards) if guards else None),
        "guards_any": any(hasattr(builtins, g) for g in guards),
        "te": flag(TRACING_ENABLED), "fte": flag(FUNCTION_TRACING_ENABLED),
        "thunk_owner": owner(EXEC_SAVED_THUNK), "lam_owner": owner(TRACE_LAMBDA),
        "cur_trace": cur,
        "settrace_orig": sys.settrace is ORIG_SETTRACE and sys.gettrace is ORIG_GETTRACE,
        "meta_finders": sum(1 for f in sys.meta_path if isinstance(f, TraceFinder)),
        "meta_path_others": [type(f).__name__ if not isinstance(f, type) else f.__name__ for f in sys.meta_path if not isinstance(f, TraceFinder)],
        "cfs_orig": importlib.util.cache_from_source.__code__ is ORIG_CFS_CODE,
        "switches": read_switches(),
    }


def run_case(case, ci):
    n = case["n"]
    hits = []
    syshits = []
    tracers = []
    for ti in range(n):
        def make(ti=ti):
            def handler(self, ret, node, frame, evt, guard, **kw):
                hits.append(ti)
            handler.__name__ = "h_%d" % ti
            return pyc.register_handler(pyc.after_int)(handler)
        def enter_hook(self):
            if getattr(self, "_verif_fail_enter", False):
                self._verif_fail_enter = False
                raise RuntimeError("boom")

        def exit_hook(self):
            if getattr(self, "_verif_fail_exit", False):
                self._verif_fail_exit = False
                raise RuntimeError("boom")
        attrs = {"h": make(), "should_patch_meta_path": case["cfg"][ti]["patch_meta"], "enter_tracing_hook": enter_hook, "exit_tracing_hook": exit_hook}
        if case["cfg"][ti]["has_sys"]:
            def sysh(self, ret, node, frame, evt, guard, ti=ti, **kw):
                if frame.f_code.co_filename == "<sandbox-x>":
                    syshits.append(ti)
                return None
            sysh.__name__ = "sysh_%d" % ti
            attrs["sysh"] = pyc.register_handler(pyc.call)(sysh)
        cls = type("X%d_%d" % (ci, ti), (pyc.BaseTracer,), attrs)
        tracers.append(cls.instance())
    if case.get("pre"):
        ORIG_SETTRACE(user_trace)
    sys.meta_path.append(Blocker)
    before = snapshot(tracers)
    env = {}
    code = {}
    log = []

    def site(k, t=None):
        del hits[:]
        del syshits[:]
        finders = sum(1 for f in sys.meta_path if isinstance(f, TraceFinder))
        try:
            if k in ("exec", "eval"):
                # the real sandbox API; finders are counted inside the sandbox's own context, as for a site inside an "exec" item
                fcount = []

                def _count():
                    fcount.append(sum(1 for f in sys.meta_path if isinstance(f, TraceFinder)))
                    return 0
                if k == "exec":
                    t.exec("x = _count() + 1", {"_count": _count}, filename="<sandbox-x>")
                else:
                    t.eval("_count() + 1", {"_count": _count}, filename="<sandbox-x>")
                finders = fcount[0] if fcount else finders
                k = "RTop"
            elif k == "KTop":
                exec(code["top"], env)
            elif k == "KFunc":
                env["f"]()
            elif k == "KLam":
                env["lam"]()
            else:
                env["g"]()
            log.append([k, sorted(set(hits)), len(hits), sorted(set(syshits)), finders])
        except NameError as e:
            log.append([k, "NameError", str(e)[:60], sorted(set(syshits)), finders])

    def run_items(items):
        for it in items:
            k = it[0]
            if k == "ctx":
                with tracers[it[1]].tracing_context(disabled=it[2]):
                    run_items(it[3])
            elif k == "ctxfail":
                # the tracer's enter_tracing_hook raises: the context is not entered (only when the tracer is not on the stack yet: the hook runs on a push)
                tracers[it[1]]._verif_fail_enter = tracers[it[1]] not in ee._TRACER_STACK
                armed = tracers[it[1]]._verif_fail_enter
                with tracers[it[1]].tracing_context(disabled=it[2]):
                    if armed:
                        raise AssertionError("the body ran although the enter hook raised")
                    raise RuntimeError("boom")
            elif k == "ctxexitfail":
                # the tracer's exit_tracing_hook raises after the body has run
                tracers[it[1]]._verif_fail_exit = tracers[it[1]] not in ee._TRACER_STACK
                armed = tracers[it[1]]._verif_fail_exit
                with tracers[it[1]].tracing_context(disabled=it[2]):
                    run_items(it[3])
                if not armed:
                    raise RuntimeError("boom")
            elif k == "exec":
                t = tracers[it[1]]
                with t.tracing_context(disabled=t._is_tracing_hard_disabled, tracing_enabled_file="<sandbox-execctx>"):
                    run_items(it[2])
            elif k == "site":
                site(it[1])
            elif k == "rsite":
                site(it[2], tracers[it[1]])
            elif k == "import":
                do_import(it[1])
            elif k == "raise":
                raise RuntimeError("boom")
            elif k == "try":
                try:
                    run_items(it[1])
                except RuntimeError:
                    pass

    res = {}
    try:
        # prologue: compile the snippet while tracer 0 is active (nothing is executed)
        with tracers[0].tracing_context(disabled=False):
            tree = pyc.parse(SNIPPET)
            code["top"] = compile(tree, "<sandbox-x>", "exec")
        # make f, lam, g exist: run the module code once with every emission going nowhere (no tracer active -> EMIT missing)
        # so define them by running the code inside a disabled context of tracer 0
        with tracers[0].tracing_context(disabled=True):
            exec(code["top"], env)
        mid = snapshot(tracers)
        raised = False
        try:
            run_items(case["items"])
        except RuntimeError:
            raised = True
        after = snapshot(tracers)
        n_hist = len(log)
        for k in ("KFunc", "KLam", "KLoopInFunc"):
            site(k)
        res = {"before": before, "mid": mid, "after": after, "raised": raised, "log": log[:n_hist], "post": log[n_hist:]}
    finally:
        ORIG_SETTRACE(None)
        sys.settrace, sys.gettrace = ORIG_SETTRACE, ORIG_GETTRACE
        del ee._TRACER_STACK[:]
        for name in list(vars(builtins)):
            if name.startswith("_X5ix"):
                delattr(builtins, name)
        sys.meta_path[:] = [f for f in sys.meta_path if not isinstance(f, TraceFinder) and f is not Blocker]
        if META_PATH0 is not None:
            for f in META_PATH0:
                if f not in sys.meta_path:
                    sys.meta_path.append(f)
        for t in tracers:
            t._is_tracing_enabled = False
            t._is_tracing_hard_disabled = False
            type(t).clear_instance()
        pyc.BaseTracer.guards.clear()
    return res


def main():
    cases = json.load(sys.stdin)
    out = []
    for i, c in enumerate(cases):
        try:
            out.append(run_case(c, i))
        except BaseException as e:
            import traceback
            out.append({"crash": "%s: %s" % (type(e).__name__, e), "tb": traceback.format_exc()[-1200:]})
    print("@@" + json.dumps(out))


main()
