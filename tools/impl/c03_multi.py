# C03 / C05 harness: the SAME program rewritten and run under several tracer configurations (each a stack of observing
# tracers); every rewritten tree is exported with one shared interner so that the Coq projection check can compare them.
import json
import sys

import astexport
import c02_stream as st


def run_case(c, ci):
    I = astexport.Interner()
    res = {"configs": []}
    for k, cfg in enumerate(c["configs"]):
        sub = {"src": c["src"], "tracers": cfg, "export": c.get("export", True), "_interner": I}
        r = st.run_case(sub, ci * 10 + k)
        res["configs"].append(r)
    return res


def main():
    cases = json.load(sys.stdin)
    out = []
    for i, c in enumerate(cases):
        try:
            out.append(run_case(c, i))
        except BaseException as e:
            import traceback
            out.append({"crash": "%s: %s" % (type(e).__name__, e), "tb": traceback.format_exc()[-1500:]})
    print("@@" + json.dumps(out))


if __name__ == "__main__":
    main()
