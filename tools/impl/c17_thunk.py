# K-thunk for C17: before_stmt replacements under a deterministic scheduler.  A replaced statement is rewritten to
#     if <emit before_stmt>:  <exec saved thunk>()   else:  <original statement>
# so between the emission returning and the saved thunk being run there is a window in which other threads can emit.
# Every thread is parked before each of its statements and (when a handler returned a replacement) inside the truth
# test of the value the emission returned; a controller releases one thread for one step at a time.
#   stdin: list of cases {"tracers": [{"multi": bool, "repl": {"<tid>:<stmt>": true}}], "threads": [n0, n1, ...], "sched": [tid, ...]}
import json
import sys
import threading
from contextlib import ExitStack

import pyccolo as pyc
from swread import reset_switches

TIMEOUT = 20.0
TLS = threading.local()


class Replacement(str):
    """replacement text whose truth test (the `if` of the rewritten statement) parks the thread testing it"""
    hook = None

    def __bool__(self):
        h = self.hook
        if h is not None:
            h()
        return True


def run_case(case, ci):
    reset_switches()
    nthreads = len(case["threads"])
    rec, log, errors = [], [], []
    arrived = [threading.Event() for _ in range(nthreads)]
    go = [threading.Event() for _ in range(nthreads)]
    finished = [threading.Event() for _ in range(nthreads)]

    parking = [True]

    def park(tid):
        if not parking[0]:
            return
        arrived[tid].set()
        if not go[tid].wait(TIMEOUT):
            errors.append("thread %d timed out waiting" % tid)
        go[tid].clear()

    tracers = []
    for ti, td in enumerate(case["tracers"]):
        def make(ti=ti, td=td):
            def handler(self, ret, node, frame, evt, guard, **kw):
                tid, i = TLS.tid, TLS.stmt
                log.append([tid, i, ti])
                if td["repl"].get("%d:%d" % (tid, i)):
                    r = Replacement("rec.append(['r', %d, %d, %d])" % (tid, i, ti))
                    r.hook = lambda: park(tid)
                    return r
                return None
            handler.__name__ = "h_%d" % ti
            return pyc.register_handler(pyc.before_stmt)(handler)
        cls = type("Tk%d_%d" % (ci, ti), (pyc.BaseTracer,), {"h": make(), "multiple_threads_allowed": td["multi"]})
        tracers.append(cls.instance())

    with ExitStack() as st:
        for t in tracers:
            st.enter_context(t.tracing_enabled())
        codes = [[compile(pyc.parse("rec.append(['o', %d, %d])" % (tid, i)), "<sandbox-k%d>" % tid, "exec") for i in range(n)]
                 for tid, n in enumerate(case["threads"])]

        def body(tid):
            TLS.tid = tid
            try:
                for i, code in enumerate(codes[tid]):
                    TLS.stmt = i
                    park(tid)
                    try:
                        exec(code, {"rec": rec})
                    except BaseException as e:
                        rec.append(["x", tid, i, type(e).__name__])
                        break            # the statements are one program: it ends here
            finally:
                finished[tid].set()
                arrived[tid].set()

        def controller():
            for tid in range(nthreads):
                arrived[tid].wait(TIMEOUT)
            order = list(case["sched"]) + [t for _ in range(400) for t in list(range(1, nthreads)) + [0]]
            for tid in order:
                if all(f.is_set() for f in finished):
                    break
                if tid >= nthreads or finished[tid].is_set():
                    continue
                arrived[tid].clear()
                go[tid].set()
                if not arrived[tid].wait(TIMEOUT):
                    errors.append("controller timed out on thread %d" % tid)
                    break

        workers = [threading.Thread(target=body, args=(tid,)) for tid in range(1, nthreads)]
        ctl = threading.Thread(target=controller)
        for w in workers:
            w.start()
        ctl.start()
        body(0)
        ctl.join(60)
        for w in workers:
            w.join(TIMEOUT)
        # afterwards, with no other thread running: one more replaced and one more plain main-thread statement
        TLS.tid, TLS.stmt = 0, 99
        n0, l0 = len(rec), len(log)
        for td in case["tracers"]:
            td["repl"]["0:99"] = True
        parking[0] = False
        try:
            code = compile(pyc.parse("rec.append(['o', 0, 99])"), "<sandbox-after>", "exec")
            exec(code, {"rec": rec})
        except BaseException as e:
            rec.append(["x", 0, 99, type(e).__name__])
        after = rec[n0:]
        after_log = log[l0:]
        del rec[n0:]
        del log[l0:]
    for t in tracers:
        type(t).clear_instance()
    reset_switches()
    return {"rec": rec, "log": log, "after": after, "after_log": after_log, "errors": errors}


def main():
    cases = json.load(sys.stdin)
    out = []
    for i, c in enumerate(cases):
        try:
            out.append(run_case(c, i))
        except BaseException as e:
            import traceback
            out.append({"crash": "%s: %s" % (type(e).__name__, e), "tb": traceback.format_exc()[-800:]})
    print("@@" + json.dumps(out))


if __name__ == "__main__":
    main()
