# K-hist for C18: a HISTORY of instrumentations under one tracer class (whole modules and single functions, the same path again,
# other paths, collection on / off); afterwards the class-level tables are queried for every bookkeeper of the history.
#   stdin: list of cases {"ops": [{"path": int, "kind": "module" | "function", "src": text}], "gc": bool}
import ast
import json
import sys

import pyccolo as pyc


class T(pyc.BaseTracer):
    @pyc.register_handler(pyc.after_stmt)
    def h(self, *_, **__):
        return None


def run_case(case, ci):
    t = T.instance()
    keep = []                 # the registered nodes stay alive (the tables hold them); the trees handed to the rewriter die, as in real use
    recs = []
    with t.tracing_enabled():
        for j, op in enumerate(case["ops"]):
            fname = "<sandbox-h%d-%d>" % (ci, op["path"])
            tree = ast.parse(op["src"])
            node = tree
            if op["kind"] == "function":
                node = next(n for n in tree.body if isinstance(n, (ast.FunctionDef, ast.AsyncFunctionDef)))
            before = set(T.ast_node_by_id)
            rw = t.make_ast_rewriter(fname)
            rw.gc_bookkeeping = bool(case.get("gc", True))
            out = rw.visit(node)
            del tree, node, out
            bk = t.ast_bookkeeper_by_fname[fname]
            nodes = list(bk.ast_node_by_id.values())
            keep.append(nodes)
            recs.append({"bk": bk, "nodes": nodes, "lines": [(l, s) for l, s in bk.stmt_by_lineno.items()], "mid": bk.module_id,
                         "fresh": not (before & set(bk.ast_node_by_id)), "registered": t.ast_bookkeeper_by_fname[fname] is bk})
        owner = {}
        for j, r in enumerate(recs):
            for i, n in enumerate(r["nodes"]):
                owner[id(n)] = [j, i]
        mids = {}
        for r in recs:
            mids.setdefault(r["mid"], len(mids) + 1)
        res = {"ops": []}
        for j, r in enumerate(recs):
            present = sum(1 for n in r["nodes"] if T.ast_node_by_id.get(id(n)) is n)
            links_ok = True
            for n in r["nodes"]:
                for tab in (T.containing_stmt_by_id, T.parent_stmt_by_id, T.containing_ast_by_id):
                    v = tab.get(id(n))
                    if v is not None and owner.get(id(v), [None])[0] != j:
                        links_ok = False
            table = T.stmt_by_lineno_by_module_id.get(r["mid"], {})
            lines = []
            for l, s in r["lines"]:
                got = table.get(l)
                lines.append([l, owner[id(s)], None if got is None else owner.get(id(got), "foreign"),
                              bool(got is not None and (got.lineno == l or any(d.lineno == l for d in getattr(got, "decorator_list", []))))])
            # the key of the line table: which of the bookkeeper's own nodes it is the id of (None: of none)
            mid_node = next((i for i, n in enumerate(r["nodes"]) if id(n) == r["mid"]), None)
            res["ops"].append({"n": len(r["nodes"]), "present": present, "links_ok": links_ok, "mid": mids[r["mid"]], "mid_node": mid_node, "lines": lines, "fresh": r["fresh"]})
    T.clear_instance()
    T.reset_bookkeeping() if hasattr(T, "reset_bookkeeping") else None
    return res


def main():
    cases = json.load(sys.stdin)
    out = []
    for i, c in enumerate(cases):
        try:
            out.append(run_case(c, i))
        except BaseException as e:
            import traceback
            out.append({"crash": "%s: %s" % (type(e).__name__, e), "tb": traceback.format_exc()[-1000:]})
    print("@@" + json.dumps(out))


if __name__ == "__main__":
    main()
