# C01 / C08 / C10 harness: for each (program, events, guards): rewrite with the real rewriter, export source and output
# trees for the Coq erasure certificate, and run plain vs instrumented with the same observables.
import ast
import json
import sys
from contextlib import ExitStack

import pyccolo as pyc
import rw_common as rw


COMP_BRACKETS = ("after_comprehension_elt", "after_comprehension_if", "after_dict_comprehension_key", "after_dict_comprehension_value")
BRACKETS_OF_GUARDS = ("after_for_loop_iter", "after_while_loop_iter") + COMP_BRACKETS


def run_case(c, ci):
    fname = "%s-%d>" % (rw.FNAME_PREFIX, ci)
    res = {}
    res["plain"] = rw.run_plain(c["src"], fname)
    guard_schedule = c.get("guard_schedule")     # C10: consumed at every event that carries a guard name
    override = c.get("override")                 # C08: {"event":..., "kind":..., "value":...}: what the handler returns for that event
    state = {"i": 0, "count": 0, "seen": [], "per_event": {}, "inside": [], "silenced": {}, "leaks": []}

    def recorder(self, evt, ret, node, guard, kw):
        state["count"] += 1
        name = evt.value
        state["per_event"][name] = state["per_event"].get(name, 0) + 1
        if c.get("log_lines"):
            state["inside"].append([name, getattr(node, "lineno", None)])
        g = kw.get("guard", guard)
        if c.get("silence"):
            # C10: every loop guard is activated the first time it is handed out (end of the loop's first completed iteration) and
            # never deactivated; from then on no event may come from a node that lies lexically inside that loop's body
            if c.get("silence") == "comp-first" and not state.get("pre"):
                # variant: at the first delivery of the run, EVERY guard of a comprehension part is activated (found by name: the guard is named
                # after the registered node), whether or not the part's own bracket event is subscribed
                state["pre"] = True
                import re as _re
                for gname in list(self.guards):
                    m_ = _re.fullmatch(r".*?(\d+)", gname)
                    part = self.ast_node_by_id.get(int(m_.group(1))) if m_ else None
                    if isinstance(part, ast.expr) and gname not in state["silenced"]:
                        self.activate_guard(gname)
                        state["silenced"][gname] = ((part.lineno, part.col_offset), (part.end_lineno, part.end_col_offset))
            line = getattr(node, "lineno", None)
            if line is not None:
                pos = (line, getattr(node, "col_offset", 0))
                end = (getattr(node, "end_lineno", line), getattr(node, "end_col_offset", 10 ** 6))
                for gname, (a, b) in state["silenced"].items():
                    if a <= pos and end <= b and not (name in BRACKETS_OF_GUARDS and g == gname):
                        state["leaks"].append([name, type(node).__name__, line, [list(a), list(b)]])
            if name in ("after_for_loop_iter", "after_while_loop_iter") and isinstance(g, str) and g in self.guards and g not in state["silenced"]:
                self.activate_guard(g)
                # the guarded part is the loop BODY (not the header, not an else clause)
                state["silenced"][g] = ((node.body[0].lineno, 0), (node.body[-1].end_lineno, 10 ** 6)) if node is not None else ((0, 0), (-1, 0))
            if name in COMP_BRACKETS and isinstance(g, str) and g in self.guards and g not in state["silenced"] and node is not None:
                # ... likewise the guard of a comprehension's element / key / value / condition: the guarded part is that expression
                self.activate_guard(g)
                state["silenced"][g] = ((node.lineno, node.col_offset), (node.end_lineno, node.end_col_offset))
        if c.get("silence") and c.get("nested_ctx") and state["silenced"] and state["count"] % 3 == 0:
            # a handler that does its bookkeeping under a nested context of its own tracer (as handlers running library code do):
            # entering a context while guards are active must leave them active
            with self.tracing_disabled():
                pass
        if guard_schedule is not None and isinstance(g, str) and g in self.guards:
            if g not in state["seen"]:
                state["seen"].append(g)
            step = guard_schedule[state["i"] % len(guard_schedule)]
            state["i"] += 1
            # step = [which seen guard (index modulo), activate?]
            target = state["seen"][step[0] % len(state["seen"])]
            if step[1]:
                self.activate_guard(target)
            else:
                self.deactivate_guard(target)
        if override is not None and name == override["event"]:
            k = override["kind"]
            v = override["value"]
            if k == "thunk":
                return lambda *a: v
            if k == "partial":
                import functools
                return functools.partial(lambda *a: v)
            if k == "builtin":
                return [v].pop if not isinstance(v, list) else (lambda *a: v)
            if k == "value":
                return v
            if k == "null":
                return pyc.Null
        return None

    extra_attrs = None
    if c.get("exempt_events"):
        # C10: a second, guard-exempt handler on some events: it keeps receiving them from guarded-off loop bodies; the ordinary
        # recorder above must not (its leak check is unchanged)
        def exempt_handler(self, ret, node, frame, evt, local_guard, **kw):
            state["exempt"] = state.get("exempt", 0) + 1
            return None
        exempt_handler.__name__ = "h_exempt"
        evs = tuple(pyc.TraceEvent[e] if e in pyc.TraceEvent.__members__ else pyc.TraceEvent(e) for e in c["exempt_events"])
        extra_attrs = {"h_exempt": pyc.register_handler(evs, exempt_from_guards=True)(exempt_handler)}
    t = rw.make_tracer("RW%d" % ci, c["events"], guards=c["guards"], recorder=recorder, extra_attrs=extra_attrs)
    try:
        with t.tracing_enabled():
            try:
                out, pristine = rw.rewrite(c["src"], [t], fname)
            except BaseException as e:
                res["rewrite_exc"] = "%s: %s" % (type(e).__name__, str(e)[:120])
                return res
            if c.get("export", True):
                s_txt, o_txt, ns, no = rw.export_pair(out, pristine)
                res["src_tree"], res["out_tree"], res["src_nodes"], res["out_nodes"] = s_txt, o_txt, ns, no
            try:
                code = compile(out, fname, "exec")
            except BaseException as e:
                res["compile_exc"] = "%s: %s" % (type(e).__name__, str(e)[:120])
                return res
            res["instr"] = rw.run_code(code)
            res["handler_calls"] = state["count"]
            res["per_event"] = state["per_event"]
            if c.get("log_lines"):
                res["event_lines"] = state["inside"]
            if c.get("silence"):
                res["leaks"] = state["leaks"][:10]
                res["silenced"] = len(state["silenced"])
                res["exempt_deliveries"] = state.get("exempt", 0)
    finally:
        type(t).clear_instance()
        pyc.BaseTracer.guards.clear()
    return res


def main():
    cases = json.load(sys.stdin)
    out = []
    for i, c in enumerate(cases):
        try:
            out.append(run_case(c, i))
        except BaseException as e:
            import traceback
            out.append({"crash": "%s: %s" % (type(e).__name__, e), "tb": traceback.format_exc()[-1000:]})
    print("@@" + json.dumps(out))


main()
