# K-thr: deterministic scheduler for emissions of several threads on the real emit_event.py.
# Each thread is parked (by a sys.settrace line hook inside emit_event.py only) before each of the 8 statement-level
# steps of an emission; a controller thread releases them one step at a time according to the schedule.
import ast
import inspect
import json
import sys
import threading

import pyccolo as pyc
import pyccolo.emit_event as ee
from swread import read_switches, reset_switches

STEPS = ["SaveA", "SaveR", "ReadA", "ReadR", "ClearA", "Loop", "RestoreA", "RestoreR"]


def tgt_name(t):
    return t.id if isinstance(t, ast.Name) else (t.attr if isinstance(t, ast.Attribute) else None)


def locate():
    tree = ast.parse(inspect.getsource(ee))
    fns = {n.name: n for n in tree.body if isinstance(n, ast.FunctionDef)}
    ev, lp = fns["_emit_event"], fns["_emit_tracer_loop"]
    L = {}

    def assigns(fn):
        return [s for s in ast.walk(fn) if isinstance(s, ast.Assign) and len(s.targets) == 1]

    for s in assigns(ev):
        n = tgt_name(s.targets[0])
        if n == "orig_allow_event_handling":
            L["SaveA"] = s.lineno
        elif n == "orig_allow_reentrant_event_handling":
            L["SaveR"] = s.lineno
        elif isinstance(s.value, ast.Name) and s.value.id == "orig_allow_event_handling":
            L["RestoreA"] = s.lineno
        elif isinstance(s.value, ast.Name) and s.value.id == "orig_allow_reentrant_event_handling":
            L["RestoreR"] = s.lineno
    for s in assigns(lp):
        n = tgt_name(s.targets[0])
        if n == "is_reentrant":
            L["ReadA"] = s.lineno
        elif n == "reentrant_handlers_only":
            L["ReadR"] = s.lineno
        elif isinstance(s.value, ast.Constant) and s.value.value is False and n and n.endswith("allow_event_handling"):
            L["ClearA"] = s.lineno
    for s in ast.walk(lp):
        if isinstance(s, ast.For) and isinstance(s.iter, ast.Name) and s.iter.id == "_TRACER_STACK" and "Loop" not in L:
            L["Loop"] = s.lineno
    missing = [k for k in STEPS if k not in L]
    if missing:
        raise RuntimeError("cannot locate steps %s in emit_event.py" % missing)
    order = [L[k] for k in STEPS]
    if not (L["SaveA"] < L["SaveR"] and L["ReadA"] < L["ReadR"] < L["ClearA"] < L["Loop"] and L["RestoreA"] < L["RestoreR"]):
        raise RuntimeError("steps of emit_event.py are not in the modelled order: %s" % L)
    return L


def run_case(case, ci, L):
    reset_switches()
    nthreads = len(case["threads"])
    log = []
    tracers = []
    for ti, td in enumerate(case["tracers"]):
        def make(ti=ti, td=td):
            def handler(self, ret, node, frame, evt, guard, **kw):
                log.append([getattr(threading.current_thread(), "verif_tid", -1), ti])
            handler.__name__ = "h_%d" % ti
            return pyc.register_handler(pyc.after_assign_rhs, reentrant=bool(td.get("h_re")))(handler)
        cls = type("Th%d_%d" % (ci, ti), (pyc.BaseTracer,), {"h": make(), "multiple_threads_allowed": td["multi"], "allow_reentrant_events": td["allow_re"]})
        tracers.append(cls.instance())
    arrived = [threading.Event() for _ in range(nthreads)]
    go = [threading.Event() for _ in range(nthreads)]
    finished = [threading.Event() for _ in range(nthreads)]
    errors = []

    def tracefn(tid):
        state = {"next": 0}

        def local(frame, evt, arg):
            if evt == "line" and frame.f_lineno == L[STEPS[state["next"]]] and frame.f_code.co_name in ("_emit_event", "_emit_tracer_loop"):
                state["next"] = (state["next"] + 1) % 8
                arrived[tid].set()
                if not go[tid].wait(20):
                    errors.append("thread %d timed out waiting" % tid)
                go[tid].clear()
            return local

        def glob(frame, evt, arg):
            if frame.f_code.co_filename == ee.__file__ and frame.f_code.co_name in ("_emit_event", "_emit_tracer_loop"):
                return local
            return None
        return glob

    from contextlib import ExitStack
    with ExitStack() as st:
        for t in tracers:
            st.enter_context(t.tracing_enabled())
        codes = [compile(pyc.parse("\n".join("x%d = 0" % k for k in range(n)) or "pass"), "<sandbox-t%d>" % tid, "exec")
                 for tid, n in enumerate(case["threads"])]

        def body(tid):
            threading.current_thread().verif_tid = tid
            sys.settrace(tracefn(tid))
            try:
                exec(codes[tid], {})
            except BaseException as e:
                errors.append("thread %d: %s: %s" % (tid, type(e).__name__, e))
            finally:
                sys.settrace(None)
                finished[tid].set()
                arrived[tid].set()

        def controller():
            pos = [0] * nthreads          # position in the 9 model steps of the current emission
            left = list(case["threads"])  # emissions not yet started
            # let every thread run to its first park point (or finish if it has nothing to do)
            for tid in range(nthreads):
                arrived[tid].wait(20)
            for tid in case["sched"]:
                if tid >= nthreads:
                    continue
                if pos[tid] == 0:
                    if left[tid] == 0:
                        continue
                    left[tid] -= 1
                    pos[tid] = 1           # model's "start" step: the real thread is already parked before SaveA
                    continue
                if finished[tid].is_set():
                    continue
                arrived[tid].clear()
                go[tid].set()
                if not arrived[tid].wait(20):
                    errors.append("controller timed out on thread %d" % tid)
                    break
                pos[tid] = (pos[tid] + 1) % 9
            # whatever is left runs freely, main thread last
            for tid in list(range(1, nthreads)) + [0]:
                for _ in range(200):
                    if finished[tid].is_set():
                        break
                    arrived[tid].clear()
                    go[tid].set()
                    arrived[tid].wait(20)

        workers = [threading.Thread(target=body, args=(tid,)) for tid in range(1, nthreads)]
        ctl = threading.Thread(target=controller)
        for w in workers:
            w.start()
        ctl.start()
        body(0)
        ctl.join(60)
        for w in workers:
            w.join(20)
        sw_main = read_switches()
        # one more main-thread emission afterwards: is delivery back to normal?
        n0 = len(log)
        threading.current_thread().verif_tid = 0
        exec(compile(pyc.parse("y = 0"), "<sandbox-after>", "exec"), {})
        after = [e for e in log[n0:]]
        del log[n0:]
    for t in tracers:
        type(t).clear_instance()
    reset_switches()
    return {"log": log, "switches_main": sw_main, "after": after, "errors": errors}


def main():
    cases = json.load(sys.stdin)
    out = []
    try:
        L = locate()
    except Exception as e:
        print("@@" + json.dumps([{"crash": "locate: %s" % e}] * len(cases)))
        return
    for i, c in enumerate(cases):
        try:
            out.append(run_case(c, i, L))
        except BaseException as e:
            import traceback
            out.append({"crash": "%s: %s" % (type(e).__name__, e), "tb": traceback.format_exc()[-800:]})
    print("@@" + json.dumps(out))


main()
