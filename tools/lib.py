# Shared machinery for every ./check Cxx run (see DESIGN.md section 5).
import hashlib
import json
import os
import random
import re
import subprocess
import sys
import time
import zlib

VERIF = os.path.dirname(os.path.dirname(os.path.abspath(__file__)))
REPO = os.environ.get("VERIF_REPO", "/repo")
COQ = os.path.join(VERIF, "coq")
WORK = os.path.join(VERIF, ".work")
PY = "/venv/bin/python"
COQ_TIMEOUT = int(os.environ.get("VERIF_COQ_TIMEOUT", "900"))
GATE_RE = re.compile(
    r"\b(Admitted|admit|Axiom|Axioms|Parameter|Parameters|Conjecture|Hypothesis|Variable|Hypotheses|Variables)\b"
    r"|Unset\s+Guard|bypass_check|type-in-type|impredicative-set|Admit\s+Obligations"
)


def sh(cmd, timeout=600, cwd=None, env=None, input=None):
    e = dict(os.environ)
    if env:
        e.update(env)
    try:
        p = subprocess.run(
            cmd, shell=isinstance(cmd, str), cwd=cwd, env=e, input=input,
            stdout=subprocess.PIPE, stderr=subprocess.STDOUT, timeout=timeout, text=True,
        )
        return p.returncode, p.stdout
    except subprocess.TimeoutExpired as ex:
        out = ex.stdout or ""
        if isinstance(out, bytes):
            out = out.decode("utf8", "replace")
        return 124, out + "\n[timeout after %ss]" % timeout


def impl_env():
    return {
        "PYTHONPATH": REPO + ":" + os.path.join(VERIF, "tools", "impl"),
        "PYTHONHASHSEED": "0",
        "PYTHONDONTWRITEBYTECODE": "1",
        "PYCCOLO_VERIF": "1",
    }


def impl_run(script, payload, timeout=600, extra_env=None, args=()):
    """Run tools/impl/<script> under the repo's interpreter with JSON on stdin; JSON from the last stdout line
    that starts with '@@'."""
    env = impl_env()
    if extra_env:
        env.update(extra_env)
    path = os.path.join(VERIF, "tools", "impl", script)
    rc, out = sh([PY, "-B", path, *args], timeout=timeout, env=env, input=json.dumps(payload), cwd=WORK)
    res = None
    for line in out.splitlines():
        if line.startswith("@@"):
            res = json.loads(line[2:])
    return rc, res, out


def seed_for(prop, seed):
    return seed * 1000003 + zlib.crc32(prop.encode())


def rng_for(prop, seed):
    return random.Random(seed_for(prop, seed))


def digest(obj):
    return hashlib.sha1(json.dumps(obj, sort_keys=True, default=str).encode()).hexdigest()[:12]


# ---------------------------------------------------------------- translators

def run_translators():
    """Regenerate coq/gen/*.v from REPO's current sources. Returns list of error strings (fail-closed)."""
    sys.path.insert(0, os.path.join(VERIF, "tools"))
    import translators

    return translators.run_all(REPO, os.path.join(COQ, "gen"))


# ---------------------------------------------------------------- coq

def coq_setup():
    if not os.path.exists(os.path.join(COQ, "Makefile")) or os.path.getmtime(
        os.path.join(COQ, "Makefile")
    ) < os.path.getmtime(os.path.join(COQ, "_CoqProject")):
        rc, out = sh("coq_makefile -f _CoqProject -o Makefile", cwd=COQ, timeout=60)
        if rc != 0:
            return False, out
    return True, ""


def coq_make(targets, jobs=16):
    ok, out = coq_setup()
    if not ok:
        return False, out
    rc, out = sh(["make", "-j%d" % jobs, *targets], cwd=COQ, timeout=COQ_TIMEOUT)
    return rc == 0, out


def coq_flags():
    return ["-Q", ".", "PyccoloV"]


def coqc_file(path, timeout=300):
    rc, out = sh(["coqc", *coq_flags(), path], cwd=COQ, timeout=timeout)
    return rc, out


def coq_eval(name, text, timeout=300):
    """Compile a generated file .work/<name>.v against the built project; returns (rc, stdout)."""
    os.makedirs(WORK, exist_ok=True)
    name = "%s_p%d" % (name, os.getpid())      # two checks running in the same tree must not share scratch files
    path = os.path.join(WORK, name + ".v")
    with open(path, "w") as f:
        f.write(text)
    rc, out = sh(["coqc", "-Q", COQ, "PyccoloV", "-Q", WORK, "Work", path], cwd=WORK, timeout=timeout)
    for ext in (".vo", ".vok", ".vos", ".glob"):
        try:
            os.remove(os.path.join(WORK, name + ext))
        except OSError:
            pass
    try:
        os.remove(os.path.join(WORK, "." + name + ".aux"))
    except OSError:
        pass
    if rc == 0:
        try:
            os.remove(path)            # the generated file is kept only when coqc failed on it (for inspection)
        except OSError:
            pass
    return rc, out


def coq_eval_many(named_texts, timeout=300, jobs=16):
    """Run several generated files in parallel; returns {name: (rc, out)}."""
    from concurrent.futures import ThreadPoolExecutor

    res = {}
    with ThreadPoolExecutor(max_workers=jobs) as ex:
        futs = {n: ex.submit(coq_eval, n, t, timeout) for n, t in named_texts}
        for n, fu in futs.items():
            res[n] = fu.result()
    return res


def parse_marked(out, mark="@@R"):
    """Coq side prints results as strings via a Definition evaluated to a list; we instead look for lines we
    produce with `Eval vm_compute in` whose values are lists of N/Z/bool.  Helper: extract everything after '= '
    up to the type annotation for each Eval, in order."""
    vals = []
    cur = None
    for line in out.splitlines():
        if line.lstrip().startswith("= "):
            if cur is not None:
                vals.append(cur)
            cur = line.lstrip()[2:]
        elif cur is not None:
            if line.lstrip().startswith(": "):
                vals.append(cur)
                cur = None
            else:
                cur += " " + line.strip()
    if cur is not None:
        vals.append(cur)
    out2 = []
    for v in vals:
        # strip a trailing ": type" that fits on the same line
        m = re.match(r"^(.*?)\s*:\s*[A-Za-z(][^=\[\]]*$", v)
        out2.append((m.group(1) if m else v).strip())
    return out2


def parse_coq_list(s):
    """Parse Coq-printed nested lists/tuples of numbers, booleans and constructor names into Python lists.
    Scope annotations (%N, %Z, %nat) are dropped."""
    s = re.sub(r"%[A-Za-z_]+", "", s)
    toks = re.findall(r"\[|\]|\(|\)|;|,|-?\d+|[A-Za-z_][A-Za-z0-9_']*", s)
    pos = 0

    def atom():
        nonlocal pos
        t = toks[pos]
        if t == "[":
            pos += 1
            items = []
            while toks[pos] != "]":
                items.append(expr())
                if toks[pos] == ";":
                    pos += 1
            pos += 1
            return items
        if t == "(":
            pos += 1
            items = [expr()]
            while toks[pos] == ",":
                pos += 1
                items.append(expr())
            assert toks[pos] == ")", toks[pos - 3 : pos + 3]
            pos += 1
            return items[0] if len(items) == 1 else tuple(items)
        pos += 1
        if re.match(r"-?\d+$", t):
            return int(t)
        if t == "true":
            return True
        if t == "false":
            return False
        return t

    def expr():
        nonlocal pos
        head = atom()
        # constructor application: Name arg arg ...
        if isinstance(head, str):
            args = []
            while pos < len(toks) and toks[pos] not in ("]", ")", ";", ","):
                args.append(atom())
            if args:
                return (head, *args)
        return head

    v = expr()
    return v


def print_assumptions(prop_file):
    """Force-recompile props/Cxx.v and return (ok, {theorem: 'closed'|[axioms]}, raw)."""
    rc, out = coqc_file(prop_file, timeout=COQ_TIMEOUT)
    if rc != 0:
        return False, {}, out
    res = {}
    # output alternates; we tag each Print Assumptions by a preceding Check-free idiom: parse sequentially
    names = re.findall(r"Print Assumptions\s+([A-Za-z0-9_']+)\s*\.", open(os.path.join(COQ, prop_file)).read())
    blocks = re.split(r"(?m)^(?=Closed under the global context|Axioms:)", out)
    blocks = [b for b in blocks if b.startswith("Closed under") or b.startswith("Axioms:")]
    for n, b in zip(names, blocks):
        if b.startswith("Closed under"):
            res[n] = "closed"
        else:
            res[n] = [l.split(":")[0].strip() for l in b.splitlines()[1:] if l and not l.startswith(" ") and ":" in l]
    ok = len(names) == len(blocks)
    return ok, res, out


def grep_gate():
    """No Admitted/admit/Axiom/... anywhere in the development (Section Variables/Hypotheses are allowed only
    inside files listed in SECTION_OK and are reported)."""
    bad = []
    section_ok = set()
    ok_path = os.path.join(COQ, "SECTION_VARIABLES_OK")
    if os.path.exists(ok_path):
        section_ok = {l.strip() for l in open(ok_path) if l.strip() and not l.startswith("#")}
    for root, _, files in os.walk(COQ):
        for fn in files:
            if not fn.endswith(".v"):
                continue
            p = os.path.join(root, fn)
            rel = os.path.relpath(p, COQ)
            text = open(p).read()
            text_nc = re.sub(r"\(\*.*?\*\)", "", text, flags=re.S)
            for m in GATE_RE.finditer(text_nc):
                w = m.group(0)
                if w.split()[0] in ("Variable", "Variables", "Hypothesis", "Hypotheses") and rel in section_ok:
                    continue
                bad.append("%s: %s" % (rel, w))
    return bad


def closure_files(prop_file):
    """Transitive .v dependencies of a property file inside the project (via coqdep)."""
    rc, out = sh("coqdep -Q . PyccoloV $(find . -name '*.v')", cwd=COQ, timeout=120)
    deps = {}
    for line in out.splitlines():
        if ":" not in line:
            continue
        lhs, rhs = line.split(":", 1)
        tgt = [t for t in lhs.split() if t.endswith(".vo")]
        if not tgt:
            continue
        src = os.path.normpath(tgt[0][:-1])
        deps[src] = [os.path.normpath(d[:-1]) for d in rhs.split() if d.endswith(".vo")]
    seen, todo = set(), [os.path.normpath(prop_file)]
    while todo:
        f = todo.pop()
        if f in seen:
            continue
        seen.add(f)
        todo.extend(deps.get(f, []))
    return sorted(seen)


def count_obligations(files):
    n = 0
    for f in files:
        text = open(os.path.join(COQ, f)).read()
        text = re.sub(r"\(\*.*?\*\)", "", text, flags=re.S)
        n += len(re.findall(r"\b(Qed|Defined)\s*\.", text))
    return n


# ---------------------------------------------------------------- known findings / reporting

def load_known(prop):
    p = os.path.join(VERIF, "known_findings.json")
    if not os.path.exists(p):
        return []
    return [e for e in json.load(open(p))["findings"] if e["property"] == prop]


def write_replay(prop, obj):
    d = os.path.join(VERIF, "replays")
    os.makedirs(d, exist_ok=True)
    path = os.path.join(d, "%s-%s.json" % (prop, digest(obj)))
    with open(path, "w") as f:
        json.dump(obj, f, indent=1, sort_keys=True, default=str)
    return path


def write_evidence(prop, tier, seed, coverage, wall_s, violations, assumptions):
    d = os.path.join(VERIF, "evidence")
    os.makedirs(d, exist_ok=True)
    ev = {
        "property_id": prop,
        "tier": tier,
        "seed": seed,
        "level": "proof",
        "coverage": coverage,
        "assumptions": assumptions,
        "wall_s": round(wall_s, 2),
        "violations": violations,
    }
    with open(os.path.join(d, prop + ".json"), "w") as f:
        json.dump(ev, f, indent=1, sort_keys=True, default=str)
        f.write("\n")


class Clock:
    def __init__(self):
        self.t0 = time.time()

    def __call__(self):
        return time.time() - self.t0
