#!/venv/bin/python
# Regenerates /verif/MANIFEST.json from the table below (one entry per claimed property).
import json
import os

V = os.path.dirname(os.path.dirname(os.path.abspath(__file__)))
ALL = ["C%02d" % i for i in range(1, 21)]

CHECKS = {
    "C01": dict(
        technique="Coq-verified erasure certificate: soundness theorem of the checker for every semantics satisfying explicit laws + one vm_compute certificate per rewritten program; differential oracle",
        text="check_erase (model/Erase.v) takes the REAL output of pyccolo's rewriter for a program (exported from CPython ASTs) and erases every emit site, guard "
             "conditional, NameError fallback, try/finally bracket, before_stmt expansion and saved-slice plumbing bottom-up, failing closed on any shape it does not "
             "recognise and on any guard-off / fallback copy that differs from the instrumented branch; the result must equal the source after the three deliberate "
             "source changes. C01_erase_sound (Qed, closed): for every semantics of Python ASTs and observational equivalence satisfying the listed laws "
             "(non-interference of constructs, one validity law per instrumentation shape, the norm law), a passed check implies the rewritten program is equivalent "
             "to the source. The quick check obtains such a certificate in coqc for every generated program x direct-event subset x guard setting (~120, all "
             "constructs of the generator incl. classes, match, comprehensions, try/finally, nested functions), and the oracle runs plain vs instrumented. "
             "In addition C01_rw_frag / C01_rw_frag_certified are UNBOUNDED statements about a Gallina model of the rewriter itself (model/RwFrag.v: both passes on names, "
             "constants, binary operations, comparison chains, unary / boolean / conditional expressions, expression statements, assignments, pass, nested if / else, with the "
             "before_stmt / after_stmt / after_module_stmt expansion and direct and deferred emits): for every fragment program and every subscription set the erasure of the "
             "model's output is the source; the model is tied to expr_rewriter.py / stmt_inserter.py by whole-tree equality with the real rewriter's output on 80 generated "
             "fragment programs per run (K-syn). C01_frag_semantics (model/FragSem.v) is an UNCONDITIONAL semantic statement on the fragment: for all primitive operations, every "
             "subscription, every source module and environment, the instrumented term ends with the exception and the bindings of the module as it is - a theorem about an "
             "evaluator under observing handlers, tied per generated program (K-sem, 60 per run) to the real rewriter (output tree = the typed rewriter's), to CPython and to the "
             "real runtime (exception type, final bindings, recorded event stream = the evaluator's). C01_fun_semantics (model/FragFun.v) extends it to module-level functions, "
             "return, calls of named functions as right-hand sides and recursion on call-depth fuel, under every subscription, guard setting and guard policy (K-fun: whole-tree "
             "equality with the real rewriter, exception class, bindings and stream vs real runs, 16 programs per run); C01_prog_semantics (model/FragProg.v) is the same statement for "
             "loops and functions together (while / else / break / continue in function bodies, return from inside loops, calls from loops, recursion; K-prog, 24 programs per run). "
             "Docstring positions are a fact about syntax that no law sees (EMIT(.., ret='s') has the value of 's' but is no docstring): check_docs (model/Erase.v) is evaluated with "
             "every certificate; C01_docstrings_kept / C01_docstrings_erased (Qed, closed): in every accepted output, for every function / class / module body anywhere in it "
             "(pristine and guard-exempt copies included), a docstring at the head of the erased body is the first statement as written, and conversely; C01_rw_frag_docstring: "
             "the model keeps a module docstring first, before init_module (K-syn generates such modules).",
        note="Outside the fragment the universal claim over programs is established program by program (translation validation with a verified checker), not by one theorem about a model "
             "of the rewriter; the laws are facts about CPython's evaluation, validated by the differential oracle, not proved. Trusted: Coq kernel + vm_compute; the "
             "AST exporter (interning, id canonicalisation); translators for node kinds, event names and reserved identifiers.",
        ref="DESIGN.md section 7 C01"),
    "C02": dict(
        technique="Coq proofs (delivery of one occurrence: exactly once, stack order, value unchanged; site-value soundness of a verified checker) + per-program site / erasure certificates in coqc + complete-stream differential against an independent reference instrumenter",
        text="Delivery: C02_emit_observing / C02_delivered_iff / C02_delivery_order / C02_value - for every stack of observing tracers and every handler list, one occurrence "
             "reaching emit_event is delivered to each enabled handler exactly once (strictly increasing (tracer, handler) order), carrying the program's value, and the value "
             "is handed back unchanged; derived from model/Rt.v, whose decision functions are regenerated from tracer.py on every run. Static: check_sites (model/Sites.v) is "
             "evaluated by coqc on every rewritten program of the run: at every emit site the expression handed to the handler, once its own instrumentation is erased, is the source "
             "construct numbered by the embedded node id (or its designated child) that the event table names; C02_site_value turns a passed check into semantic equivalence. "
             "Dynamic: ~90 generated programs (every supported event alone, then subsets) - the complete recorded stream (event, node type, span, value) must equal, in order, "
             "the stream of tools/impl/ref_instr.py (probes placed on the source AST from the event table alone), including brackets ended by return/break/continue/exception. "
             "C02_frag_stream (model/FragSem.v) is UNBOUNDED on a fragment of Python: for all primitive operations, subscriptions, source modules and environments the subscribed "
             "events arrive exactly as the reference evaluator writes them out construct by construct (once per occurrence, in order, with value and node, also when the program raises); "
             "tied to the real rewriter, CPython and the runtime by K-sem. C02_fun_stream (model/FragFun.v): with functions, calls and return the subscribed events are those of the "
             "reference fref_module - call, argument, function-body and return events in evaluation order, after_function_execution once per invocation however it ends (K-fun, 16 per run); C02_prog_stream (model/FragProg.v): loops and functions together, a return from "
             "inside a loop passes after_while_loop_iter and then after_function_execution (K-prog, 24 per run).",
        note="Trusted: Coq kernel + vm_compute; ref_instr.py as the definition of what each event means (67 events with an unambiguous source meaning: every AST event except before_lambda_body and the import events); astexport; the laws of EraseSound.v "
             "(Section hypotheses). Choices: bare except = except BaseException with no source node; before_subscript_* fire after the subscript expression.",
        ref="DESIGN.md section 7 C02"),
    "C03": dict(
        technique="Coq-verified projection certificate (K-erasure of the two real rewriter outputs coincide; soundness theorem for every semantics satisfying explicit laws) + only-subscribed-sites certificate + stream projection oracle",
        text="For a program and event sets E1 within E2 the REAL rewriter is run twice; check_proj (model/Prune.v) K-erases both outputs for K = E1 - every emit site "
             "outside K, every guard conditional, NameError fallback, try/finally bracket, before_stmt expansion and saved-slice plumbing is removed bottom-up, kept "
             "sites stay where they are, unrecognised shapes fail closed - and the two results must be the same tree. C03_proj_sound (Qed, closed): for every semantics "
             "of Python ASTs and every equivalence 'same behaviour, same sub-stream of the K events' under which each root rewrite of the K-erasure is valid, a passed "
             "check implies the two rewritten programs are equivalent, i.e. the stream under E1 is the stream under E2 filtered to E1. C03_only_subscribed: a passed "
             "check_only_subscribed means every emission site is for a subscribed event or a helper serving one. The quick check obtains both certificates in coqc for "
             "every AST event alone vs all events on six feature programs plus generated programs x subset pairs, and the oracle compares the two recorded streams occurrence "
             "by occurrence. C03_rw_frag_canonical / C03_rw_frag_proj are UNBOUNDED: on the Gallina model of the rewriter for a fragment of Python (model/RwFrag.v, tied to the "
             "real rewriter by whole-tree equality in C01's K-syn) K-erasing the rewrite under ANY subscription set containing K gives one and the same tree, for every "
             "fragment program and every K. C03_frag_projection (model/FragSem.v) states the same about EVALUATION with no law assumed: the stream received for K from the term "
             "instrumented for any superset equals the stream with K alone (K-sem ties the evaluator to real runs). C03_prog_projection (model/FragProg.v) extends the evaluation statement to programs with while loops, break / continue, functions, return and calls, for every fixed guard "
             "state (no handler flips a guard); K-prog (16 programs per run) is its tie.",
        note="Outside the fragment the universal claim over programs is established pair by pair (translation validation with a verified checker). The laws are facts about CPython's "
             "evaluation under observing handlers in an enabled context (guards never activated), validated by the stream oracle, not proved. Trusted: Coq kernel + "
             "vm_compute; astexport (one interner for both rewrites); translators for node kinds, event names, reserved identifiers.",
        ref="DESIGN.md section 7 C03"),
    "C04": dict(
        technique="Coq proof (refinement of the runtime fold to the stated rule, induction over handler and tracer lists) with decision tables regenerated from source + in-coqc correspondence",
        text="C04_fold and C04_before_stmt are Qed-closed for every stack of tracers, handler list, outcome function and initial value. "
             "handle_normal/skipall_emit_return and make_ret are regenerated from tracer.py/emit_event.py on every run, so the proof is re-checked "
             "against the current source; the loops are a transcription tied by running 600 generated arrangements through real tracer classes and "
             "through the model in coqc (value, call log, switches). The ten-line reference fold is the search oracle. C04_tracer_fold_any_event / C04_stack_fold_any_event: since the return rule no longer singles out call / exception the fold theorems hold for EVERY event; K-sysfold drives tracer._sys_tracer with scripted handlers on call / exception / return / line and compares with tracer_emit.",
        note="Trusted: Coq kernel + vm_compute; translator gen_emitret.py; hand transcription of the two loops (validated by correspondence); harness. "
             "Handlers returning the internal (SkipAll, x) tuple are outside the fragment; should_propagate_handler_exception is modelled as propagation.",
        ref="DESIGN.md section 7 C04"),
    "C05": dict(
        technique="Coq proofs about the runtime fold (a tracer's deliveries stacked = alone; strict stack order; unsubscribed tracers silent) + Coq-verified solo-vs-stacked projection certificates on the real rewriter outputs + solo/stacked/union stream oracle",
        text="Delivery: C05_emit_observing / C05_solo_delivery / C05_order / C05_unsubscribed_silent / C05_value - for every stack of observing tracers, every handler list and "
             "every value, the calls one occurrence causes are stack_calls; restricted to tracer k they are exactly the calls it gets as the only tracer; they are strictly "
             "sorted by (stack position, handler position); derived from model/Rt.v, whose decision functions are regenerated from tracer.py on every run. Rewrite: the "
             "rewriter is driven by the union of subscriptions; for every tracer i of every generated stack check_proj K_i (output alone) (output stacked) is evaluated in "
             "coqc on the REAL outputs, and C05_proj_sound turns a passed check into equality of tracer i's stream for every semantics satisfying the stated laws. "
             "Dynamic: ~40 stacks of 2-3 tracers (overlapping, disjoint, nested, identical subsets; independent guard flags) are run stacked, each tracer alone, and as one "
             "tracer subscribed to the union: per-tracer streams (event, node, value) must be identical and the global delivery log must be the union stream expanded in "
             "stack order. C05_frag_stack (model/FragSem.v) is UNBOUNDED on a fragment of Python: a module instrumented for the union of a stack's subscriptions delivers to "
             "tracer i what it is delivered alone, for all primitive operations, stacks, modules and environments (tied by K-sem); a pair battery (single-event tracers x "
             "single / dense tracers on six feature programs) runs the oracle on the combinations that matter for statement-level events. C05_prog_stack: likewise for programs with loops and functions (model/FragProg.v, corollary of the projection theorem; K-prog, 16 programs per run)."
             "",
        note="Trusted: Coq kernel + vm_compute; model/Rt.v loops tied by C04's correspondence; astexport; the laws of the projection theorem (validated by the oracle). "
             "Observing, unconditional handlers; all tracers accept the file.",
        ref="DESIGN.md section 7 C05"),
    "C06": dict(
        technique="Coq proof (invariant + 'a context body restores the state' by induction over history trees) relating the context machine to a stack-of-booleans reference + in-coqc correspondence",
        text="C06_delivery: for every history tree (enabled/disabled/exec-style contexts of any number of AST- and system-level tracers, site executions, "
             "raises, try blocks) from any state satisfying the invariant, the set of tracers whose handlers run at every executed top-level / function / "
             "lambda / loop-in-function site equals what the per-tracer stack of booleans says; C06_initial: a fresh process satisfies the hypotheses. "
             "model/Ctx.v transcribes tracing_non_context, the cleanup callback, _enable/_disable_tracing and the guard tests of rewritten code; it is tied "
             "to tracer.py by 300 generated histories run on real tracers, comparing process state snapshots, per-site deliveries (AST and system-trace) "
             "and post-run behaviour. The stack-of-booleans reference in Python is the search oracle.",
        note="Trusted: Coq kernel + vm_compute; hand transcription (validated by correspondence); harness. Guards never activated (C10); no user sys.settrace "
             "calls inside histories (C09); system-trace deliveries are compared model-vs-implementation and by the oracle but are not yet part of the theorem.",
        ref="DESIGN.md section 7 C06"),
    "C07": dict(
        technique="Coq proof (core_eq: every context body restores the process-global fields; induction over history trees) + in-coqc correspondence with state snapshots",
        text="C07_restore: every history tree run from a state with no active context ends with the tracer stack, every tracer's flags, the emit hook, guard "
             "names, thunk/lambda helpers, the interpreter's trace function, the patched settrace/gettrace stack and the meta-path finder count as before - "
             "with raises at any position, caught at any depth or escaping everything. C07_flags_defined + C07_after: code compiled while tracing takes its "
             "pristine branch afterwards (no delivery, no NameError). Tied to tracer.py/import_hooks.py by 300 generated histories (system-level tracers, "
             "pre-installed trace function, imports with a raising finder) with snapshots of builtins, sys.gettrace/settrace, sys.meta_path, importlib cache "
             "functions and the re-entrancy switches before and after.",
        note="Trusted: Coq kernel + vm_compute; hand transcription (validated by correspondence); harness. The boolean flags TRACING_ENABLED / "
             "FUNCTION_TRACING_ENABLED staying in builtins as False are not counted as hooks or guards. sys.meta_path contents and importlib cache functions are "
             "observed on the implementation only (the model has a finder count).",
        ref="DESIGN.md section 7 C07"),
    "C08": dict(
        technique="Coq-verified erasure certificate for the thunk shapes + theorem on the regenerated _make_ret + override templates",
        text="Semantics preservation of the fifteen deferred events uses the same verified certificate checker as C01 (C08_erase_sound), evaluated in coqc on "
             "every generated program instrumented with subsets of the deferred events (zero-argument thunks, the two-argument binop thunk, the compare thunk). "
             "C08_make_ret is proved about _make_ret as REGENERATED from emit_event.py on every run: a callable handler result is used as the computation, any "
             "other value is wrapped into a constant computation, non-deferred events are unchanged. The oracle runs plain vs instrumented (the recorder calls "
             "in generated expressions make evaluation count and order observable) and 72 override templates (15 events x thunk / functools.partial / value / Null / nothing). "
             "C08_frag_overrides (model/FragOv.v) is UNBOUNDED on a fragment of Python: for all primitive operations, ALL handler tables (what each value event's handler hands back, what "
             "each deferred event's handler hands back), subscriptions, modules and environments, the instrumented module ends with the exception and bindings of the override reference "
             "(source semantics in which subscribed handlers act on the values; an overridden deferred event still evaluates the operands outside the thunk and nothing inside it) and "
             "delivers its stream; tied to real runs with table-driven overriding handlers by K-ov (60 programs per run).",
        note="As C01. Comparison chains under before_compare were a finding (every comparator evaluated up front); fixed, the erasure now certifies the repaired shape.",
        ref="DESIGN.md section 7 C08"),
    "C09": dict(
        technique="Coq proof (induction over frame trees with a relation between a frame's local trace function with and without pyccolo) on a model of CPython's trace protocol + composed tracers; correspondence against real sys.settrace runs",
        text="C09_handler_log: for every run (tree of frames with line/exception events and nested calls), every subscription subset of "
             "{call,line,return,exception} and every pre-installed third-party function, the handler log equals the plain recorder's event stream "
             "filtered to the subscription. C09_third_party: the third-party function (returning itself, a distinct local function, or declining frames) "
             "receives exactly the events it receives without pyccolo, each through the same one of its functions. The model is tied to tracer.py and "
             "to the interpreter by rebuilding the frame tree of 90 real runs from a plain recorder's log and comparing model logs with the handler / "
             "third-party logs observed under pyccolo; the oracle also compares program results, exception call chains and sys.gettrace() afterwards, "
             "including third-party functions installed mid-run by user code and histories of sys.settrace(A) / sys.settrace(B) / sys.settrace(None) calls made by the "
             "program between its statements, also inside frames of a file the tracer does not accept (logs of A and B and sys.gettrace() afterwards equal the run without pyccolo). "
             "C09_histories (model/SysHist.v: plain machine with a mutable global trace function vs pyccolo machine): for every family of third-party functions, subscription, run with "
             "sys.settrace calls anywhere and initial function, the function in place afterwards, the third-party log and the handler log are the plain machine's; stated over flags "
             "regenerated from tracer.py (gen_syshist.py); C09_histories_refuted keeps the two repaired defects as witnesses; every real history is replayed on the model. gen/SysFlags.v also reports sys_noncall_returns_none and sys_rebinds_local; third parties whose local function hands over to another local function (tp_switch) are part of C09_histories and of the real histories; C09_no_rebind_refuted keeps the witness.",
        note="Trusted: Coq kernel + vm_compute; the transcription of trace_trampoline (validated by the correspondence itself); hand transcription of "
             "_sys_tracer/_make_composed_tracer; harness. Program results are decided by the oracle, not by a theorem; handlers are observing; translator gen_syshist.py.",
        ref="DESIGN.md section 7 C09"),
    "C10": dict(
        technique="Coq-verified erasure certificate (guard branches must agree) + theorem characterising the guard rule + runs under guard schedules",
        text="C10_guard_branches_agree: the erasure collapses a guard conditional (statement or expression form) only when the pristine branch, after the "
             "deliberate source changes, is identical to the erasure of the instrumented branch. With C10_erase_sound (the C01 theorem) every certified "
             "program is equivalent to its source whatever the guard flags are. The quick check certifies ~90 generated programs rewritten with guards "
             "enabled and runs them with handlers that activate / deactivate the guards they are handed according to random schedules (results must equal the "
             "plain run), plus silence templates (a function guard activated at invocation k silences invocations k+1..) and 60 generated programs whose loop guards are "
             "activated at first hand-out (half of them with guard-exempt handlers, 30% with documented functions / classes defined inside a loop; their outputs - guarded-off copies "
             "with the emissions kept for exempt handlers included - are certified too: check_erase and check_docs, C10_docstrings_kept / C10_docstrings_erased: a docstring of "
             "the source is the first statement, as written, of the corresponding body in EVERY copy). On a fragment with while loops (model/FragLoop.v) guards are THEOREMS, for all primitive operations, subscriptions, guard settings, "
             "ARBITRARY guard policies (any function from the stream delivered so far to the guards that are on), modules, environments and fuel: C10_frag_results (any two runs "
             "end with the same exception and bindings), C10_frag_plain (those of the program as it is), C10_frag_stream (the subscribed events = the reference gated by the guards: "
             "iterations starting under an inactive body guard are silent, delivery resumes after deactivation). K-loop ties model, evaluator and reference to the real rewriter, "
             "CPython and the real runtime on 40 generated programs per run under guard rules executed by real handlers; a real run differing from the gated reference is a violation. "
             "Likewise for FUNCTION guards (model/FragFun.v: module-level functions, return, calls, recursion on call-depth fuel): C10_fun_results, C10_fun_plain, C10_fun_stream - an "
             "invocation that starts while the function's guard is off delivers nothing from that body (its callees according to their own guards), one that starts loud is closed by "
             "after_function_execution however it ends, results are those of the untouched program; K-fun runs 30 generated programs per run under function-guard rules. "
             "C10_prog_results / _plain / _stream (model/FragProg.v) are the same three statements for loops and functions TOGETHER under one policy over test, body and function guards "
             "(the pristine copy of a loop body keeps guarded tests on nested loops, that of a function body is plain); K-prog: 40 programs per run.",
        note="As C01. Outside the two fragments (for loops, comprehensions, lambdas, nested / decorated functions, calls inside expressions) silence is decided by the templates and the "
             "loop-silence oracle, not by a theorem. model/FragLoop.v counts fuel per loop execution, model/FragFun.v per call depth; both treat TRACING_ENABLED as true (inside a context); "
             "FragFun.v assumes the guard names bound (the NameError fallback re-raises) and reads a rewritten definition's local names off its pristine copy (assigned_fis proves the "
             "instrumented copy assigns no other name).",
        ref="DESIGN.md section 7 C10"),
    "C11": dict(
        technique="Coq proofs over a model whose every boolean decision is regenerated from predicate.py / tracer.py / ast_rewriter.py (meaning of conditions, any/all, exact invocation set, local guards; refutation witnesses for the recorded findings) + in-coqc correspondence with the real predicate objects and real tracers + reference-stream oracle on generated programs",
        text="C11_condition_meaning (p(node) is the boolean meaning; dynamic_call is True for wholly static conditions and the meaning otherwise), C11_any / C11_all (the classmethods "
             "with their coalescing are the disjunction / conjunction of the parts), C11_invoked_char (a handler runs at a node iff some handler of the event accepts the node and "
             "its own condition is wholly static or holds), hence C11_exact_partial (exact for every condition with a dynamic part, whatever else is registered), C11_exact_sole (exact "
             "for any condition when alone on its event), C11_no_miss, C11_guard_partial (skipped, and the pristine expression evaluated, exactly while the guard is set, when the "
             "site's guarded handlers name one guard) are Qed-closed for every predicate structure, handler list, truth assignment and guard state. C11_exact_refuted, "
             "C11_guard_refuted and C11_any_empty_refuted are the witnesses of the three recorded findings. gen/PredGen.v is regenerated on every run, so the proofs are re-checked "
             "against the current sources; model/Pred.v is tied to the code by 300 predicate structures evaluated by the real predicate.py and 150 arrangements of real tracers "
             "(conditions + local guards) compared with the model in coqc; the oracle compares, on 120 generated programs, the occurrences every conditional handler saw with "
             "the reference stream filtered by the condition evaluated on the plain AST, including the suite's set-the-guard-at-first-load scenario. "
             "Conditions that RAISE on some nodes: evalx / site_x / invoked_x (option-valued, Python's evaluation order, generated *_x decision functions and comp_part_guard); "
             "C11_raising_conditions: invoked_x envx hs p = Some (invoked (total envx) hs p) - the rewrite is never aborted whatever the registration order, a handler runs exactly "
             "where 'raising = not satisfied' says; K-pred / K-inv generate raising conditions.",
        note="Trusted: Coq kernel + vm_compute; translator gen_pred.py; hand-written recursion and site/delivery/guard composition of model/Pred.v (validated by the two "
             "correspondences); ref_instr.py as definition of occurrences. The theorems are 'at one node': that an occurrence of the node reaches emit_event exactly when a site "
             "exists is C02's business.",
        ref="DESIGN.md section 7 C11"),
    "C12": dict(
        technique="Coq proof over the finder / loader decision model (rewritten for exactly the accepting tracers; stock compile otherwise; accepting tracers never switched off) + in-coqc correspondence against real subprocess imports of generated packages + plain / solo / accept-everything process oracle",
        text="C12_iff (an import through an ordinary source loader on the installing thread is rewritten for EXACTLY the tracers of the stack accepting the file, in stack "
             "order, and compiled by the stock compiler when none accepts), C12_plain_iff, C12_other_loader / C12_other_thread (never touched), C12_accepting_stay_enabled are "
             "Qed-closed for every stack and every acceptance function. model/Import.v part 1 transcribes TraceFinder.find_spec, get_tracers_for_path / source_to_code and the "
             "disabling loop of exec_module; it is tied to import_hooks.py by importing generated packages (sub-package, relative / absolute / from-imports, re-imports, a "
             "pre-imported module, a post-context import) in ~130 real processes per run: for every stack of 1-3 tracers with independent filename filters the set of tracers "
             "that got events from each module is compared with compile_of in coqc, and the oracle compares module namespaces with the plain process, every tracer's events with "
             "its events alone and with its accept-everything run restricted to the accepted files, and checks that nothing is instrumented after the context. C12_later_iff / C12_after_context / C12_later_now: a loader handed out under one stack and loading under another (lazy loading) is rewritten for exactly the accepting tracers still on the stack, and is a plain loader after the context; tied by deferred loads of a module whose spec was obtained inside the context.",
        note="Trusted: Coq kernel + vm_compute; hand transcription of the decisions (validated by correspondence); importlib's finder protocol, sys.modules and loaders are not "
             "modelled; the harness. The recorded finding (tracers switched off during foreign modules' import) is outside the theorems: they decide WHO a module is "
             "rewritten for, the finding is about delivery while another module's body runs.",
        ref="DESIGN.md section 7 C12"),
    "C13": dict(
        technique="Coq proof (invariant over the cache state, induction over arbitrary process histories: every process observes what it would on an empty cache) with a refutation witness for the recorded finding + in-coqc correspondence (behaviour flag and cache directory content) against enumerated histories of real processes + fresh-directory oracle",
        text="C13_fresh_partial / C13_fresh_from: for EVERY history of processes over one module - plain imports and imports under any tracer configurations, caching allowed or "
             "forbidden, the cache writable or not, the source edited between any two processes - each process runs the code of its own configuration compiled from the current "
             "source with the node table of that very compilation, i.e. exactly what it observes on an empty cache, provided configurations sharing a cache name are the same "
             "configuration; C13_plain_name: the ordinary cache name belongs to stock compiles only; C13_fresh_refuted: without the proviso the statement fails (recorded finding: "
             "static node conditions are not in the signature). model/Import.v part 2 models make_cache_signature / cache naming, importlib's validate-or-recompile-and-write "
             "and exec_module's node-table handling; it is tied to the code by ~60 histories of 2-4 REAL processes per run over one package directory (two tracer classes, the "
             "same class with other events / guard setting / static condition, no node table, caching forbidden, accept-everything, a stack; writable / read-only / "
             "no-write; edits): per module and process, `behaves as fresh` and the cache directory content (ordinary .pyc, instrumented .pyc files, .pkl files) are compared "
             "with run_trace in coqc, and the oracle compares every process (errors, module namespaces, full event log with node validity) with the same process alone on a "
             "fresh copy at the same source version. Processes whose module body RAISES at import (a missing dependency, 20% of the processes) are part of the model (p_raises: "
             "the table beside a rewritten entry is removed before the body runs and written only after it has run) and of the real histories.",
        note="Trusted: Coq kernel + vm_compute; the hand model of importlib's get_code and of the file system (one writer at a time; a process writes bytecode and node table or "
             "neither; mtime distinguishes versions), validated by the correspondence, not verified; the harness (read-only mode by dropping privileges). Five defects found by "
             "this check were repaired (see known_findings.json); the model describes the repaired code.",
        ref="DESIGN.md section 7 C13"),
    "C14": dict(
        technique="Coq proof (fold invariant over the two Counters of fix_positions, any number of specs/occurrences) with refutation witnesses + in-coqc correspondence of both functions + placement-record oracle",
        text="C14_cols_partial: for every number of specs with arbitrary length changes, every application order and every multiset of occurrences on a "
             "line, fix_positions returns each occurrence's column in the fully transformed line provided sorting the recorded columns keeps the true "
             "order; C14_cols_refuted / C14_cols_tie_refuted show the two ways the side condition fails on the unchanged code (recorded as known "
             "findings). model/Augment.v transcribes both replace_tokens_and_get_augmented_positions and fix_positions and is compared with "
             "syntax_augmentation.py on every replacement pass and every line of 300 generated sources (about 1200 evaluations); the oracle compares "
             "the preprocessed text with textual replacement and get_augmentations over all nodes with the generator's placement record. C14_text_self_identity / C14_text_no_occurrence: the replacement pass copies what stands between and inside opaque tokens from the source (replacing a token by itself gives the source back for every token sequence; a source without occurrences comes back unchanged); the generator has layout cases (indented blocks, tabs, f-strings with braces, backslash continuations, multi-line strings, non-ASCII characters, parenthesized objects).",
        note="Trusted: Coq kernel + vm_compute; hand transcription (validated by correspondence); Python's tokenizer and the parser's column conventions "
             "are inputs; the text-replacement half of the property and the node lookup by column are decided by correspondence and oracle, not by a theorem.",
        ref="DESIGN.md section 7 C14"),
    "C15": dict(
        technique="Coq proof (list/association reasoning over the scaffold of tracer.exec) on a transcribed model + in-coqc correspondence + function-body reference oracle",
        text="C15_result_partial (the returned mapping, the caller's mapping and globals equal those of running the program's bindings as a function body), "
             "C15_raises and C15_clean (no internal name in result / caller's mapping / globals, finishing or raising) are Qed-closed for every supplied "
             "mapping and every sequence of local/global bindings and deletions over ordinary identifiers (the runs use plain, underscore- and dunder-prefixed, upper-case, `_` and non-ASCII names); C15_result_refuted is the recorded finding "
             "(`builtins` / `__` bound by the program are dropped). C15_result_passthrough: supplied names that are no parameters of the scaffold (declared global by the program, "
             "or not possible parameter names: 'class', 'a b', 'None', '__debug__') are handed back unchanged: the result holds name by name what the reference holds. "
             "Tied to tracer.py by 400 generated programs x mappings x {instrumented, not, "
             "NoopTracer}; the oracle runs the same text as a function body in plain Python and also compares eval with the built-in eval. C15_same_mapping / C15_same_mapping_raises: locals IS globals (one mapping object, the default at module level): the mapping afterwards and the result agree name by name with the function-body reference; 30% of the cases pass one dict as both.",
        note="Trusted: Coq kernel + vm_compute; the abstraction of a straight-line program as its binding operations (CPython's function-local scoping "
             "is modelled); generator computing that abstraction; harness. eval is covered by the oracle only.",
        ref="DESIGN.md section 7 C15"),
    "C16": dict(
        technique="Coq proof (induction over behaviour trees: invariant on the two switches and running-handler depth) + in-coqc correspondence with handlers that run instrumented code",
        text="C16_depth (every handler invocation made while another handler runs is opted in: region switch on, or tracer allows re-entrant events and "
             "handler registered reentrant), C16_restore/C16_resume (both switches as before after any emission/region/try, also on propagated raises) are "
             "Qed-closed for all finite behaviour trees and all sequences of top-level statements (emissions, regions, try blocks). Tied to emit_event.py/tracer.py by 300 generated trees "
             "executed by real handlers that pyc.exec instrumented code, comparing invocation log (depth, occurrence), raises and switches; an 'escape' profile makes propagated "
             "handler exceptions leave nested emissions and regions and be caught by a running handler or at top level, which goes on to run instrumented code. 40% of the behaviour trees are started outside emit_event's loop: by the `call` or the `return` event of a sandbox function (system events go through tracer._sys_tracer, which applies the same rule since 601255a) or by the after_import event of a module loaded through the import hook (import_hooks._emit_import_event).",
        note="Trusted: Coq kernel + vm_compute; hand transcription of the switch handling and gating (validated by correspondence); harness. Single thread.",
        ref="DESIGN.md section 7 C16"),
    "C17": dict(
        technique="Coq proof (independence of the main thread's view from other threads' steps, induction over arbitrary schedules) with the switch kind regenerated from source + deterministic-scheduler correspondence",
        text="C17_main: for every number of threads/emissions, tracer configuration and EVERY schedule (list of thread ids over the statement-level steps of "
             "_emit_event/_emit_tracer_loop) the main thread's deliveries, switches and progress equal those under the schedule with all other threads' "
             "steps removed; C17_workers: worker emissions reach only multi-thread tracers. Both are stated for gen/Switches.v, regenerated from emit_event.py "
             "on every run (module globals vs threading.local): they only type-check while the switches are per-thread. C17_shared_switches_refuted keeps "
             "the 27-step witness of the defect that was fixed. C17_replaced_statements (model/Thunk.v): for every schedule over the two halves of replaced statements "
             "(before_stmt emission / exec of the saved value), every multi-thread flag assignment and top tracer, each thread does what it does alone and none fails; stated "
             "over thunk_shared / thunk_store_all regenerated from tracer.py and emit_event.py; C17_shared_slot_refuted keeps the witnesses of the two repaired defects. "
             "Tied to the code by replaying 60 schedules on the real emit_event.py with a sys.settrace "
             "scheduler that parks threads before each modelled statement, 80 schedules of replaced statements (threads parked inside the truth test of the emitted value), "
             "80 behaviour trees run inside a worker thread (model/Reent.v), and 60 line-level schedules (every line of emit_event.py a scheduling point, nested emissions; "
             "oracle: every thread's deliveries equal those of the thread alone).",
        note="Trusted: Coq kernel + vm_compute; translator gen_switches.py; GIL statement-level atomicity is modelled, not verified; the settrace scheduler; "
             "handlers are observing and thread-safe themselves. Each half of a replaced statement is one atomic step of model/Thunk.v; the line-level schedules are an oracle, not a theorem.",
        ref="DESIGN.md section 7 C17"),
    "C18": dict(
        technique="Coq proof (nested tree induction over the ordered list of table writes of the bookkeeping visitor) + in-coqc correspondence on every node of exported pristine trees + lexical oracle",
        text="C18_contains (whatever containing_stmt lookup returns is a statement of the tree whose sub-tree holds the node), C18_parent (the parent statement "
             "properly contains the node), C18_node (every node is registered under its id) and C18_tables (the write-level invariant, for any inherited "
             "current statement) are Qed-closed for every tree in which statements only sit in list fields. model/Book.v is tied to ast_bookkeeping.py by "
             "exporting the pristine copy of 120+ instrumented programs (hand-written edge cases + generated, several per tracer) and comparing "
             "containing_stmt / parent_stmt / containing_ast of every node; the oracle recomputes nearest/parent statements and the is_outer_stmt / "
             "is_initial_frame_stmt classifications (with and without exclusion sets) from ast.parse(source). C18_parent_exact: for every well-formed tree with distinct ids and every "
             "statement of it the parent-statement entry IS the nearest enclosing statement (`lexp`, the lexical definition), absent exactly when none encloses it; C18_outer_exact: "
             "the outer-statement queries walking up the table answer what walking up the lexical parents answers, for every typing of the nodes and every set of allowed types; "
             "C18_outer_any_node: asked about ANY node (a decorator, a base, a target, a with-item, a handler), the query starts from the node's containing statement - a statement of the tree that contains it - and answers as the lexical walk from there; "
             "the model's walk is compared with the real is_outer_stmt / is_initial_frame_stmt for every node of every exported tree that has a containing statement. C18_history (model/BookHist.v): for every history of "
             "instrumentations (whole modules and single functions, any paths, collection on or off) whose new nodes are live objects not yet in the tables, every "
             "bookkeeper whose code can still run has all its ids in the tables and its lines in the line table of its module; stated over book_remove_first regenerated "
             "from AstRewriter.visit; C18_remove_after_add_refuted keeps the witness for the other order. C18_history_own_keys: since the line tables are keyed by one of the "
             "bookkeeper's own registered nodes (gen/BookOrder.v book_mid_is_registered_node, checked per instrumentation) the freshness of module ids is no assumption any more. "
             "Tied by 100 real histories (K-hist) in which the trees handed to the rewriter die as in real use.",
        note="Trusted: Coq kernel + vm_compute; hand transcription (validated by correspondence); the exporter that canonicalises ids to traversal "
             "indices and leaves out CPython's shared singleton nodes (Load, Add, ...); translator gen_book.py. The history theorem assumes ids of REGISTERED nodes are not reused within a history (checked on every real history).",
        ref="DESIGN.md section 7 C18"),
    "C19": dict(
        technique="Coq proof (a decorated call is a nest of enabled contexts of the context machine: state restored from any reachable state, returning or raising; delivery to exactly the decorator's tracers; code selection lemma) + real module files decorated and called, compared with the original function and with the same function instrumented through exec",
        text="C19_scoped (a call of a function decorated with any list of tracers, from any state satisfying the invariant - also inside other contexts - returning or raising, "
             "leaves the tracer stack, every tracer's flags, the hooks, the interpreter's trace function and the finder as they were), C19_not_left_active, C19_delivery (the "
             "body's events reach exactly the decorator's tracers during the call, also when it then raises) and C19_select_first are Qed-closed over model/Decor.v on top of "
             "model/Ctx.v (tied to tracer.py by C06 / C07's correspondence). ./check C19 writes ~60 real module files per run with 1-3 decorated module-level functions "
             "(all parameter kinds, defaults, docstrings, raising, recursion, nested function of the same name, generators, another decorator above / below), decorates "
             "them with 1-2 tracers through pyc.instrumented([...]) or @tracer, interleaves ~300 calls and compares: result / exception / side effects / name / docstring with "
             "the undecorated copy, tracer stack and flags before and after every call, the events delivered during the call (and their node types) with the same "
             "function text instrumented through exec, node validity (the text at the node's position in the FILE parses to a node of its type), the text of the innermost "
             "traceback line, and that nothing is delivered outside calls. Definitions indented under `if`, multi-line string literals, `from __future__ import annotations`, "
             "tracers with a sys.settrace handler and functions far from line 1 are generated. C19_find_code_sound / _top / _generic: tracer.find_function_code over code-object trees (what is taken carries the name and is reachable through type-parameter scopes only); K-select compares the real pick on compiled snippets.",
        note="Trusted: Coq kernel + vm_compute; model/Ctx.v + Decor.v transcriptions (validated by C06 / C07's correspondence and by the before/after snapshots here); the "
             "reference events come from the exec path, which C01 / C02 decide. Behavioural equality of the rewritten body is C01's theorem, not restated here.",
        ref="DESIGN.md section 7 C19"),
    "C20": dict(
        technique="Coq proof (induction over well-nested operation blocks) on a transcribed model + in-coqc correspondence with the real TraceStack",
        text="Seven Qed-closed theorems over model/Stack.v (every well-nested operation sequence, every declaration with distinct names, every field order): "
             "frames of every stack preserved, push saves/resets, pop restores, read at any depth, clear restores, registration covers exactly the declared "
             "fields. Tied to trace_stack.py by running 500 generated declarations x operation sequences through both and comparing every attribute after "
             "every operation; a list-of-dicts reference oracle states the property directly on the implementation. A push resets a container to a fresh copy of the value it was DECLARED with (IFresh k items), and every needing_manual_initialization block adds its fields: the model and the reference oracle had transcribed the two defects repaired by 8d4875c. Containers may hold mutable containers (VNest / IFreshN: a list or dict whose elements are lists, mutated in place by OAppendIn): the copy a push hands out is deep.",
        note="Trusted: Coq kernel + vm_compute; hand transcription of trace_stack.py over pure values (no aliasing) validated by correspondence; the harness. "
             "wf (distinct names) is a hypothesis, decidable and checked on every generated declaration.",
        ref="DESIGN.md section 7 C20"),
}

NOT_BUILT_REASON = "check not built yet in this round (see DESIGN.md section 9); no claim is made"


def main():
    extra = os.path.join(V, "tools", "manifest_extra.json")
    checks = dict(CHECKS)
    if os.path.exists(extra):
        checks.update(json.load(open(extra)))
    m = {
        "version": 1,
        "setup_cmd": "cd /verif && ./setup.sh",
        "hooks": {
            "guard": "PYCCOLO_VERIF",
            "enable": "no hook commits; checks run /repo's working tree with PYTHONPATH=/repo (PYCCOLO_VERIF=1 is exported but nothing in /repo reads it)",
            "baseline_off_cmd": "cd /repo && /venv/bin/python -m pytest -ra -q -p no:cacheprovider --timeout=900 --continue-on-collection-errors",
            "source_commits": [],
            "add_only": True,
        },
        "engines": [
            {"name": "coq", "path": "/verif/coq", "serves_properties": sorted(checks),
             "kind_free_text": "Coq 8.16.1 development PyccoloV: regenerated tables (gen/), hand models (model/), proofs, property theorems (props/)"},
            {"name": "harness", "path": "/verif/tools", "serves_properties": sorted(checks),
             "kind_free_text": "translators, correspondence (model evaluated in coqc vs implementation), property-level search oracles"},
        ],
        "checks": [],
        "not_applicable": [],
        "notes": "Every check: translators -> coq build of the property's closure -> Print Assumptions -> correspondence + oracle -> evidence. See DESIGN.md.",
    }
    for pid in ALL:
        if pid in checks:
            c = checks[pid]
            m["checks"].append({
                "property_id": pid,
                "quick_cmd": "./check %s --tier quick" % pid,
                "thorough_cmd": "./check %s --tier thorough" % pid,
                "evidence_file": "/verif/evidence/%s.json" % pid,
                "replay_cmd_template": "./check %s --replay {path}" % pid,
                "engine": "coq",
                "technique": c["technique"],
                "level_claimed": {"category": "proof", "text": c["text"], "design_ref": c["ref"]},
                "level_note": c["note"],
            })
        else:
            m["not_applicable"].append({"property_id": pid, "reason": NOT_BUILT_REASON})
    with open(os.path.join(V, "MANIFEST.json"), "w") as f:
        json.dump(m, f, indent=1)
        f.write("\n")


main()
