#!/venv/bin/python
# debugging aid:  dbg_proj.py '<case json>'  -> K-erased forms of both rewrites, pretty-printed, and their first difference
import json
import sys
import os
sys.path.insert(0, os.path.dirname(os.path.abspath(__file__)))
import lib
from props import C03

KN = {v: k for k, v in json.load(open(os.path.join(lib.COQ, "gen", "pyast.json")))["kinds"].items()}
EV = json.load(open(os.path.join(lib.COQ, "gen", "events.json")))["events"]
RES = {v: k for k, v in json.load(open(os.path.join(lib.VERIF, "tools", "reserved_ids.json"))).items()}


def sc(s):
    if isinstance(s, tuple):
        h, *a = s
        if h in ("SStr", "SId") and isinstance(a[0], int):
            n = a[0]
            if 1000 <= n < 1000 + len(EV):
                return "'%s'" % EV[n - 1000]
            return RES.get(n, "%s%d" % ("s" if h == "SStr" else "v", n))
        return "%s(%s)" % (h, ",".join(map(str, a)))
    return str(s)


def pp(t, ind=0, out=None):
    out = [] if out is None else out
    if t == "NoneNode":
        out.append(" " * ind + "NoneNode")
        return out
    if len(t) != 4:
        out.append(" " * ind + "?? %r" % (t,)); return out
    _, k, scs, fs = t
    out.append(" " * ind + "%s %s" % (KN.get(k, k), " ".join(sc(s) for s in scs)))
    for f in fs:
        if not f:
            out.append(" " * (ind + 1) + "[]")
        for i, x in enumerate(f):
            if i == 0:
                out.append(" " * (ind + 1) + "[")
            pp(x, ind + 2, out)
    return out


def main():
    c = json.loads(sys.argv[1]) if not os.path.exists(sys.argv[1]) else json.load(open(sys.argv[1]))
    c = c.get("case", c)
    ev = {e: 1000 + i for i, e in enumerate(EV)}
    if "stack" in c:
        from props import C05
        ti = int(sys.argv[2]) if len(sys.argv) > 2 and sys.argv[2].isdigit() else 0
        im = C05.run_impl([c])[0]
        K = "[" + "; ".join(str(ev[e]) for e in c["stack"][ti]["events"]) + "]"
        o1, o2 = im["configs"][1 + ti]["out_tree"], im["configs"][0]["out_tree"]
    else:
        im = C03.run_impl([c])[0]
        K = "[" + "; ".join(str(ev[e]) for e in c["e1"]) + "]"
        o1, o2 = im["configs"][0]["out_tree"], im["configs"][1]["out_tree"]
    txt = C03.PROJ_HEADER + "Set Printing Depth 1000000.\n" + "Definition a := %s.\nDefinition b := %s.\nEval vm_compute in (erasek %s a).\nEval vm_compute in (erasek %s b).\n" % (o1, o2, K, K)
    rc, out = lib.coq_eval("dbg_proj", txt)
    vals = lib.parse_marked(out)
    ts = []
    for v in vals:
        if v.strip() == "None":
            print("erasek = None"); ts.append(None); continue
        p = lib.parse_coq_list(v)
        ts.append(p)
    A = sum((pp(x) for x in ts[0][1]), []) if ts[0] else ["None"]
    B = sum((pp(x) for x in ts[1][1]), []) if ts[1] else ["None"]
    import difflib
    print("\n".join(difflib.unified_diff(A, B, "under E1", "under E2", lineterm="", n=6)))
    if "--full" in sys.argv:
        print("\n".join(A))


if __name__ == "__main__":
    main()
