#!/venv/bin/python
# usage: confirm_seed.py Cxx [outdir] [--keep-worktree]
# Confirms a seeded change produced by a sub-agent (in a scratch worktree, never in /repo):
#   1. patch applies to a fresh worktree of /repo HEAD; pyccolo imports; the 57 baseline tests pass with it
#   2. the demonstration fails with the change and passes without it
#   3. applies the patch to /repo, runs ./check Cxx (quick), records the verdict, and undoes it straight away
# then stores patch.diff, demo.py, meta.json under /verif/seeded/<name>/ and removes the scratch worktree.
import json
import os
import shutil
import subprocess
import sys

PY = "/venv/bin/python"


def sh(cmd, cwd=None, env=None, timeout=1800):
    e = dict(os.environ)
    e.update(env or {})
    p = subprocess.run(cmd, shell=True, cwd=cwd, env=e, stdout=subprocess.PIPE, stderr=subprocess.STDOUT, text=True, timeout=timeout)
    return p.returncode, p.stdout


def main():
    prop = sys.argv[1]
    out = sys.argv[2] if len(sys.argv) > 2 and not sys.argv[2].startswith("--") else "/tmp/seed/out/" + prop
    name = os.environ.get("SEED_NAME", prop)
    checks = os.environ.get("SEED_CHECKS", prop).split(",")
    wt = "/tmp/seed/confirm-" + name
    sh("git -C /repo worktree remove --force %s" % wt)
    rc, o = sh("git -C /repo worktree add -q --detach %s HEAD" % wt)
    assert rc == 0, o
    meta = json.load(open(os.path.join(out, "meta.json"))) if os.path.exists(os.path.join(out, "meta.json")) else {}
    res = {"property": prop, "agent_meta": meta}
    try:
        env = {"PYTHONPATH": wt, "PYTHONDONTWRITEBYTECODE": "1"}
        rc, o = sh("%s %s/demo.py" % (PY, out), cwd=wt, env=env)
        res["demo_unchanged_rc"] = rc
        rc, o = sh("git apply %s/patch.diff" % out, cwd=wt)
        res["patch_applies"] = rc == 0
        if rc != 0:
            res["patch_error"] = o[-500:]
        rc, o = sh("%s -c 'import pyccolo'" % PY, cwd=wt, env=env)
        res["imports"] = rc == 0
        rc, o = sh("%s -m pytest -q -p no:cacheprovider --timeout=900 --deselect test/test_import_hooks.py::test_basic_instrumented_import 2>&1 | tail -3" % PY, cwd=wt, env=env)
        res["tests_tail"] = o.strip().splitlines()[-1] if o.strip() else ""
        res["tests_pass"] = " passed" in res["tests_tail"] and "failed" not in res["tests_tail"]
        rc, o = sh("%s %s/demo.py" % (PY, out), cwd=wt, env=env)
        res["demo_changed_rc"] = rc
        res["demo_changed_tail"] = o[-400:]
    finally:
        sh("git -C /repo worktree remove --force %s" % wt)
    res["confirmed"] = bool(res.get("patch_applies") and res.get("imports") and res.get("tests_pass")
                            and res.get("demo_unchanged_rc") == 0 and res.get("demo_changed_rc", 0) != 0)
    # run my checks against /repo with the change applied, then undo
    verdicts = {}
    if res["confirmed"] and "--no-check" not in sys.argv:
        rc, o = sh("git -C /repo status --porcelain")
        assert o.strip() == "", "/repo not clean: " + o
        rc, o = sh("git -C /repo apply %s/patch.diff" % out)
        try:
            for c in checks:
                rc, o = sh("./check %s --tier quick" % c, cwd="/verif")
                viol = [l for l in o.splitlines() if l.startswith("VIOLATION")]
                verdicts[c] = {"rc": rc, "violation_line": viol[0] if viol else None,
                               "detail": [l for l in o.splitlines() if l.startswith("violation detail")][:1]}
        finally:
            sh("git -C /repo checkout -- .")
            sh("git -C /repo clean -fdq -- pyccolo test")
        # evidence files were rewritten by the run on the changed tree: restore them from git or re-run later
        sh("git -C /verif checkout -- evidence", cwd="/verif")
    res["check_verdicts"] = verdicts
    res["caught_by"] = [c for c, v in verdicts.items() if v["rc"] == 1 and v["violation_line"]]
    if res["confirmed"]:
        d = "/verif/seeded/" + name
        os.makedirs(d, exist_ok=True)
        shutil.copy(os.path.join(out, "patch.diff"), d)
        shutil.copy(os.path.join(out, "demo.py"), d)
        json.dump({"breaks_property": prop, "summary": meta.get("summary"), "needs_to_manifest": meta.get("needs_to_manifest"),
                   "confirmation": {k: res[k] for k in ("patch_applies", "imports", "tests_tail", "demo_unchanged_rc", "demo_changed_rc")},
                   "what_was_run": "fresh worktree of /repo HEAD: demo (pass), git apply patch, import, pytest baseline (pass), demo (fail); "
                                   "then patch applied to /repo, ./check <ids> --tier quick, git checkout -- .",
                   "check_verdicts": verdicts, "caught_by": res["caught_by"]},
                  open(os.path.join(d, "meta.json"), "w"), indent=1)
    print(json.dumps({k: v for k, v in res.items() if k != "agent_meta"}, indent=1)[:3000])


main()
