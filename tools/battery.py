# Hand-written feature programs (regression corpus shared by the rewriter-family checks): each packs many constructs whose
# instrumentation interacts with other events (statement expansion, docstrings and constants that look like them, saved-slice
# plumbing, attribute / subscript / call chains, guards, brackets ended by return / break / continue / exceptions, ...).
# They use the prelude of gen_prog (t, Box, deco) and are deterministic.

PROGRAMS = {
    "stmts": '''a = 1
b = 2
bx = Box(5)
a + b
t(1, a)
def f1(p=0):
    """doc"""
    global b
    x = p
    b = b + 1
    x
    return x + b
def f2(p=0):
    ...
    y = p
    return y
def f3(p=0):
    7
    return p
def f4():
    None
def f5():
    "only a docstring"
c = f1(2) + f2(3) + f3(4)
f4()
f5()
if a < b:
    pass
else:
    a = 0
c += 1
del c
assert a, "msg"
''',
    "chains": '''bx = Box(5)
by = Box(bx)
a = by.v.v
b = by.v.items[1]
by.v.v = 7
by.v.items[0] = a + b
c = by.v.get(1)
d = by.v.get(t(1, 3))
e = by.v.items[0:2][0]
del by.v.items[0:1]
by.v.items.append(t(2, 4))
f = len(by.v.items)
g = [by.v.v, by.v.items[-1]][1]
h = {1: by.v}[1].v
by.v.v += 1
u = (by.v.v, by.v.items)[0]
k = str(by.v.get(2)).strip().upper()
''',
    "loops": '''a = 0
r = []
for i in range(3):
    if i == 1:
        continue
    a = a + i
    r.append(a)
else:
    a = a + 10
w = 3
while w > 0:
    w -= 1
    if w == 1:
        break
    a += w
def f1(p=0):
    x = 0
    for j in range(p):
        for k in range(2):
            if k == 1:
                break
            x += j
        if j == 2:
            return x
    return -x
b = f1(2) + f1(5)
c = [q * 2 for q in range(3) if q != 1]
d = {q: q + 1 for q in range(2)}
e = {q for q in range(2)}
g = sum(q + a for q in range(2))
h = [q + s for q in range(2) for s in range(2) if q <= s]
''',
    "exprs": '''a = 1
b = 2
c = 3
u = (a < b < c)
v = (2 < 1 < t(1, c))
w = (a == 1 != b <= t(2, 3))
x = a + b * c - (a if b else c)
y = (a and b) or (not c)
z = -a
l = [a, b, *[c, 4]]
s = {a, b}
tu = (a, (b, c))
dd = {"k": a, **{"j": b}}
fs = f"{a}-{b!r:>4}"
lam = (lambda q, r=2: q + r + a)(t(3, 1))
ff = (lambda *ar, **kw: len(ar) + len(kw))(a, *[1, 2], z=b)
cc = 1.5 + 2
nn = None
bb = True
ee = ...
by = b"x"
cx = 2j
aa = [1, 2, 3][0:2]
ab = [1, 2, 3][::2][0]
''',
    "funcs": '''a = 1
@deco
def f1(p=1, *ar, q=2, **kw) -> int:
    """doc"""
    x = p + q + len(ar) + len(kw)
    def g1(z=1):
        nonlocal x
        x = x + z
        return x
    return g1(2) + g1()
b = f1(2, 3, q=4, r=5)
def f2(p=0):
    try:
        if p == 1:
            raise ValueError("v")
        return p
    except (ValueError, TypeError) as e:
        return -1
    finally:
        t(1, p)
c = f2(1) + f2(2)
def f3(p=0):
    try:
        raise KeyError(p)
    except:
        return 5
d = f3()
class K1(Box):
    cv = a + 1
    def m(self, k=1):
        return self.cv + k
e = K1().m(2)
with Box(3) as bw:
    g = bw.v
def f4(p):
    return p
h = f4(f4(f4(1)))
def f5(n):
    return 1 if n <= 0 else n * f5(n - 1)
i = f5(3)
''',
    "raises": '''a = 1
def f1(p=0):
    x = [1, 2]
    for i in range(3):
        x[i] = i
    return x
try:
    f1()
except IndexError as e:
    a = 2
def f2():
    w = 2
    while w > 0:
        w -= 1
        raise ValueError("in loop")
try:
    f2()
except ValueError:
    a = 3
b = {1: 2}
c = b[t(1, 5)]
''',
    # coroutines driven by hand: an `async def` is a function definition like any other (docstring, body brackets, guards);
    # no `await` (under a deferred event it would move into a lambda: known finding C08-deferred-changes-meaning)
    "asyncs": '''a = 1
async def af1(p=1):
    """adoc"""
    x = p + a
    for i in range(2):
        x = x + i
    return x
async def af2(q):
    "only a docstring"
async def af3(q):
    return [q, q + 1]
def drive(co):
    try:
        co.send(None)
    except StopIteration as e:
        return e.value
b = drive(af1(2))
c = drive(af2(3))
d = drive(af3(4))
e = (af1.__doc__, af2.__doc__, af3.__doc__)
''',
    # destructuring targets whose elements evaluate something: every occurrence inside a target display reports like the same target written alone
    "targets": '''bx = Box(5)
by = Box(bx)
d = {8: 0, 9: 0, "k": 0}
k = "k"
bx.v, d[k] = 1, 2
[by.v.v, *d[9]] = 3, 4, 5
(a, (bx.v, d[t(1, 8)])), c = (1, (2, 3)), 4
for d[8], by.v.v in [(1, 2), (3, 4)]:
    a = a + d[8]
for (i, bx.items[i - i]) in [(0, 7), (1, 8)]:
    a = a + bx.items[0]
class Pair:
    def __enter__(self):
        return (1, 2)
    def __exit__(self, *x):
        return False
with Pair() as (bx.v, d[k]):
    a = a + bx.v
bx.items[0:2], d[9] = [6, 7], 9
del d[8], bx.items[0]
e = (d[9], bx.items, by.v.v, c)
''',
}


def programs():
    return dict(PROGRAMS)
