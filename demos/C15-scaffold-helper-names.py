"""C15 demo2: the scaffold looks up its own helpers `dict` and `locals` by name in the
caller's mappings / the program's scope.

* a supplied local or global called `dict` or `locals` -> TypeError from the scaffold
* a program that binds `locals` -> TypeError, or a forged result mapping
* a defaultdict as locals gets the scaffold's lookups (`dict`, `locals`) inserted as keys
"""
import collections
import sys
import pyccolo as pyc

bad = []


def outcome(fn):
    try:
        return ("returned", fn())
    except BaseException as e:  # noqa
        return ("raised", type(e).__name__, str(e))


def strip(m):
    return {k: v for k, v in m.items() if k != "__builtins__"}


def py_exec(text, g, l):
    exec(text, g, l)
    return strip(l)


def check(label, text, mk):
    g, l = mk()
    want = outcome(lambda: py_exec(text, g, l))
    g, l = mk()
    got = outcome(lambda: strip(pyc.exec(text, g, l)))
    caller_l = strip(l)
    print(f"{label}: text={text!r}")
    print("   expected (builtin exec):", want)
    print("   observed (pyc.exec)    :", got)
    if want != got:
        bad.append(label)
    return caller_l


check("supplied local `dict`", "y = x + 1", lambda: ({}, {"x": 1, "dict": "my dict"}))
check("supplied local `locals`", "y = x + 1", lambda: ({}, {"x": 1, "locals": "my locals"}))
check("supplied global `dict`", "y = 1", lambda: ({"dict": 5}, {}))
check("program binds `locals`", "locals = 5\nx = 1", lambda: ({}, {}))
check("program forges result", "x = 1\nlocals = lambda: {'forged': 1}", lambda: ({}, {}))

# defaultdict: empty program, builtin exec leaves the mapping alone
dd = collections.defaultdict(int, {"a": 1})
exec("", {}, dd)
want = dict(dd)
dd = collections.defaultdict(int, {"a": 1})
got = outcome(lambda: pyc.exec("", {}, dd))
print("defaultdict locals, empty program")
print("   expected: no error, caller's mapping stays", want)
print("   observed:", got, "caller's mapping now", dict(dd))
if got[0] != "returned" or dict(dd) != want:
    bad.append("defaultdict")
sys.exit(1 if bad else 0)
