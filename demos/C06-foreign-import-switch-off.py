"""C06: while a module that a tracer does NOT instrument is being imported, the import hook switches the tracer
"off" (TraceLoader.exec_module -> tracer._disable_tracing()).  Everything that runs during that import -- in
particular the import of a module the tracer DOES instrument, and calls into such modules -- loses the tracer's
function-body events and all of its sys-level events, although the tracer is active and its innermost context is
an enabled one.  Module-level statements and lambdas of the very same module still fire.

History:  enter ctx(A enabled); import inner_a (A's file);  import outer (not A's file; its body imports inner_b,
          A's file, which defines and calls a function)
Expected: importing inner_b fires exactly the events importing the identical inner_a fired.
Observed: the events from inside the function body (and every 'call' event of a sys-level tracer) are missing.
"""
import importlib
import os
import sys
import tempfile

import pyccolo as pyc

LOG = []
d = tempfile.mkdtemp(prefix="pyccolo_demo7_")
sys.path.insert(0, d)
BODY = "def mf():\n    z = 1\n    return z\nv = mf()\n"
for name, body in (("demo7_inner_a", BODY), ("demo7_inner_b", BODY), ("demo7_outer", "import demo7_inner_b\n")):
    with open(os.path.join(d, name + ".py"), "w") as f:
        f.write(body)
importlib.invalidate_caches()


class AstLevel(pyc.BaseTracer):
    def should_instrument_file(self, filename):
        return "demo7_inner_" in filename

    @pyc.register_raw_handler((pyc.after_stmt, pyc.before_function_body))
    def handle(self, ret, node, frame, evt, *_, **__):
        LOG.append((evt.value, frame.f_code.co_name))
        return ret


class SysLevel(pyc.BaseTracer):
    def should_instrument_file(self, filename):
        return "demo7_inner_" in filename

    @pyc.register_raw_handler(pyc.call)
    def handle_call(self, ret, node, frame, evt, *_, **__):
        if "demo7_inner_" in frame.f_code.co_filename:
            LOG.append(("call", frame.f_code.co_name))


failed = False
for cls in (AstLevel, SysLevel):
    for m in ("demo7_inner_a", "demo7_inner_b", "demo7_outer"):
        sys.modules.pop(m, None)
    with cls.instance().tracing_enabled():
        del LOG[:]
        importlib.import_module("demo7_inner_a")
        direct = list(LOG)
        del LOG[:]
        importlib.import_module("demo7_outer")
        nested = list(LOG)
    print(cls.__name__)
    print("   imported directly (control)        :", direct)
    print("   imported by a foreign module: expected the same, observed:", nested)
    failed |= direct != nested
sys.exit(1 if failed else 0)
