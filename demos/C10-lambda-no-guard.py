"""demo5: lambdas.  (1) A lambda has no guard at all: its bracket events carry guard=None, so a tracer has no
way to silence a lambda body.  (2) With an after_lambda_body handler registered, the event call is placed
OUTSIDE the `if <tracing>` test of the lambda body, so a lambda created inside the tracing context and called
after the context has exited raises NameError instead of returning its value.

Property C10: results are identical to the plain program; function bodies can be silenced through their guard.
"""
import ast
import sys

import pyccolo as pyc

SRC = """
inc = lambda x: x + 1
table = {"double": lambda v, k=2: v * k}
during = [inc(1), table["double"](4)]
"""
GUARDS_SEEN = []


class T(pyc.BaseTracer):
    global_guards_enabled = True
    instrument_all_files = True

    @pyc.register_raw_handler((pyc.before_lambda_body, pyc.after_lambda_body))
    def h(self, ret, node, frame, event, *a, guard=None, **kw):
        GUARDS_SEEN.append(guard)


def use_later(env):
    try:
        return [env["inc"](10), env["table"]["double"](5)]
    except Exception as e:
        return "%s: %s" % (type(e).__name__, e)


env_p = {}
exec(compile(SRC, "<plain>", "exec"), env_p)
expected = (env_p["during"], use_later(env_p))

env_t = {}
t = T.instance()
with t.tracing_enabled():
    exec(compile(t.make_ast_rewriter("<demo5>").visit(ast.parse(SRC)), "<demo5>", "exec"), env_t)
observed = (env_t["during"], use_later(env_t))  # the lambdas are used after the context is over

print("guard handed to the lambda bracket events:", sorted(set(map(str, GUARDS_SEEN))), "(a guard name was expected)")
print("plain  (during, later):", expected)
print("traced (during, later):", observed)
if expected != observed:
    print("VIOLATION: expected %r, observed %r" % (expected, observed))
    sys.exit(1)
sys.exit(0)
