"""C03 (and C05): a local guard (`guard=`) of ONE event's handler silences the emission sites of OTHER events
in the whole guarded sub-expression.

Known already: a set local guard silences every handler *of that site*.  This is wider: `EmitterMixin.emit`
builds `<guard> if <pristine copy of the node> else <emit(...)>`, and the pristine copy replaces the complete
rewritten subtree.  With an after_call handler guarded per call site ("once per site", as in
test/test_local_guards.py), the load_name events of the callee and of the arguments disappear after the first
call, so the load_name stream under {load_name} differs from the one under {load_name, after_call}.
"""
import sys

import pyccolo as pyc

SRC = "def f(a):\n    return a\nx = 1\nfor i in range(3):\n    y = f(x)\n"


def run(with_guarded_after_call, stacked):
    """stacked=False: ONE tracer subscribing to load_name (+ guarded after_call): C03.
    stacked=True: the load_name tracer is a tracer of its own, outer of the guarded one: C05."""
    log = []

    def guarded_body(ns):
        def im(self, ret, node, frame, *_, **__):
            for g in self.local_guards_by_module_id.get(id(node), []):
                frame.f_globals[g] = False

        ns["im"] = pyc.register_handler(pyc.init_module)(im)
        if with_guarded_after_call:

            def ac(self, ret, node, frame, event, guard, *_, **__):
                frame.f_globals[guard] = True  # once per call site

            ns["ac"] = pyc.register_handler(
                pyc.after_call,
                guard=lambda node: f"{pyc.PYCCOLO_BUILTIN_PREFIX}_call_{node.lineno}_{node.col_offset}",
            )(ac)

    def ln(self, ret, node, frame, event, *_, **__):
        log.append(node.id)

    meta = type(pyc.BaseTracer)
    if stacked:
        Names = meta("Names", (pyc.BaseTracer,), {"ln": pyc.register_handler(pyc.load_name)(ln)})
        ns = {}
        guarded_body(ns)
        Guarded = meta("Guarded", (pyc.BaseTracer,), ns)
        classes = [Names, Guarded]
    else:
        ns = {"ln": pyc.register_handler(pyc.load_name)(ln)}
        guarded_body(ns)
        classes = [meta("Single", (pyc.BaseTracer,), ns)]
    env = {}
    import contextlib

    with contextlib.ExitStack() as st:
        for c in classes:
            st.enter_context(c.instance())
        classes[-1].instance().exec_raw(SRC, env, env, filename=classes[-1].instance().make_sandbox_fname())
    for c in classes:
        c.clear_instance()
    return log


bad = False
for stacked, prop in ((False, "C03, one tracer"), (True, "C05, two tracers")):
    alone = run(False, stacked)
    together = run(True, stacked)
    if alone != together:
        bad = True
        print("VIOLATION (%s): the load_name stream depends on whether a guarded after_call handler is subscribed" % prop)
        print("  expected (without the after_call handler):", alone)
        print("  observed (with the guarded after_call)   :", together)
sys.exit(1 if bad else 0)
