"""C17 (a relative of the known `instrumented`-function overlap, through tracer.exec and through a
different piece of state): a worker's short tracer.exec(...) that ENDS while the main thread is
running a program under a file name of its own makes main lose every later event of that program.

Each tracing context saves the tracer's file filter (_tracing_enabled_files, _current_sandbox_fname,
also _num_sandbox_calls_seen / _is_tracing_hard_disabled) on entry and puts the saved values back
on exit (tracer.py, _make_tracing_context_cleanup_callback).  The state is per tracer, not per
thread: the worker entered before main's tracer.exec(..., filename='prog.py') and leaves during it,
restoring the filter from before -- 'prog.py' is no longer an accepted file.
The outer `with tracer:` of the main thread stays open throughout; nothing is popped or disabled.
"""
import sys
import threading

import pyccolo as pyc

main_log = []
worker_inside, worker_may_leave, worker_left = (threading.Event() for _ in range(3))
state = {"worker": False}


class T(pyc.BaseTracer):
    @pyc.register_handler(pyc.after_stmt)
    def on_after_stmt(self, ret, node, frame, event, *_, **__):
        if threading.current_thread() is not threading.main_thread():
            return
        main_log.append((frame.f_code.co_filename, node.lineno))
        if state["worker"] and frame.f_code.co_filename == "prog.py" and node.lineno == 1:
            worker_may_leave.set()
            worker_left.wait(10)


def park():
    worker_inside.set()
    worker_may_leave.wait(10)


def run(t, with_worker):
    del main_log[:]
    state["worker"] = with_worker

    def worker():
        t.exec("park()", {"park": park})
        worker_left.set()

    with t:
        th = None
        if with_worker:
            th = threading.Thread(target=worker)
            th.start()
            worker_inside.wait(10)
        t.exec("a = 1\nb = 2\nc = 3", filename="prog.py")
        if th is not None:
            th.join()
    return list(main_log)


def main():
    t = T.instance()
    expected = run(t, False)
    observed = run(t, True)
    print("main runs a three-statement program; a worker's tracer.exec('park()') ends after statement 1:")
    print(f"  expected: {expected}")
    print(f"  observed: {observed}")
    return 1 if observed != expected else 0


if __name__ == "__main__":
    sys.exit(main())
