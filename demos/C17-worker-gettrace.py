"""C17: code running in a worker thread does not "run with unchanged results" while the main
thread traces sys events: sys.gettrace() in the worker returns the MAIN thread's previous trace
function (None here) instead of the function the worker installed with sys.settrace.

tracer.py, _patch_sys_settrace_non_context: patched_sys_settrace passes calls from other threads
through to the real sys.settrace, but patched_sys_gettrace has no such thread check and returns the
`existing_tracer` captured when the patch was installed.  (Debuggers / coverage tools running in a
worker consult sys.gettrace() to find out whether they are still installed.)
"""
import sys
import threading

import pyccolo as pyc


class T(pyc.BaseTracer):
    @pyc.register_raw_handler(pyc.call)
    def on_call(self, *_, **__):
        pass


def worker_trace(frame, event, arg):
    return None


def worker(out):
    sys.settrace(worker_trace)
    out.append(sys.gettrace() is worker_trace)
    sys.settrace(None)


def in_worker():
    out = []
    th = threading.Thread(target=worker, args=(out,))
    th.start()
    th.join()
    return out[0]


def main():
    expected = in_worker()
    with T.instance():
        observed = in_worker()
    print("worker: sys.settrace(f); sys.gettrace() is f")
    print(f"  expected (no tracing in main): {expected}")
    print(f"  observed (main inside `with tracer:` that has a 'call' handler): {observed}")
    return 1 if observed != expected else 0


if __name__ == "__main__":
    sys.exit(main())
