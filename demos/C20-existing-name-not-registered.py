"""C20 demo6: fields are discovered by diffing the KEYS of the tracer's __dict__ around the registration
block, so a field assigned inside `register_stack_state()` whose name already exists on the instance
(initialised by the base class's __init__, declared once more in a second block, or kept alive across
`reset()` by `persistent_fields()`) is silently NOT registered: push neither saves nor resets it, pop does not
restore it, get_field raises KeyError.  The same holds for needing_manual_initialization.
Exits 1 when the violation shows."""
import sys

import pyccolo as pyc


class Base(pyc.BaseTracer):
    def __init__(self, *a, **k):
        super().__init__(*a, **k)
        self.count = 0  # plain attribute of the base tracer


class Derived(Base):
    def __init__(self, *a, **k):
        super().__init__(*a, **k)
        self.stack = self.make_stack()
        with self.stack.register_stack_state():
            self.count = 0  # the derived tracer wants it per frame
            self.other = 0


def main():
    t = Derived()
    t.count = t.other = 5
    bad = 0
    with t.stack.push():
        if (t.count, t.other) != (0, 0):
            bad += 1
            print("after push: expected count == 0 and other == 0 (declared initial values); observed count == %r, other == %r"
                  % (t.count, t.other))
        t.count = t.other = 9
    try:
        got = t.stack.get_field("count")
    except KeyError as e:
        got = "KeyError(%s)" % e
    if got != 5:
        bad += 1
        print("get_field('count'): expected 5, observed %s" % (got,))
    t.stack.pop()
    if (t.count, t.other) != (5, 5):
        bad += 1
        print("after pop: expected count == 5 and other == 5; observed count == %r, other == %r" % (t.count, t.other))
    if bad:
        print("VIOLATION: a field declared in a registration block is silently left out of the stack")
        return 1
    print("ok")
    return 0


if __name__ == "__main__":
    sys.exit(main())
