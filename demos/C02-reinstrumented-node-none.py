"""demo5: instrumenting a second chunk of code under the same file name drops the node table of the first
chunk (AstRewriter.visit -> remove_bookkeeping); functions of the first chunk that are still alive then
deliver node=None."""
import ast
import asyncio
import sys
import textwrap

import pyccolo as pyc


def trace(src, events, fname, run_async=None, env=None, silent=()):
    """Run src under a fresh tracer subscribed to `events`; return (stream, exception, env).
    stream entries: (event, node type, lineno, col_offset, source of node, repr(value))"""
    log = []

    class T(pyc.BaseTracer):
        instrument_all_files = True

        @pyc.register_handler(tuple(events))
        def h(self, ret, node, frame, event, *a, **kw):
            if isinstance(node, ast.AST):
                src_ = ast.unparse(node).split("\n")[0]
                log.append((event.value, type(node).__name__, getattr(node, "lineno", None),
                            getattr(node, "col_offset", None), src_, _r(ret)))
            else:
                log.append((event.value, None, None, None, node, _r(ret)))
            return None

        if silent:
            @pyc.register_handler(tuple(silent))
            def hs(self, ret, node, frame, event, *a, **kw):
                return None

    t = T.instance()
    env = {"__name__": "demo_mod"} if env is None else env
    exc = None
    try:
        with t.tracing_enabled():
            try:
                tree = t.make_ast_rewriter(fname).visit(ast.parse(textwrap.dedent(src)))
                exec(compile(tree, fname, "exec"), env)
                if run_async:
                    asyncio.run(env[run_async]())
            except BaseException as e:  # noqa
                exc = e
    finally:
        T.clear_instance()
    return log, exc, env


def _r(v):
    if type(v).__module__ == "builtins" and not callable(v) and " at 0x" not in repr(v):
        return repr(v)
    return "<%s>" % type(v).__name__


def report(title, expected, delivered):
    print(title)
    print("EXPECTED:")
    for e in expected:
        print("   ", e)
    print("DELIVERED:")
    for e in delivered:
        print("   ", e)
    if expected != delivered:
        print("VIOLATION: delivered stream differs from expected stream")
        sys.exit(1)
    print("no violation")
    sys.exit(0)

log = []


class T(pyc.BaseTracer):
    instrument_all_files = True

    @pyc.register_handler(pyc.after_call)
    def h(self, ret, node, frame, event, *a, **kw):
        log.append((event.value, None if node is None else ast.unparse(node), repr(ret)))


t = T.instance()
env = {}
with t.tracing_enabled():
    for chunk in ["def f():\n    return len('ab')\n", "y = f()\n"]:
        tree = t.make_ast_rewriter("<sandbox-demo5>").visit(ast.parse(chunk))
        exec(compile(tree, "<sandbox-demo5>", "exec"), env)
expected = [("after_call", "len('ab')", "2"), ("after_call", "f()", "2")]
report("after_call nodes across two chunks sharing a file name", expected, log)
