"""demo2: the traceback line (and f_lineno seen from the callee) of a multi-line call `recv\n.meth(...)` moves
from the first line of the expression to the line of `.meth` when CPython does NOT compile the call as a
method call: receiver is a name imported at module level, a `*args` / `**kwargs` argument is present, or
there are 30 or more arguments.  Happens under every event subset (visit_Call rewrites lineno always)."""
import ast, sys, traceback
import pyccolo as pyc

SRC = '''
import math
class O:
    def m(self, *a, **k):
        raise ValueError("m")
o = O()
def imported_receiver():
    return (math
            .sqrt(-1))
def starred_arg(a):
    return (o
            .m(*a))
def kwstarred_arg(k):
    return (o
            .m(1, **k))
res = []
for f, arg in ((imported_receiver, ()), (starred_arg, ([1],)), (kwstarred_arg, ({"x": 1},))):
    try:
        f(*arg)
    except ValueError as e:
        import traceback
        res.append([(fr.name, fr.lineno) for fr in traceback.extract_tb(e.__traceback__) if fr.name == f.__name__])
'''

class T(pyc.BaseTracer):
    should_patch_meta_path = False
    instrument_all_files = True

    @pyc.register_raw_handler((pyc.after_stmt,))   # any event will do; the call nodes are not even wrapped here
    def observe(self, ret, *_, **__):
        return None


env0 = {}
exec(compile(SRC, "<prog>", "exec"), env0)
t = T.instance()
with t.tracing_enabled():
    tree = t.make_ast_rewriter("<prog>").visit(ast.parse(SRC))
    env1 = {}
    exec(compile(tree, "<prog>", "exec"), env1)
print("plain       :", env0["res"])
print("instrumented:", env1["res"])
if env0["res"] != env1["res"]:
    print("VIOLATION: same exception, different source line in the traceback")
    sys.exit(1)
sys.exit(0)
