"""C18 demo7: when a module's tables are re-created from the pickled bookkeeper (bytecode from the cache),
the new bookkeeper is added to the class tables but not recorded in ast_bookkeeper_by_fname, and the
id remapping stays in node_id_remapping_by_fname for ever.  Nothing can remove these entries later:
every reload of the file adds one more tree, and after an edit the trees of the old source (and the
remapping made for the old bytecode) survive next to the new tree.

Expected after `reload` of an edited file: exactly one registered tree for the path (the new source),
ast_bookkeeper_by_fname[path] present whenever tables for the path exist, no remapping left for a file whose
running code was compiled in this process.  Observed: see output."""
import os, subprocess, sys, tempfile, textwrap

DRIVER = textwrap.dedent('''
    import ast, importlib, os, sys, time
    sys.dont_write_bytecode = False
    import pyccolo as pyc
    class T(pyc.BaseTracer):
        def should_instrument_file(self, filename):
            return filename.endswith('mod_c18_demo7.py')
        @pyc.register_handler((pyc.after_stmt,))
        def h(self, ret, node, frame, event, *a, **k):
            pass
    def report(label, path):
        trees = [ast.unparse(n).splitlines()[0] for n in T.ast_node_by_id.values() if isinstance(n, ast.Module)]
        print('STATE %s | trees=%r | in ast_bookkeeper_by_fname=%s | remapping=%s' % (
            label, trees, path in T.ast_bookkeeper_by_fname, path in T.node_id_remapping_by_fname))
    with T.instance().tracing_enabled():
        import mod_c18_demo7
        path = mod_c18_demo7.__file__
        report('import', path)
        importlib.reload(mod_c18_demo7)
        report('reload, unchanged', path)
        with open(path, 'w') as f:
            f.write('p = 10\\nq = p + 1\\n')
        t = time.time() + 10
        os.utime(path, (t, t))
        importlib.reload(mod_c18_demo7)
        report('reload, edited', path)
''')


PRIME = textwrap.dedent('''
    import sys
    sys.dont_write_bytecode = False
    import pyccolo as pyc
    class T(pyc.BaseTracer):
        def should_instrument_file(self, filename):
            return filename.endswith('mod_c18_demo7.py')
        @pyc.register_handler((pyc.after_stmt,))
        def h(self, ret, node, frame, event, *a, **k):
            pass
    with T.instance().tracing_enabled():
        import mod_c18_demo7
''')


def scenario(primed):
    d = tempfile.mkdtemp(prefix='c18_demo7_')
    for name, text in (('driver.py', DRIVER), ('prime.py', PRIME), ('mod_c18_demo7.py', 'x = 1\ny = x + 1\n')):
        with open(os.path.join(d, name), 'w') as f:
            f.write(text)
    env = dict(os.environ)
    env.pop('PYTHONDONTWRITEBYTECODE', None)
    env['PYTHONPATH'] = os.pathsep.join([d] + [p for p in env.get('PYTHONPATH', '').split(os.pathsep) if p])
    if primed:
        # an earlier process imported the file: bytecode and pickled table are in the cache
        subprocess.run([sys.executable, os.path.join(d, 'prime.py')], cwd=d, env=env, check=True)
    p = subprocess.run([sys.executable, os.path.join(d, 'driver.py')], cwd=d, env=env, capture_output=True, text=True)
    lines = [l[6:] for l in p.stdout.splitlines() if l.startswith('STATE')]
    if p.returncode:
        print(p.stderr[-1500:])
    print('process starting %s:' % ('from a filled cache' if primed else 'with an empty cache'))
    for l in lines:
        print('   ', l)
    last = lines[-1] if lines else ''
    return ("trees=['p = 10']" not in last or 'remapping=True' in last
            or any('in ast_bookkeeper_by_fname=False' in l for l in lines))


def main():
    bad = [scenario(False), scenario(True)]
    print("expected: one tree per step, last step trees=['p = 10'], in ast_bookkeeper_by_fname=True throughout, "
          "remapping=False after the edit")
    if any(bad):
        print('VIOLATION')
        return 1
    return 0


if __name__ == '__main__':
    sys.exit(main())
