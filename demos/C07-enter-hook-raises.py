"""C07: an exception raised by enter_tracing_hook() leaves the whole context installed for good.

History: enter ctx(tracer, enabled) where the tracer's enter_tracing_hook raises.  The `with` statement
raises (fine), but nothing of what tracing_non_context() had already installed is taken back.
"""
import builtins
import sys
import importlib.util

import pyccolo as pyc
from pyccolo.emit_event import _TRACER_STACK

orig_settrace, orig_gettrace = sys.settrace, sys.gettrace


class Hooked(pyc.BaseTracer):
    def enter_tracing_hook(self):
        raise RuntimeError("enter hook failed")

    @pyc.register_raw_handler(pyc.call)
    def handle_call(self, *_, **__):
        pass

    @pyc.register_raw_handler(pyc.after_stmt)
    def handle_stmt(self, ret, *_, **__):
        return ret


def snapshot(t):
    return {
        "tracer stack": list(_TRACER_STACK),
        "tracer._is_tracing_enabled": t._is_tracing_enabled,
        "tracer._ctx": t._ctx,
        "sys trace function": orig_gettrace(),
        "sys.settrace is the original": sys.settrace is orig_settrace,
        "sys.gettrace is the original": sys.gettrace is orig_gettrace,
        "TraceFinders on sys.meta_path": sum(type(f).__name__ == "TraceFinder" for f in sys.meta_path),
        "_X5ix hook names in builtins": sorted(
            k for k in dir(builtins) if k.startswith("_X5ix") and "GUARD" not in k and "ENABLED" not in k
        ),
        "flags (TRACING_ENABLED, FUNCTION_TRACING_ENABLED)": (
            getattr(builtins, "_X5ix_PYCCOLO_TRACING_ENABLED", False),
            getattr(builtins, "_X5ix_PYCCOLO_FUNCTION_TRACING_ENABLED", False),
        ),
    }


t = Hooked.instance()
before = snapshot(t)
raised = None
try:
    with t:  # same with t.tracing_enabled() / tracing_context() / pyc.tracing_enabled([t])
        pass
except RuntimeError as e:
    raised = e
after = snapshot(t)

bad = {k: (before[k], after[k]) for k in before if before[k] != after[k]}
print("the with statement raised:", repr(raised))
for k, (b, a) in bad.items():
    print(f"  {k}:\n      expected (as before): {b!r}\n      observed            : {a!r}")
# the tracer can no longer be entered with `with tracer:` either
second = None
try:
    Hooked.enter_tracing_hook = lambda self: None
    with t:
        pass
except AssertionError as e:
    second = e
if second is not None:
    print("  a later `with tracer:` (hook no longer failing): expected to work, observed AssertionError (tracer._ctx is stuck)")
orig_settrace(None)
sys.exit(1 if bad or second is not None else 0)
