"""C16: events nested inside a handler change the value of the OUTER statement's next event.

BaseTracer registers internal reentrant=True handlers that keep the value of an expression
statement in one slot per tracer (_saved_expr_stmt_ret) between the statement's after_stmt and
after_module_stmt emissions.  On a tracer with allow_reentrant_events = True, or under
pyc.allow_reentrant_event_handling(), a statement executed by the user's (ordinary) after_stmt
handler goes through the same slot: after the handler has finished, the outer statement's
after_module_stmt event is delivered with ret=None instead of the statement's value.
The user's handlers are ordinary (not reentrant) in all cases.
"""
import sys

import pyccolo as pyc


def run(nested, allow, region):
    log = []

    class T(pyc.BaseTracer):
        allow_reentrant_events = allow

        @pyc.register_raw_handler(pyc.after_stmt)
        def on_after_stmt(self, ret, node_id, frame, event, *_, **__):
            if ret != 42:
                return
            log.append(("after_stmt", ret))
            if nested:
                if region:
                    with pyc.allow_reentrant_event_handling():
                        self.exec("w = 5")
                else:
                    self.exec("w = 5")

        @pyc.register_raw_handler(pyc.after_module_stmt)
        def on_after_module_stmt(self, ret, node_id, frame, event, *_, **__):
            if len(log) == 1:
                log.append(("after_module_stmt", ret))

    try:
        T.instance().exec("40 + 2")
    finally:
        T.clear_instance()
    return log


def main():
    expected = run(nested=False, allow=False, region=False)
    bad = False
    for label, allow, region in (
        ("no opt-in", False, False),
        ("allow_reentrant_events = True", True, False),
    ):
        observed = run(nested=True, allow=allow, region=region)
        print(f"after_stmt handler of '40 + 2' runs tracer.exec('w = 5'); {label}:")
        print(f"  expected: {expected}")
        print(f"  observed: {observed}")
        bad = bad or observed != expected
    return 1 if bad else 0


if __name__ == "__main__":
    sys.exit(main())
