"""C10: with guards on and an event in exempt_events, a function / class defined inside a loop body or inside
another function keeps its docstring when instrumentation has been switched off.

The guard-exempt copy of a loop / function body is instrumented by the expression rewriter alone; a docstring
statement nested in that copy (the def is not the copy's own) was wrapped like any string, so that the object
defined by the copy had __doc__ None.  Exits 1 when the violation shows."""
import sys

import pyccolo as pyc

SRC = '''
out = []
w = 2
while w > 0:
    w -= 1
    def f():
        """doc"""
        return 1
    class K:
        """kdoc"""
    out.append((f.__doc__, K.__doc__))
def g():
    def h():
        """hdoc"""
    return h.__doc__
out.append(g())
out.append(g())
'''


class T(pyc.BaseTracer):
    global_guards_enabled = True
    exempt = True

    def should_propagate_handler_exception(self, evt, exc):
        return True

    @pyc.register_handler((pyc.after_string, pyc.after_expr_stmt), exempt_from_guards=True)
    def s(self, ret, *_, **__):
        return ret

    @pyc.register_raw_handler(pyc.after_while_loop_iter)
    def it(self, *_, guard, **__):
        self.activate_guard(guard)

    @pyc.register_raw_handler(pyc.after_function_execution)
    def fe(self, *_, guard, **__):
        self.activate_guard(guard)


def main():
    env = {}
    exec(SRC, env)
    expected = env["out"]
    try:
        try:
            observed = T.instance().exec(SRC, {})["out"]
        except Exception as e:
            observed = repr(e)
    finally:
        T.clear_instance()
    print("expected:", expected)
    print("observed:", observed)
    return 0 if expected == observed else 1


if __name__ == "__main__":
    sys.exit(main())
