"""demo2 (C13, node table not tied to the bytecode it belongs to):
 (a) history  traced import of v0  ->  edit to v1  ->  traced import of v1 that RAISES (pyc rewritten before the body
     runs, node table only written after it)  ->  traced import of v1: valid pyc + node table of v0 => every event
     arrives with node None, in every later process.
 (b) the node table is written non-atomically and read without tolerance: a process that cannot finish writing it
     (file size limit / disk full; simulated with RLIMIT_FSIZE) leaves a truncated .pkl and every later traced import
     of the module raises UnpicklingError."""
import json, os, shutil, subprocess, sys, tempfile, textwrap

import pyccolo  # from PYTHONPATH

LIB = os.path.dirname(os.path.dirname(os.path.abspath(pyccolo.__file__)))


def write(root, rel, src, mode="w"):
    path = os.path.join(root, rel)
    os.makedirs(os.path.dirname(path), exist_ok=True)
    with open(path, mode) as f:
        f.write(textwrap.dedent(src) if mode == "w" else src)
    return path


def run(root, code, *, pyargs=(), argv=None, write_bytecode=True, env_extra=None):
    """run `code` (or `argv`) in a fresh interpreter with cwd=root; returns (json after '@@' or None, CompletedProcess)"""
    env = dict(os.environ)
    for var in ("PYTHONDONTWRITEBYTECODE", "PYTHONOPTIMIZE", "PYTHONPYCACHEPREFIX"):
        env.pop(var, None)
    env["PYTHONPATH"] = os.pathsep.join([LIB, root])
    if not write_bytecode:
        env["PYTHONDONTWRITEBYTECODE"] = "1"
    env.update(env_extra or {})
    cmd = [sys.executable, *pyargs] + (list(argv) if argv else ["-c", textwrap.dedent(code)])
    p = subprocess.run(cmd, cwd=root, env=env, capture_output=True, text=True, timeout=50)
    res = None
    for line in p.stdout.splitlines():
        if line.startswith("@@"):
            res = json.loads(line[2:])
    return res, p


# a tracer module as a user would write it: accepts the files named in ACCEPT (basenames),
# logs (event, file, node type, line) for three events
TRC = '''
import json, os
import pyccolo as pyc

LOG = []
ACCEPT = {ACCEPT!r}


class T(pyc.BaseTracer):
    def should_instrument_file(self, filename):
        return os.path.basename(filename) in ACCEPT

    @pyc.register_raw_handler((pyc.after_assign_rhs, pyc.load_name, pyc.after_stmt))
    def log(self, ret, node_id, frame, event, *_, **__):
        node = self.ast_node_by_id.get(node_id)
        LOG.append([event.value, os.path.basename(frame.f_code.co_filename), type(node).__name__, getattr(node, "lineno", None)])
        return ret


def dump(**extra):
    print("@@" + json.dumps(dict(log=LOG, **extra)))
'''


V0 = "a = 1\nb = 2\nc = a + b\n"
V1 = "import os\nif os.environ.get('DEP_MISSING'):\n    raise ImportError('dependency missing')\nzz = [1, 2]\nq = zz[0] + 5\n"

SCENARIO = '''
import trc
err = None
try:
    with trc.T.instance().tracing_enabled():
        import m
except Exception as e:
    err = repr(e)
trc.dump(err=err)
'''

LIMITED = '''
import resource, trc
soft, hard = resource.getrlimit(resource.RLIMIT_FSIZE)
resource.setrlimit(resource.RLIMIT_FSIZE, (6000, hard))   # pyc fits, node table does not
err = None
try:
    with trc.T.instance().tracing_enabled():
        import m
except Exception as e:
    err = repr(e)
resource.setrlimit(resource.RLIMIT_FSIZE, (soft, hard))
trc.dump(err=err)
'''


def fresh_root(src):
    root = tempfile.mkdtemp(prefix="c12demo2_")
    write(root, "trc.py", TRC.replace("{ACCEPT!r}", repr({"m.py"})))
    set_source(root, src, 0)
    run(root, "import trc")  # trc.pyc exists before any limit applies
    return root


def set_source(root, src, age):
    path = write(root, "m.py", src)
    t = 1_700_000_000 + 10 * age   # distinct mtimes, no sleeping
    os.utime(path, (t, t))


def main():
    roots = []
    rc = 0
    try:
        # ---------- (a)
        ref_root = fresh_root(V1); roots.append(ref_root)
        ref, p = run(ref_root, SCENARIO)            # empty cache, v1
        assert ref and ref["err"] is None, p.stderr
        root = fresh_root(V0); roots.append(root)
        r1, _ = run(root, SCENARIO)                                    # process 1: v0, writes pyc + node table
        set_source(root, V1, 1)                                         # edit
        r2, _ = run(root, SCENARIO, env_extra={"DEP_MISSING": "1"})     # process 2: v1 raises at import
        r3, _ = run(root, SCENARIO)                                    # process 3: v1 imports fine
        r4, _ = run(root, SCENARIO)                                    # process 4: still
        print("(a) process 2 (import raises):", r2["err"])
        for tag, got in (("process 3", r3), ("process 4", r4)):
            if got != ref:
                rc = 1
                print("(a) VIOLATION in %s" % tag)
                print("    expected (empty cache):", [tuple(e) for e in ref["log"]])
                print("    observed              :", [tuple(e) for e in got["log"]], "err=%r" % got["err"])
            else:
                print("(a) %s ok" % tag)
        # ---------- (b)
        big = "".join("v%d = %d + 1\n" % (i, i) for i in range(40))
        ref_root = fresh_root(big); roots.append(ref_root)
        ref, _ = run(ref_root, SCENARIO)
        root = fresh_root(big); roots.append(root)
        l1, p = run(root, LIMITED)
        assert l1 is not None, p.stderr
        sizes = {f: os.path.getsize(os.path.join(root, "__pycache__", f)) for f in sorted(os.listdir(os.path.join(root, "__pycache__"))) if f.startswith("m.")}
        print("(b) cache after the size-limited process (err=%r):" % l1["err"], sizes)
        got, p = run(root, SCENARIO)
        if got != ref:
            rc = 1
            print("(b) VIOLATION in the next (unlimited) process")
            print("    expected: err=None and %d events with nodes" % len(ref["log"]))
            print("    observed: err=%r, %d events" % (got and got["err"], len(got["log"]) if got else -1))
        else:
            print("(b) ok")
        return rc
    finally:
        for r in roots:
            shutil.rmtree(r, ignore_errors=True)


if __name__ == "__main__":
    sys.exit(main())
