"""C17: while a worker thread is inside a tracing context of ITS OWN tracer, the main thread's
tracer receives no event at all for modules main imports.

One TraceFinder serves the whole tracer stack, and tracing_non_context installs it only when none
is on sys.meta_path yet.  The finder remembers the thread that created it and find_spec is a no-op
on every other thread (import_hooks.py, TraceFinder.__init__ / find_spec).  When the worker's
context came first, the only finder belongs to the worker: main's `with tracer: import m` finds no
finder of its own and the module is loaded uninstrumented.
Nothing is torn down here: the worker merely sits inside `with worker_tracer:` the whole time.
"""
import os
import sys
import tempfile
import threading

import pyccolo as pyc

sys.dont_write_bytecode = True
main_log = []


class MainTracer(pyc.BaseTracer):
    def should_instrument_file(self, filename):
        return os.path.basename(filename) == "c17_demo11_mod.py"

    @pyc.register_handler(pyc.after_stmt)
    def on_after_stmt(self, ret, node, frame, event, *_, **__):
        main_log.append((event.value, os.path.basename(frame.f_code.co_filename), node.lineno))


class WorkerTracer(pyc.BaseTracer):
    @pyc.register_handler(pyc.after_stmt)
    def on_after_stmt(self, *_, **__):
        pass


def run(with_worker):
    del main_log[:]
    sys.modules.pop("c17_demo11_mod", None)
    inside, leave = threading.Event(), threading.Event()

    def worker():
        with WorkerTracer.instance():
            inside.set()
            leave.wait(10)

    th = None
    if with_worker:
        th = threading.Thread(target=worker)
        th.start()
        inside.wait(10)
    try:
        with MainTracer.instance():
            import c17_demo11_mod  # noqa: F401
            # leave main's context first, so that the (known) tear-down of overlapping contexts plays no part
    finally:
        if th is not None:
            leave.set()
            th.join()
    return list(main_log)


def main():
    tmp = tempfile.mkdtemp()
    with open(os.path.join(tmp, "c17_demo11_mod.py"), "w") as f:
        f.write("a = 1\nb = a + 1\n")
    sys.path.insert(0, tmp)
    expected = run(with_worker=False)
    observed = run(with_worker=True)
    print("main: `with MainTracer: import c17_demo11_mod` while a worker sits inside `with WorkerTracer:`")
    print(f"  expected: {expected}")
    print(f"  observed: {observed}")
    return 1 if observed != expected else 0


if __name__ == "__main__":
    sys.exit(main())
