"""C09 demo 2: while a tracer with sys handlers is active, sys.gettrace() answers with a snapshot of
tracer.existing_tracer taken when sys.settrace was patched (i.e. the trace function that was installed when
the tracer object was *created* or last enabled), not with the trace function user code sees installed.
The canonical  old = sys.gettrace(); sys.settrace(mine); ...; sys.settrace(old)  therefore restores the wrong
function: a third-party tracer installed before the context is lost (also after the context), and
sys.settrace(f); sys.gettrace() is f  fails, also in other threads."""
import sys
import threading
import pyccolo as pyc


class CallTracer(pyc.BaseTracer):
    @pyc.register_raw_handler(pyc.call)
    def handle_call(self, ret, node, frame, event, *_, **__):
        pass


third_party_log = []


def third_party(frame, evt, arg):
    if frame.f_code.co_filename == __file__ and evt == "call":
        third_party_log.append(frame.f_code.co_name)
    return third_party


def mine(frame, evt, arg):
    return mine


def work():
    pass


def user_code():
    """save / install / restore, as doctest, pdb, coverage, ... do"""
    old = sys.gettrace()
    sys.settrace(mine)
    seen_while_installed = sys.gettrace()
    sys.settrace(old)
    work()
    return old, seen_while_installed


def in_thread(out):
    sys.settrace(mine)
    out.append(sys.gettrace())
    sys.settrace(None)


def name(f):
    return getattr(f, "__name__", repr(f))


def run(ctx):
    del third_party_log[:]
    sys.settrace(third_party)
    try:
        with ctx:
            old, seen = user_code()
            out = []
            th = threading.Thread(target=in_thread, args=(out,))
            th.start()
            th.join()
            work()
        after = sys.gettrace()
    finally:
        sys.settrace(None)
    return {
        "old": name(old),
        "gettrace_after_settrace_mine": name(seen),
        "gettrace_in_thread_after_settrace_mine": name(out[0]),
        "third_party_saw_calls": [n for n in third_party_log if n == "work"],
        "installed_after_context": name(after),
    }


def main():
    import contextlib

    tracer = CallTracer.instance()  # created while no trace function is installed
    expected = run(contextlib.nullcontext())
    observed = run(tracer)
    print("expected (no pyccolo):", expected)
    print("observed (pyccolo)   :", observed)
    if expected != observed:
        print("VIOLATION: sys.gettrace() inside the context is stale; the third-party tracer was lost")
        return 1
    print("no violation")
    return 0


if __name__ == "__main__":
    sys.exit(main())
