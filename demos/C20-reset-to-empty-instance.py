"""C20 demo1: push does not reset a field to its DECLARED initial value: the initialiser of every
field that is not None/int/bool/str/float/TraceStack is `type(initial_value)`, called with no arguments.
  * defaultdict(list)  -> defaultdict(None)   (default_factory lost: t.d[k].append(..) raises KeyError)
  * [1, 2] / {"a": 1} / {3} / (1, 2) / b"xy" / 2j / deque(maxlen=2) -> [] / {} / set() / () / b"" / 0j / deque()
Exits 1 when the violation shows."""
import sys
from collections import defaultdict, deque

import pyccolo as pyc

DECLARED = {
    "d": lambda: defaultdict(list),
    "l": lambda: [1, 2],
    "m": lambda: {"a": 1},
    "s": lambda: {3},
    "t": lambda: (1, 2),
    "b": lambda: b"xy",
    "c": lambda: 2j,
    "q": lambda: deque(maxlen=2),
}


class T(pyc.BaseTracer):
    def __init__(self, *a, **k):
        super().__init__(*a, **k)
        self.stack = self.make_stack()
        with self.stack.register_stack_state():
            for name, mk in DECLARED.items():
                setattr(self, name, mk())


def describe(v):
    extra = ""
    if isinstance(v, defaultdict):
        extra = " default_factory=%r" % (v.default_factory,)
    if isinstance(v, deque):
        extra = " maxlen=%r" % (v.maxlen,)
    return "%r%s" % (v, extra)


def main():
    t = T()
    bad = []
    with t.stack.push():
        for name, mk in DECLARED.items():
            exp, act = mk(), getattr(t, name)
            if describe(exp) != describe(act):
                bad.append((name, describe(exp), describe(act)))
        try:
            t.d["k"].append(1)
        except KeyError as e:
            bad.append(("d['k'].append(1)", "works as on the declared defaultdict(list)", "KeyError(%s)" % e))
    t.stack.pop()
    for name, exp, act in bad:
        print("after push, field %-18s expected (declared initial value): %-45s observed: %s" % (name, exp, act))
    if bad:
        print("VIOLATION: push resets fields to type(initial)() rather than to the declared initial value")
        return 1
    print("ok")
    return 0


if __name__ == "__main__":
    sys.exit(main())
