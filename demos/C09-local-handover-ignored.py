"""C09 demo 4: a third-party trace function (installed before the context) whose LOCAL trace function returns
a different local function ("from now on call loc2 for this frame") -- the interpreter honours that, pyccolo's
composed local function ignores the value its wrapped local function returns (for every event other than
'call') and keeps calling the first one."""
import sys
import pyccolo as pyc


class CallTracer(pyc.BaseTracer):
    @pyc.register_raw_handler(pyc.call)
    def handle_call(self, ret, node, frame, event, *_, **__):
        pass


def make_third_party():
    log = []

    def glob(frame, evt, arg):
        if frame.f_code.co_filename != __file__ or frame.f_code.co_name != "f":
            return None
        log.append(("glob", evt, frame.f_lineno - frame.f_code.co_firstlineno))
        return until_first_line

    def until_first_line(frame, evt, arg):
        log.append(("until_first_line", evt, frame.f_lineno - frame.f_code.co_firstlineno))
        return rest  # switch to another local function

    def rest(frame, evt, arg):
        log.append(("rest", evt, frame.f_lineno - frame.f_code.co_firstlineno))
        return rest

    return glob, log


def f():
    x = 1
    y = 2
    return x + y


def run(ctx):
    glob, log = make_third_party()
    sys.settrace(glob)
    try:
        with ctx:
            f()
    finally:
        sys.settrace(None)
    return log


def main():
    import contextlib

    expected = run(contextlib.nullcontext())
    observed = run(CallTracer.instance())
    print("expected (third-party stream without pyccolo):")
    for e in expected:
        print("   ", e)
    print("observed (with a pyccolo call tracer active):")
    for e in observed:
        print("   ", e)
    if expected != observed:
        print("VIOLATION: the local trace function the third party switched to is never called")
        return 1
    print("no violation")
    return 0


if __name__ == "__main__":
    sys.exit(main())
