"""C08 demo 4: PEP 695 type parameters. `class C[T: (int, str)]` declares a TypeVar CONSTRAINED to int/str
because the bound expression is syntactically a tuple. Subscribing to before_tuple_literal replaces the
tuple display by a call (emit(...)()), so the compiler now sees a BOUND whose value is the tuple:
T.__constraints__ becomes () and T.__bound__ becomes (int, str). Handler only observes."""
import ast
import sys

import pyccolo as pyc


class ObserveTuples(pyc.BaseTracer):
    @pyc.before_tuple_literal
    def h(self, ret, *_, **__):
        return None


SRC = """
class C[T: (int, str)]:
    pass
type Alias[U: (bytes, str)] = list[U]
result = (C.__type_params__[0].__constraints__, C.__type_params__[0].__bound__,
          Alias.__type_params__[0].__constraints__, Alias.__type_params__[0].__bound__)
"""
if sys.version_info < (3, 12):
    print("needs Python 3.12 syntax"); sys.exit(0)
plain = {}
exec(compile(SRC, "<plain>", "exec"), plain)
traced = {}
ObserveTuples.instance().exec_raw(ast.parse(SRC), traced, traced, "<sandbox_demo4>")
print("expected (constraints, bound, constraints, bound):", plain["result"])
print("observed                                         :", traced["result"])
if plain["result"] != traced["result"]:
    print("VIOLATION: observing before_tuple_literal turned TypeVar constraints into a bound")
    sys.exit(1)
print("no violation")
sys.exit(0)
