"""C15 demo3: library-internal names show up in results / are visible to the program.

a) nested pyc.exec on the SAME local mapping (from the text, or from a handler): the inner
   result contains `_X5ix_pyccolo_local_env` and `_X5ix_pyccolo_sandbox`
b) globals() inside the text shows the two scaffold names when globals is locals
c) locals() / vars() / dir() inside the text show the scaffold's `**__` parameter
d) functions / classes defined by the text carry `_X5ix_pyccolo_sandbox.<locals>.` in __qualname__
e) a caller's key that happens to be called like a scaffold name is deleted from the caller's mapping
"""
import sys
import pyccolo as pyc

bad = []
INTERNAL = "_X5ix"


def has_internal(obj):
    return INTERNAL in repr(obj) or "'__'" in repr(obj)


# a) nested on the same mapping
G, L = {}, {}
G["G"], G["L"] = G, L
outer = pyc.exec("import pyccolo as pyc\ninner = pyc.exec('y = 2', G, L)", G, L)
inner_keys = sorted(outer["inner"])
print("a) inner result keys: expected ['y'] observed", inner_keys)
if inner_keys != ["y"]:
    bad.append("a")

# a') same thing from a handler
class T(pyc.BaseTracer):
    seen = None

    @pyc.register_raw_handler(pyc.after_assign_rhs)
    def h(self, ret, *_, **__):
        T.seen = sorted(pyc.exec("q = 5", G2, L2, instrument=False))
        return ret


G2, L2 = {}, {}
T.instance().exec("x = 1", G2, L2)
print("a') result of handler's exec on the same mapping: expected ['q'] observed", T.seen)
if T.seen != ["q"]:
    bad.append("a'")

# b) globals() when globals is locals
g = {}
r = pyc.exec("seen = sorted(k for k in globals() if k != '__builtins__')", g, g)
g2 = {}
exec("seen = sorted(k for k in globals() if k not in ('__builtins__', 'seen'))", g2, g2)
print("b) globals() in the text: expected", g2["seen"], "observed", r["seen"])
if r["seen"] != g2["seen"]:
    bad.append("b")

# c) locals()
r = pyc.exec("x = 1\nsnap = dict(locals())", {}, {})
l = {}
exec("x = 1\nsnap = dict(locals())", {}, l)
print("c) dict(locals()) in the text: expected", l["snap"], "observed", r["snap"])
if r["snap"] != l["snap"]:
    bad.append("c")

# d) qualnames
r = pyc.exec("def f(): pass\nclass C: pass", {"__name__": "m"}, {})
obs = (r["f"].__qualname__, r["C"].__qualname__)
print("d) qualnames: expected ('f', 'C') observed", obs)
if obs != ("f", "C"):
    bad.append("d")

# e) caller's own key deleted
l = {"_X5ix_pyccolo_local_env": "mine", "a": 1}
pyc.exec("b = 2", {}, l)
print("e) caller's mapping after the call: expected {'_X5ix_pyccolo_local_env': 'mine', 'a': 1} observed", l)
if "_X5ix_pyccolo_local_env" not in l:
    bad.append("e")

sys.exit(1 if bad else 0)
