"""demo5: with a handler on after_stmt (and none on after_module_stmt) the value of a module-level expression
statement is kept alive by the tracer (BaseTracer._saved_expr_stmt_ret) until the next statement has run, so
finalizers / weakref callbacks fire one statement late: output order changes."""
import ast, io, sys, contextlib
import pyccolo as pyc

SRC = '''
class Res:
    def __init__(self, n): self.n = n
    def __del__(self): print("released", self.n)
Res(1)
print("after statement 1")
Res(2)
print("after statement 2")
'''

class T(pyc.BaseTracer):
    should_patch_meta_path = False
    instrument_all_files = True

    @pyc.register_raw_handler((pyc.after_stmt,))
    def observe(self, ret, *_, **__):
        return None


def run(code):
    out = io.StringIO()
    with contextlib.redirect_stdout(out):
        exec(code, {"__name__": "__main__"})
    return out.getvalue().split("\n")[:4]


plain = run(compile(SRC, "<prog>", "exec"))
t = T.instance()
with t.tracing_enabled():
    tree = t.make_ast_rewriter("<prog>").visit(ast.parse(SRC))
    inst = run(compile(tree, "<prog>", "exec"))
print("plain       :", plain)
print("instrumented:", inst)
if plain != inst:
    print("VIOLATION: side-effect (finalizer) order differs")
    sys.exit(1)
sys.exit(0)
