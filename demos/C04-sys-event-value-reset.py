"""C04 demo 1: sys events `call` / `exception` -- inside ONE tracer, a handler that returns nothing (or Skip /
SkipAll / raises) does not keep the value left by the previous handler: the value is reset to the tracer's
own `sys_tracer`.  So (a) the second `exception` handler is told ret=<sys_tracer> instead of the
(type, value, traceback) triple, (b) `Null` ("do not trace this frame") from the first `call` handler is undone
by a second handler that returns nothing, (c) a custom local trace function returned by the first `call`
handler is thrown away by a second handler that returns nothing."""
import sys

import pyccolo as pyc

problems = []

PROG_EXC = """
def g():
    raise ValueError("v")
def f():
    try:
        g()
    except ValueError:
        pass
    return 7
x = f()
"""
PROG = """
def f():
    return 7
x = f()
"""

# (a) what the second `exception` handler is told
seen = []


class ExcTracer(pyc.BaseTracer):
    @pyc.register_raw_handler(pyc.exception)
    def first(self, ret, node, frame, *_, **__):
        if frame.f_code.co_name == "g":
            seen.append(("first", ret))

    @pyc.register_raw_handler(pyc.exception)
    def second(self, ret, node, frame, *_, **__):
        if frame.f_code.co_name == "g":
            seen.append(("second", ret))


with ExcTracer.instance():
    pyc.exec(PROG_EXC, local_env={})
first_ret = [r for n, r in seen if n == "first"][0]
second_ret = [r for n, r in seen if n == "second"][0]
if not (isinstance(second_ret, tuple) and second_ret[0] is ValueError):
    problems.append(
        "(a) exception: first handler returned nothing, so the second must be told the same value "
        f"{first_ret[:2]!r}...; it was told {second_ret!r}"
    )

# (b) call: Null, then nothing
events = []


class NullThenNothing(pyc.BaseTracer):
    @pyc.register_raw_handler(pyc.call)
    def first(self, ret, node, frame, *_, **__):
        if frame.f_code.co_name == "f":
            return pyc.Null  # value becomes None: no local trace function for this frame

    @pyc.register_raw_handler(pyc.call)
    def second(self, ret, node, frame, *_, **__):
        if frame.f_code.co_name == "f":
            events.append(("second told", ret))
        return None  # keeps the value

    @pyc.register_raw_handler(pyc.return_)
    def on_return(self, ret, node, frame, *_, **__):
        if frame.f_code.co_name == "f":
            events.append(("return event in f", ret))


with NullThenNothing.instance():
    pyc.exec(PROG, local_env={})
if ("return event in f", 7) in events:
    problems.append(
        "(b) call: [Null, nothing] must leave None (frame f not traced, as with [Null] alone); "
        f"frame f was traced anyway: {events!r}"
    )

# (c) call: custom local trace function, then nothing
lt_calls = []


def local_tracer(frame, evt, arg):
    lt_calls.append(evt)
    return local_tracer


class ValueThenNothing(pyc.BaseTracer):
    @pyc.register_raw_handler(pyc.call)
    def first(self, ret, node, frame, *_, **__):
        if frame.f_code.co_name == "f":
            return local_tracer

    @pyc.register_raw_handler(pyc.call)
    def second(self, ret, node, frame, *_, **__):
        return None  # keeps the value


with ValueThenNothing.instance():
    pyc.exec(PROG, local_env={})
if "return" not in lt_calls:
    problems.append(
        "(c) call: [local_tracer, nothing] must leave local_tracer as the frame's local trace function "
        f"(as [local_tracer] alone does); local_tracer received {lt_calls!r}"
    )

if problems:
    print("VIOLATION (C04, sys events call/exception inside one tracer)")
    for p in problems:
        print(" -", p)
    sys.exit(1)
print("ok")
