"""demo6 (C12, accepted modules behave like the plain module): a module imported under tracing keeps the TraceLoader as
its __loader__, and TraceLoader.get_data treats EVERY non-.pyc path the tracer's filter accepts as Python source
(decode, universal newlines, re-encode).  With a directory filter (or instrument_all_files=True) the package's data files
read through pkgutil.get_data / __loader__.get_data come back altered (CRLF -> LF) or raise UnicodeDecodeError."""
import json, os, shutil, subprocess, sys, tempfile, textwrap

import pyccolo  # from PYTHONPATH

LIB = os.path.dirname(os.path.dirname(os.path.abspath(pyccolo.__file__)))


def write(root, rel, src, mode="w"):
    path = os.path.join(root, rel)
    os.makedirs(os.path.dirname(path), exist_ok=True)
    with open(path, mode) as f:
        f.write(textwrap.dedent(src) if mode == "w" else src)
    return path


def run(root, code, *, pyargs=(), argv=None, write_bytecode=True, env_extra=None):
    """run `code` (or `argv`) in a fresh interpreter with cwd=root; returns (json after '@@' or None, CompletedProcess)"""
    env = dict(os.environ)
    for var in ("PYTHONDONTWRITEBYTECODE", "PYTHONOPTIMIZE", "PYTHONPYCACHEPREFIX"):
        env.pop(var, None)
    env["PYTHONPATH"] = os.pathsep.join([LIB, root])
    if not write_bytecode:
        env["PYTHONDONTWRITEBYTECODE"] = "1"
    env.update(env_extra or {})
    cmd = [sys.executable, *pyargs] + (list(argv) if argv else ["-c", textwrap.dedent(code)])
    p = subprocess.run(cmd, cwd=root, env=env, capture_output=True, text=True, timeout=50)
    res = None
    for line in p.stdout.splitlines():
        if line.startswith("@@"):
            res = json.loads(line[2:])
    return res, p


# a tracer module as a user would write it: accepts the files named in ACCEPT (basenames),
# logs (event, file, node type, line) for three events
TRC = '''
import json, os
import pyccolo as pyc

LOG = []
ACCEPT = {ACCEPT!r}


class T(pyc.BaseTracer):
    def should_instrument_file(self, filename):
        return os.path.basename(filename) in ACCEPT

    @pyc.register_raw_handler((pyc.after_assign_rhs, pyc.load_name, pyc.after_stmt))
    def log(self, ret, node_id, frame, event, *_, **__):
        node = self.ast_node_by_id.get(node_id)
        LOG.append([event.value, os.path.basename(frame.f_code.co_filename), type(node).__name__, getattr(node, "lineno", None)])
        return ret


def dump(**extra):
    print("@@" + json.dumps(dict(log=LOG, **extra)))
'''


TRACER = '''
import os
import pyccolo as pyc

PKG_DIR = os.path.join(os.path.dirname(os.path.abspath(__file__)), "pkg") + os.sep


class DirTracer(pyc.BaseTracer):
    def should_instrument_file(self, filename):
        return filename.startswith(PKG_DIR)         # "instrument my package"

    @pyc.register_raw_handler(pyc.after_assign_rhs)
    def h(self, ret, *_, **__):
        return ret
'''

SCENARIO = '''
import json
%s
print("@@" + json.dumps(dict(text=repr(pkg.TEXT), blob=repr(pkg.BLOB), later=repr(pkg.read_again()))))
'''


def main():
    root = tempfile.mkdtemp(prefix="c12demo6_")
    try:
        write(root, "pkg/__init__.py", """
            import pkgutil
            TEXT = pkgutil.get_data(__name__, "table.csv")
            try:
                BLOB = pkgutil.get_data(__name__, "blob.bin")
            except Exception as e:
                BLOB = e
            def read_again():       # called after the tracing context has ended
                return pkgutil.get_data(__name__, "table.csv")
        """)
        write(root, "pkg/table.csv", b"a,b\r\n1,2\r\n", mode="wb")
        write(root, "pkg/blob.bin", bytes([0, 159, 146, 150, 255]), mode="wb")
        write(root, "dirtracer.py", TRACER)
        plain, p = run(root, SCENARIO % "import pkg", write_bytecode=False)
        traced, p2 = run(root, SCENARIO % "import dirtracer\nwith dirtracer.DirTracer.instance().tracing_enabled():\n    import pkg", write_bytecode=False)
        assert plain and traced, (p.stderr, p2.stderr)
        if plain != traced:
            print("VIOLATION")
            for k in plain:
                print("  %-6s expected (plain): %s" % (k, plain[k]))
                print("  %-6s observed (traced): %s" % ("", traced[k]))
            return 1
        print("ok")
        return 0
    finally:
        shutil.rmtree(root, ignore_errors=True)


if __name__ == "__main__":
    sys.exit(main())
