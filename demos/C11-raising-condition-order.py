"""C11 demo2: a predicate that raises for some node.  At delivery time an exception in a predicate means
"not satisfied" (it is swallowed in BaseTracer._emit_event); at rewrite time the very same exception
escapes from AstRewriter.visit and no handler of any tracer runs at all.  Whether it escapes depends on the
ORDER in which the handlers were registered (any() short-circuits)."""
import ast
import sys
import traceback

import pyccolo as pyc

SRC = "def f():\n    return 1\nf()\n[].append(1)\nf()\n"
# partial predicate: fine for `f()`, raises AttributeError for `[].append(1)` (func is an Attribute)
named_f = lambda node: node.func.id == "f"  # noqa: E731
is_method = lambda node: isinstance(node.func, ast.Attribute)  # noqa: E731


def run(order):
    calls = []

    def h_f(self, ret, node, *_, **__):
        calls.append(("named_f", node.lineno))

    def h_m(self, ret, node, *_, **__):
        calls.append(("is_method", node.lineno))

    ns = {}
    for which in order:
        if which == "f":
            ns["h_f"] = pyc.register_handler(pyc.after_call, when=named_f)(h_f)
        else:
            ns["h_m"] = pyc.register_handler(pyc.after_call, when=is_method)(h_m)
    T = type("T_" + "".join(order), (pyc.BaseTracer,), ns)
    t = T.instance()
    err = None
    try:
        with t.tracing_enabled():
            tree = t.make_ast_rewriter("<sandbox_demo2>").visit(ast.parse(SRC))
            exec(compile(tree, "<sandbox_demo2>", "exec"), {})
    except Exception as e:  # noqa
        err = e
    return sorted(calls), err


expected = sorted([("named_f", 3), ("named_f", 5), ("is_method", 4)])
bad = False
for order in (("m", "f"), ("f", "m")):
    calls, err = run(order)
    print("registration order", order)
    print("  expected:", expected)
    print("  observed:", calls, "| exception escaping the rewrite:", repr(err))
    if calls != expected or err is not None:
        bad = True
if bad:
    print("VIOLATION: a raising predicate aborts the whole rewrite (order dependent) instead of counting as false")
    sys.exit(1)
sys.exit(0)
