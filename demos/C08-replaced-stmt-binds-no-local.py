"""C08: a before_stmt handler returns a replacement statement; inside tracer.exec the replacement binds nothing the program can see.

`x = 7` is replaced by the text "x = 1" (the documented way to replace a statement: the handler returns source text or a callable,
and the instrumented code runs EXEC_SAVED_THUNK() instead of the statement).  tracer.exec runs the program inside a sandbox
FUNCTION, where `x` is a fast local; the replacement is executed by exec() against a snapshot of the frame's locals, which cannot
assign a fast local.  The program continues without `x`:  the next statement raises UnboundLocalError, where the replacement
computation should have been "what the program uses instead".  At module level (imports) the same replacement works.
Exits 1 when the violation shows."""
import sys

import pyccolo as pyc


class T(pyc.BaseTracer):
    @pyc.register_raw_handler(pyc.before_stmt)
    def h(self, ret, node_id, frame, *a, **k):
        node = self.ast_node_by_id.get(node_id)
        if getattr(node, "lineno", None) == 2:
            return "x = 1"
        return ret


def main():
    src = "y = 5\nx = 7\nz = x + y\n"
    expected = {"x": 1, "y": 5, "z": 6}
    try:
        try:
            env = T.instance().exec(src, {})
            observed = {k: env.get(k) for k in "xyz"}
        except Exception as e:  # noqa
            observed = "%s: %s" % (type(e).__name__, e)
    finally:
        T.clear_instance()
    print("expected:", expected)
    print("observed:", observed)
    return 0 if observed == expected else 1


if __name__ == "__main__":
    sys.exit(main())
