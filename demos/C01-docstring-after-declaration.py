"""demo3: a string statement that follows a `global` / `nonlocal` declaration is not a docstring, but the
instrumented function gets it as __doc__ (the declarations are stripped before looking for the docstring
and the string is then hoisted in front of them)."""
import ast, sys
import pyccolo as pyc

SRC = '''
counter = 0
def bump():
    global counter
    "not a docstring: it comes after the global declaration"
    counter += 1
bump()
doc = bump.__doc__
'''

class T(pyc.BaseTracer):
    should_patch_meta_path = False
    instrument_all_files = True

    @pyc.register_raw_handler((pyc.load_name,))   # any event
    def observe(self, ret, *_, **__):
        return None


env0 = {}
exec(compile(SRC, "<prog>", "exec"), env0)
t = T.instance()
with t.tracing_enabled():
    tree = t.make_ast_rewriter("<prog>").visit(ast.parse(SRC))
    env1 = {}
    exec(compile(tree, "<prog>", "exec"), env1)
print("plain        doc =", repr(env0["doc"]))
print("instrumented doc =", repr(env1["doc"]))
if env0["doc"] != env1["doc"]:
    print("VIOLATION: final binding `doc` (function __doc__) differs")
    sys.exit(1)
sys.exit(0)
