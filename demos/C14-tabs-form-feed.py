"""C14 demo 12 (borderline: tab indentation): a tab-indented block with two statements no longer parses

Run with pyccolo importable (PYTHONPATH); exits 1 and prints expected vs observed when the violation shows, 0 otherwise."""
import ast
import sys

import pyccolo as pyc
from pyccolo.syntax_augmentation import (
    AugmentationSpec,
    AugmentationType,
    make_syntax_augmenter,
)


def make_tracer(specs):
    """A tracer declaring `specs`; its handlers log (kind, name, lineno, tokens) for every node that
    get_augmentations() reports as augmented, at load_name / after_attribute_load / after_binop."""
    specs = list(specs)
    log = []

    class Tr(pyc.BaseTracer):
        @property
        def syntax_augmentation_specs(self):
            return specs

        def _note(self, kind, name, node):
            augs = self.get_augmentations(id(node))
            if augs:
                log.append((kind, name, node.lineno, tuple(sorted(s.token for s in augs))))

        @pyc.load_name
        def _h_name(self, ret, node, *_, **__):
            self._note("Name", node.id, node)
            return ret

        @pyc.after_attribute_load
        def _h_attr(self, ret, node, *_, **__):
            self._note("Attribute", node.attr, node)
            return ret

        @pyc.after_binop
        def _h_binop(self, ret, node, *_, **__):
            self._note("BinOp", type(node.op).__name__, node)
            return ret

    tracer = Tr.instance()
    tracer.aug_log = log
    return tracer


PRELUDE = (
    "class O:\n"
    "    def __init__(self, **kw):\n"
    "        self.__dict__.update(kw)\n"
    "a = O(b=O(c=5), n=1)\n"
    "x = 3\n"
    "y = 4\n"
    "f = abs\n"
)
N_PRELUDE = PRELUDE.count("\n")


class _Recorder:
    """stands in for the AstRewriter: the augmenter only calls register_augmented_position on it"""

    def __init__(self):
        self.positions = []

    def register_augmented_position(self, spec, lineno, col_offset):
        self.positions.append((lineno, col_offset))


def augment(src, spec):
    """the library's text transformation for one spec: (rewritten text, recorded (line, col) of each hit)"""
    rec = _Recorder()
    return make_syntax_augmenter(rec, spec)(src), rec.positions


def run(specs, body):
    """exec PRELUDE + body under a fresh tracer; returns (env or exception, sorted log)"""
    tracer = make_tracer(specs)
    try:
        env = tracer.exec(PRELUDE + body, {})
    except BaseException as e:  # noqa
        return e, sorted(tracer.aug_log)
    return env, sorted(tracer.aug_log)


failures = []


def check(what, expected, observed):
    ok = expected == observed
    print(("ok   " if ok else "FAIL ") + what)
    if not ok:
        print("     expected:", expected)
        print("     observed:", observed)
        failures.append(what)


def finish():
    if failures:
        print("%d violation(s) shown" % len(failures))
        sys.exit(1)
    print("no violation shown")
    sys.exit(0)
# ---- demo 12 (borderline: tab indentation): a tab-indented block with two statements no longer parses ----
import importlib
import os
import tempfile

dot = AugmentationSpec(AugmentationType.dot, "?.", ".")

src = "if x:\n\tz = 1\n\tw = 2\n"  # no occurrence of the token at all
out, pos = augment(src, dot)
check("text without any token is left as it is", src, out)

res, log = run([dot], "if x:\n\tz = a?.b.c\n\tw = 2\n")
check("exec of a tab-indented block", (5, 2), (res["z"], res["w"]) if not isinstance(res, BaseException) else repr(res))


class Chain(pyc.BaseTracer):
    def should_instrument_file(self, filename):
        return os.path.basename(filename).startswith("c14tab_")

    @property
    def syntax_augmentation_specs(self):
        return [dot]

    @pyc.after_attribute_load
    def attr(self, ret, node, *_, **__):
        return ret


d = tempfile.mkdtemp()
with open(os.path.join(d, "c14tab_mod.py"), "w") as fh:
    fh.write("def g(v):\n\tif v:\n\t\tv = v + 1\n\t\tv = v * 2\n\treturn v\nRESULT = g(1)\n")
sys.path.insert(0, d)
try:
    with Chain.instance():
        mod = importlib.import_module("c14tab_mod")
    got = mod.RESULT
except BaseException as e:  # noqa
    got = repr(e)
finally:
    sys.path.remove(d)
check("import of a tab-indented module that uses no token", 4, got)

# form feed at the start of a line (legal, used as a page separator)
res, log = run([dot], "\x0cz = a?.b.c\n".join(["w = 1\n", ""]))
check("form feed before a statement", 5, res["z"] if not isinstance(res, BaseException) else repr(res))
finish()
