"""C19 demo3: the re-compiled code object numbers its lines from the `def` (line 1 = first line of the
function's own source text), not from the file.

Consequences: tracebacks of exceptions raised inside the decorated function point at wrong file lines
(and print unrelated source text), `co_firstlineno` is 1, the nodes handed to handlers carry
function-relative `lineno`s, and `inspect.getsource(decorated)` returns unrelated text from the top of
the file.
"""
import inspect
import sys
import traceback
import warnings

warnings.simplefilter("ignore")
import pyccolo as pyc


class AssignTracer(pyc.BaseTracer):
    def __init__(self, *a, **k):
        super().__init__(*a, **k)
        self.linenos = []

    @pyc.register_handler(pyc.after_assign_rhs)
    def handle_assign(self, ret, node, frame, *_, **__):
        self.linenos.append((node.lineno, frame.f_lineno))


tracer = AssignTracer.instance()


def twin(x):
    y = x
    raise ValueError("boom")  # TWIN-RAISE


@tracer.instrumented
def decorated(x):
    y = x
    raise ValueError("boom")  # DECORATED-RAISE


with open(__file__) as fh:
    file_lines = fh.read().splitlines()
assign_line = next(i for i, l in enumerate(file_lines, 1) if l.strip() == "y = x" and i > 35)
raise_line = next(i for i, l in enumerate(file_lines, 1) if l.endswith("# DECORATED-RAISE") and l.startswith("    raise"))
def_line = raise_line - 3  # the decorator line: co_firstlineno of a decorated def

ok = True


def innermost_lineno(fn):
    try:
        fn(1)
    except ValueError as e:
        tb = e.__traceback__
        while tb.tb_next is not None:
            tb = tb.tb_next
        return tb.tb_lineno, traceback.extract_tb(tb)[-1].line


lineno, shown = innermost_lineno(decorated)
if lineno != raise_line:
    ok = False
    print(f"traceback line of the raise: expected {raise_line} ({file_lines[raise_line - 1].strip()!r})")
    print(f"                             observed {lineno} ({shown!r})")
if tracer.linenos != [(assign_line, assign_line)]:
    ok = False
    print(f"(node.lineno, frame.f_lineno) seen by the handler: expected {[(assign_line, assign_line)]}, observed {tracer.linenos}")
first = decorated.__wrapped__.__code__.co_firstlineno
if first != def_line:
    ok = False
    print(f"co_firstlineno: expected {def_line}, observed {first}")
src = inspect.getsource(decorated)
if "DECORATED-RAISE" not in src:
    ok = False
    print("inspect.getsource(decorated): expected the function's text, observed", repr(src[:60]), "...")
if ok:
    print("no violation")
sys.exit(0 if ok else 1)
