"""C17: instrumenting code in a worker thread (tracer.exec in a worker) while the main thread is
instrumenting code of its own makes the MAIN thread's tracer.exec raise TypeError (or, for other
interleavings, gives main's rewritten code the line numbers of the worker's program).

The rewriters take the position of every node they create from one process-wide variable,
FastAst._LOCATION_OF_NODE (pyccolo/_fast/fast_ast.py, `with fast.location_of(node):`), which each
thread saves / sets / restores around its own blocks.  Schedule (made deterministic by parking the
threads in a `when=` condition, which the rewriter calls while it is inside such a block):
  worker enters a block (saved: None) and parks; main enters a block (saved: worker's node) and
  parks; worker finishes and restores None; main resumes inside its block and creates nodes with
  no position at all -> compile() fails.
The tracer does not allow multiple threads; no event of the worker is delivered.
"""
import sys
import threading

import pyccolo as pyc

MAIN_PROGRAM = "x = [1, 2, 3]\ny = x[0] + max(x[1:])\n"
WORKER_PROGRAM = "a = {1: 2}\nb = a[1] + len(str(a))\n"


def run(with_worker):
    calls = {"main": 0, "worker": 0}
    worker_parked, main_parked, worker_done = (threading.Event() for _ in range(3))

    def cond(node):
        who = "main" if threading.current_thread() is threading.main_thread() else "worker"
        calls[who] += 1
        if with_worker and calls[who] == 1:
            if who == "worker":
                worker_parked.set()
                main_parked.wait(10)
            else:
                main_parked.set()
                worker_done.wait(10)
        return True

    class T(pyc.BaseTracer):
        @pyc.register_handler(
            (pyc.after_binop, pyc.before_subscript_load, pyc.after_subscript_slice, pyc.before_call, pyc.after_stmt),
            when=cond,
        )
        def on_event(self, ret, node, frame, event, *_, **__):
            pass

    t = T.instance()
    worker_result = []

    def worker():
        try:
            worker_result.append(t.exec(WORKER_PROGRAM)["b"])
        except BaseException as exc:
            worker_result.append(repr(exc))
        finally:
            worker_parked.set()
            worker_done.set()

    try:
        with t:
            th = None
            if with_worker:
                th = threading.Thread(target=worker)
                th.start()
                worker_parked.wait(10)
            try:
                result = t.exec(MAIN_PROGRAM)["y"]
            except BaseException as exc:
                result = repr(exc)
            finally:
                main_parked.set()
            if th is not None:
                th.join()
    finally:
        T.clear_instance()
    return result, worker_result


def main():
    expected, _ = run(with_worker=False)
    observed, worker_result = run(with_worker=True)
    print("main: tracer.exec(MAIN_PROGRAM)['y'] while a worker runs tracer.exec(WORKER_PROGRAM):")
    print(f"  expected: {expected}")
    print(f"  observed: {observed}   (worker: {worker_result})")
    return 1 if observed != expected else 0


if __name__ == "__main__":
    sys.exit(main())
