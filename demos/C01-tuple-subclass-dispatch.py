import ast, sys, io, contextlib
import pyccolo as pyc
SRC = '''class T(tuple):
    def __len__(self):
        print("len called")
        return tuple.__len__(self)
    def __getitem__(self, i):
        print("getitem called")
        return tuple.__getitem__(self, i)
x = T((1, 2))
y = x
'''
class Tr(pyc.BaseTracer):
    @pyc.register_raw_handler((pyc.load_name, pyc.after_assign_rhs))
    def h(self, ret, *a, **k): return None
def run(code):
    out = io.StringIO()
    with contextlib.redirect_stdout(out):
        exec(code, {})
    return out.getvalue()
p = run(compile(SRC, "<plain>", "exec"))
t = Tr.instance()
with t.tracing_enabled():
    tree = t.make_ast_rewriter("<sandbox-tsub>").visit(ast.parse(SRC))
    q = run(compile(tree, "<sandbox-tsub>", "exec"))
print(repr(p)); print(repr(q))
sys.exit(0 if p == q else 1)
