import sys, ast, traceback
import pyccolo as pyc
SRC = '''class K:
    def me(self):
        return self
    def boom(self):
        raise ValueError("x")
k = K()
r = (k
     .me()
     .boom())
'''
def chain(e):
    out=[]; tb=e.__traceback__
    while tb is not None:
        out.append((tb.tb_frame.f_code.co_name, tb.tb_lineno)); tb=tb.tb_next
    return out[1:]
class Tr(pyc.BaseTracer):
    @pyc.register_raw_handler((pyc.before_call,))
    def h(self, ret, node, frame, evt, *a, **k):
        return None
try:
    exec(compile(SRC, "<plain>", "exec"), {})
except ValueError as e:
    c1 = chain(e)
t = Tr.instance()
with t.tracing_enabled():
    tree = t.make_ast_rewriter("<sandbox-ml>").visit(ast.parse(SRC))
    try:
        exec(compile(tree, "<sandbox-ml>", "exec"), {})
    except ValueError as e:
        c2 = chain(e)
print(c1); print(c2)
sys.exit(0 if c1 == c2 else 1)
