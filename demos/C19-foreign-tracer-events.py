"""C19 demo7: events are not delivered "to exactly those tracers".

`f` is decorated with tracer A only, `g` with tracer B only (same file, both tracers handle the same
event).  When f calls g, tracer A receives the events of g's body as well, although g is not decorated
with A ("nothing outside the function's body is instrumented ... unless decorated too").  Likewise a
tracer that is merely on the stack when g is called (`with A: g(1)`) receives g's events.
Cause: emission broadcasts to every tracer on the stack whose file filter accepts the file, and each
per-call context enables the WHOLE file for its tracer, not the function.
"""
import sys
import warnings

warnings.simplefilter("ignore")
import pyccolo as pyc


class A(pyc.BaseTracer):
    def __init__(self, *a, **k):
        super().__init__(*a, **k)
        self.evs = []

    @pyc.register_handler(pyc.after_assign_rhs)
    def handle_assign(self, ret, node, frame, *_, **__):
        self.evs.append(frame.f_code.co_name)


class B(pyc.BaseTracer):
    def __init__(self, *a, **k):
        super().__init__(*a, **k)
        self.evs = []

    @pyc.register_handler(pyc.after_assign_rhs)
    def handle_assign(self, ret, node, frame, *_, **__):
        self.evs.append(frame.f_code.co_name)


a, b = A.instance(), B.instance()


@b.instrumented
def g(x):
    inner = x
    return inner


@a.instrumented
def f(x):
    first = x
    second = g(first)
    return second


assert f(1) == 1
ok = True
if a.evs != ["f", "f"] or b.evs != ["g"]:
    ok = False
    print("f decorated with A calls g decorated with B")
    print("  expected: A sees", ["f", "f"], "and B sees", ["g"])
    print("  observed: A sees", a.evs, "and B sees", b.evs)
if ok:
    print("no violation")
sys.exit(0 if ok else 1)
