"""C18 demo5: get_augmentations answers from augmented_node_ids_by_spec, a table of node ids that is
 (b) filled by comparing (node.lineno, column derived from a CHILD's end_col_offset) with the positions of
     the augmented tokens -- the child may end on another line, so a plain operator whose left operand ends
     on a later line at the right column is reported as augmented;
 (a) neither pickled with the bookkeeper nor re-created / re-keyed when a module comes from the bytecode
     cache, so get_augmentations is empty for every node of a cached module.

Expected: get_augmentations(node) == {spec} exactly for the nodes written with the augmented token."""
import ast, os, subprocess, sys, tempfile, textwrap
import pyccolo as pyc

spec = pyc.AugmentationSpec(aug_type=pyc.AugmentationType.binop, token="++", replacement="+")


class Add42(pyc.BaseTracer):
    @property
    def syntax_augmentation_specs(self):
        return [spec]

    def __init__(self, *a, **k):
        super().__init__(*a, **k)
        self.flagged = []

    @pyc.after_binop
    def h(self, ret, node, *_, **__):
        if spec in self.get_augmentations(id(node)):
            self.flagged.append(ast.unparse(node))
            return ret + 42


def part_b():
    t = Add42.instance()
    src = "x = (f(1 ++ 2,\n      3) + 4)\n"
    env = t.exec(src, {'f': lambda a, b: a}, {})
    print('(b) source:'); print(textwrap.indent(src, '      '), end='')
    print('    expected flagged: [\'1 + 2\'], x = %d' % ((1 + 2 + 42) + 4))
    print('    observed flagged: %s, x = %d' % (t.flagged, env['x']))
    return t.flagged != ['1 + 2']


def part_c():
    # the same with the bundled OptionalChainer: `.c` is a plain attribute access on None
    from pyccolo.examples import OptionalChainer
    res = []
    for src in ("a = None\nz = (a?.b(1,2).c)\n", "a = None\nz = (a?.b(\n  1,2).c)\n"):
        try:
            res.append('z = %r' % (OptionalChainer.instance().exec(src, {}, {})['z'],))
        except AttributeError as e:
            res.append('AttributeError')
    print('(c) OptionalChainer, `z = (a?.b(1,2).c)` with a = None: on one line -> %s ; call wrapped over two lines -> %s'
          % tuple(res))
    print('    expected: AttributeError both times')
    return res[0] != res[1]


DRIVER = textwrap.dedent('''
    import ast, sys
    sys.dont_write_bytecode = False
    import pyccolo as pyc
    spec = pyc.AugmentationSpec(aug_type=pyc.AugmentationType.binop, token="+-", replacement=" +")
    class Add42(pyc.BaseTracer):
        def should_instrument_file(self, filename):
            return filename.endswith('mod_c18_demo5.py')
        @property
        def syntax_augmentation_specs(self):
            return [spec]
        @pyc.after_binop
        def h(self, ret, node, *_, **__):
            print('EVT', ast.unparse(node), '| augmented' if spec in self.get_augmentations(node) else '| plain')
            if spec in self.get_augmentations(id(node)):
                return ret + 42
    with Add42.instance().tracing_enabled():
        import mod_c18_demo5
    print('RESULT a =', mod_c18_demo5.a, 'b =', mod_c18_demo5.b)
''')


def part_a():
    # (token and replacement have the same length: otherwise the size recorded in the .pyc never matches the
    # file and the cache is never used)
    d = tempfile.mkdtemp(prefix='c18_demo5_')
    with open(os.path.join(d, 'driver.py'), 'w') as f:
        f.write(DRIVER)
    with open(os.path.join(d, 'mod_c18_demo5.py'), 'w') as f:
        f.write("a = 21 +- 21\nb = 1 + 1\n")
    env = dict(os.environ)
    env.pop('PYTHONDONTWRITEBYTECODE', None)
    env['PYTHONPATH'] = os.pathsep.join([d] + [p for p in env.get('PYTHONPATH', '').split(os.pathsep) if p])
    outs = []
    for i in (1, 2):
        p = subprocess.run([sys.executable, os.path.join(d, 'driver.py')], cwd=d, env=env, capture_output=True, text=True)
        outs.append([l for l in p.stdout.splitlines() if l.startswith(('EVT', 'RESULT'))])
        if p.returncode:
            print(p.stderr[-1500:])
    print('(a) process 1 (compiled now)      :', outs[0])
    print('    process 2 (bytecode from cache):', outs[1], ' expected: the same as process 1')
    return outs[0] != outs[1]


if __name__ == '__main__':
    b = part_b()
    c = part_c()
    a = part_a()
    sys.exit(1 if (a or b or c) else 0)
