"""C05 for the sys.settrace events (call / return): stacked tracers are served innermost first, and the frames
of the `exec` scaffolding leak to tracers that never see them alone.

A (outer) and B (inner) both record `call` and `return`; B runs the program with B.exec(...).
  * alone, either tracer receives exactly call f / return f;
  * stacked, every occurrence is served B then A (the composed trace function calls its own tracer before
    the pre-existing one), A additionally receives the calls of `<module>` and of the sandbox function
    (the skip-the-scaffolding counter lives on the exec-ing tracer only), and B receives their returns.
"""
import contextlib
import sys

import pyccolo as pyc

log = []


def mk(tag):
    class T(pyc.BaseTracer):
        @pyc.register_raw_handler((pyc.call, pyc.return_))
        def h(self, ret, node_id, frame, event, *_, **__):
            name = frame.f_code.co_name
            log.append((tag, event.name, "<sandbox function>" if "sandbox" in name else name))

    T.__name__ = tag
    return T


SRC = "def f():\n    return 1\nx = f()\n"


def run(classes):
    log.clear()
    with contextlib.ExitStack() as st:
        for c in classes:
            st.enter_context(c.instance())
        classes[-1].instance().exec(SRC, {})
    for c in classes:
        c.clear_instance()
    return list(log)


A, B = mk("A"), mk("B")
a_alone = [e[1:] for e in run([A])]
b_alone = [e[1:] for e in run([B])]
stacked = run([A, B])
a_st = [e[1:] for e in stacked if e[0] == "A"]
b_st = [e[1:] for e in stacked if e[0] == "B"]
order_bad = [
    (stacked[i], stacked[i + 1])
    for i in range(len(stacked) - 1)
    if stacked[i][1:] == stacked[i + 1][1:] and (stacked[i][0], stacked[i + 1][0]) == ("B", "A")
]
if a_alone != a_st or b_alone != b_st or order_bad:
    print("VIOLATION (C05, sys events)")
    print("A alone  :", a_alone)
    print("A stacked:", a_st)
    print("B alone  :", b_alone)
    print("B stacked:", b_st)
    print("occurrences served inner (B) before outer (A):", len(order_bad), "e.g.", order_bad[:1])
    sys.exit(1)
print("ok")
sys.exit(0)
