"""C04 demo 5: import events across two stacked tracers A (activated first) and B.
before_import: the hook folds the stack in REVERSED order (B first), so when A redirects the import to another
source file B is not told about it (B runs first and is told the original path), whereas A is told what B left.
after_import: every tracer is called with ret=None and its result is dropped: the value left by A is not passed
to B, and SkipAll returned by A does not end B."""
import importlib
import os
import sys
import tempfile

import pyccolo as pyc

sys.dont_write_bytecode = True
tmpdir = tempfile.mkdtemp()
for modname in ("c04_demo5_orig", "c04_demo5_other"):
    with open(os.path.join(tmpdir, modname + ".py"), "w") as f:
        f.write(f"VAL = {modname!r}\n")
sys.path.insert(0, tmpdir)
OTHER = os.path.join(tmpdir, "c04_demo5_other.py")
log = []


def make(name, before_outcome, after_outcome):
    def should_instrument_file(self, filename):
        return filename.startswith(tmpdir)

    def before(self, ret, *_, qualified_module_name=None, **__):
        if qualified_module_name == "c04_demo5_orig":
            log.append((name, "before_import", os.path.basename(ret) if isinstance(ret, str) else ret))
            return before_outcome

    def after(self, ret, *_, module=None, **__):
        if module.__name__ == "c04_demo5_orig":
            log.append((name, "after_import", ret))
            return after_outcome

    return type(pyc.BaseTracer)(
        name,
        (pyc.BaseTracer,),
        dict(
            should_instrument_file=should_instrument_file,
            before=pyc.register_raw_handler(pyc.before_import)(before),
            after=pyc.register_raw_handler(pyc.after_import)(after),
        ),
    )


def run(a_cls, b_cls):
    del log[:]
    sys.modules.pop("c04_demo5_orig", None)
    with a_cls.instance():
        with b_cls.instance():
            importlib.import_module("c04_demo5_orig")
    sys.modules.pop("c04_demo5_orig", None)
    a_cls.clear_instance()
    b_cls.clear_instance()
    return list(log)


problems = []

got = [entry for entry in run(make("A", OTHER, None), make("B", None, None)) if entry[1] == "before_import"][:2]
expected = [("A", "before_import", "c04_demo5_orig.py"), ("B", "before_import", "c04_demo5_other.py")]
if got != expected:
    problems.append(f"before_import, A redirects: expected first round of calls {expected!r}, observed {got!r}")

got = [entry for entry in run(make("A", None, 5), make("B", None, None)) if entry[1] == "after_import"]
expected = [("A", "after_import", None), ("B", "after_import", 5)]
if got != expected:
    problems.append(f"after_import, A returns 5: expected {expected!r}, observed {got!r}")

got = [entry for entry in run(make("A", None, pyc.SkipAll), make("B", None, None)) if entry[1] == "after_import"]
expected = [("A", "after_import", None)]
if got != expected:
    problems.append(f"after_import, A returns SkipAll: expected {expected!r} (B ended), observed {got!r}")

if problems:
    print("VIOLATION (C04, import events across stacked tracers)")
    for p in problems:
        print(" -", p)
    sys.exit(1)
print("ok")
