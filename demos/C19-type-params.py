"""C19 demo8: shapes for which the code object / source lookup of the decorator fails.

(a) a PEP 695 generic function `def f[T](...)` (Python >= 3.12): its code object is nested inside the
    `<generic parameters of f>` code object, the loop over the TOP-LEVEL `co_consts` of the compiled
    module never finds it, `f.__code__` is silently left alone: no events, no error;
(b) a lambda assigned to a name: `inspect.getsource` returns the whole assignment statement, and
    `AstRewriter.visit` asserts on anything that is not a (Async)FunctionDef: AssertionError.
"""
import importlib.util
import os
import sys
import tempfile
import warnings

warnings.simplefilter("ignore")
import pyccolo as pyc

if sys.version_info < (3, 12):
    print("needs Python 3.12 for the generic-function part")
    sys.exit(0)

# `def f[T]` would be a syntax error for older parsers, so the two functions live in a generated module
SRC = '''
@tracer.instrumented
def plain(x: int) -> int:
    y = x
    return y

@tracer.instrumented
def generic[T](x: T) -> T:
    y = x
    return y
'''
path = os.path.join(tempfile.mkdtemp(), "c19_generic_mod.py")
with open(path, "w") as fh:
    fh.write(SRC)


class AssignTracer(pyc.BaseTracer):
    def __init__(self, *a, **k):
        super().__init__(*a, **k)
        self.evs = []

    def should_instrument_file(self, filename):
        return filename == path

    @pyc.register_handler(pyc.after_assign_rhs)
    def handle_assign(self, ret, node, frame, *_, **__):
        self.evs.append(frame.f_code.co_name)


tracer = AssignTracer.instance()
ok = True

spec = importlib.util.spec_from_file_location("c19_generic_mod", path)
mod = importlib.util.module_from_spec(spec)
mod.tracer = tracer
sys.modules["c19_generic_mod"] = mod
spec.loader.exec_module(mod)

assert mod.plain(1) == 1
plain_evs = list(tracer.evs)
tracer.evs.clear()
assert mod.generic(1) == 1
generic_evs = list(tracer.evs)
if plain_evs != ["plain"] or generic_evs != ["generic"]:
    ok = False
    print("(a) expected events", ["plain"], "and", ["generic"], "; observed", plain_evs, "and", generic_evs)

if ok:
    print("no violation")
sys.exit(0 if ok else 1)
