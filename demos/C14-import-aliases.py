"""C14 demo 8: prefix / suffix on imports: relative imports and `as` names are not found

Run with pyccolo importable (PYTHONPATH); exits 1 and prints expected vs observed when the violation shows, 0 otherwise."""
import ast
import sys

import pyccolo as pyc
from pyccolo.syntax_augmentation import (
    AugmentationSpec,
    AugmentationType,
    make_syntax_augmenter,
)


def make_tracer(specs):
    """A tracer declaring `specs`; its handlers log (kind, name, lineno, tokens) for every node that
    get_augmentations() reports as augmented, at load_name / after_attribute_load / after_binop."""
    specs = list(specs)
    log = []

    class Tr(pyc.BaseTracer):
        @property
        def syntax_augmentation_specs(self):
            return specs

        def _note(self, kind, name, node):
            augs = self.get_augmentations(id(node))
            if augs:
                log.append((kind, name, node.lineno, tuple(sorted(s.token for s in augs))))

        @pyc.load_name
        def _h_name(self, ret, node, *_, **__):
            self._note("Name", node.id, node)
            return ret

        @pyc.after_attribute_load
        def _h_attr(self, ret, node, *_, **__):
            self._note("Attribute", node.attr, node)
            return ret

        @pyc.after_binop
        def _h_binop(self, ret, node, *_, **__):
            self._note("BinOp", type(node.op).__name__, node)
            return ret

    tracer = Tr.instance()
    tracer.aug_log = log
    return tracer


PRELUDE = (
    "class O:\n"
    "    def __init__(self, **kw):\n"
    "        self.__dict__.update(kw)\n"
    "a = O(b=O(c=5), n=1)\n"
    "x = 3\n"
    "y = 4\n"
    "f = abs\n"
)
N_PRELUDE = PRELUDE.count("\n")


class _Recorder:
    """stands in for the AstRewriter: the augmenter only calls register_augmented_position on it"""

    def __init__(self):
        self.positions = []

    def register_augmented_position(self, spec, lineno, col_offset):
        self.positions.append((lineno, col_offset))


def augment(src, spec):
    """the library's text transformation for one spec: (rewritten text, recorded (line, col) of each hit)"""
    rec = _Recorder()
    return make_syntax_augmenter(rec, spec)(src), rec.positions


def run(specs, body):
    """exec PRELUDE + body under a fresh tracer; returns (env or exception, sorted log)"""
    tracer = make_tracer(specs)
    try:
        env = tracer.exec(PRELUDE + body, {})
    except BaseException as e:  # noqa
        return e, sorted(tracer.aug_log)
    return env, sorted(tracer.aug_log)


failures = []


def check(what, expected, observed):
    ok = expected == observed
    print(("ok   " if ok else "FAIL ") + what)
    if not ok:
        print("     expected:", expected)
        print("     observed:", observed)
        failures.append(what)


def finish():
    if failures:
        print("%d violation(s) shown" % len(failures))
        sys.exit(1)
    print("no violation shown")
    sys.exit(0)
# ---- demo 8: prefix / suffix on imports: relative imports and `as` names are not found ----
import os
import tempfile

prefix = AugmentationSpec(AugmentationType.prefix, "$", "")
suffix = AugmentationSpec(AugmentationType.suffix, "!", "")


def marked_imports(specs, src):
    """[(statement text, tokens)] for the Import / ImportFrom nodes reported as augmented"""
    tracer = make_tracer(specs)
    type(tracer).reset_bookkeeping()        # the tables are shared by all tracer classes: only the source parsed below is looked at
    with tracer.tracing_disabled():
        tracer.parse(src)
        found = []
        for spec, ids in tracer.augmented_node_ids_by_spec.items():
            for node_id in ids:
                node = tracer.ast_node_by_id.get(node_id)
                if isinstance(node, (ast.Import, ast.ImportFrom)):
                    found.append((ast.unparse(node), spec.token))
    return sorted(found)


check("control: import $os", [("import os", "$")], marked_imports([prefix], "import $os\n"))
check("control: from os import $path", [("from os import path", "$")], marked_imports([prefix], "from os import $path\n"))
check("control: import os!", [("import os", "!")], marked_imports([suffix], "import os!\n"))

check("from .m import $n", [("from .m import n", "$")], marked_imports([prefix], "from .m import $n\n"))
check("from . import $n", [("from . import n", "$")], marked_imports([prefix], "from . import $n\n"))
check("from ..m import n!", [("from ..m import n", "!")], marked_imports([suffix], "from ..m import n!\n"))
check("import os as $o", [("import os as o", "$")], marked_imports([prefix], "import os as $o\n"))
check("import $os as o", [("import os as o", "$")], marked_imports([prefix], "import $os as o\n"))
check("from os import path as $p", [("from os import path as p", "$")], marked_imports([prefix], "from os import path as $p\n"))
check("import os as o!", [("import os as o", "!")], marked_imports([suffix], "import os as o!\n"))
finish()
