"""C15 demo4: supplied local names become keyword-only PARAMETERS of the scaffold function.

* `global NAME` for any supplied name is a SyntaxError ("name 'x' is parameter and global");
  with no mappings passed at module level (locals is globals) this hits every existing global
* a supplied mapping with a key that is not a legal parameter name (keyword, non-identifier,
  `None`, `__debug__`, non-string) makes every program fail, although the program never touches it
"""
import sys
import pyccolo as pyc

bad = []


def outcome(fn):
    try:
        return ("ok", fn())
    except BaseException as e:  # noqa
        return ("raised", type(e).__name__, getattr(e, "msg", None) or str(e))


def strip(m):
    return {k: v for k, v in m.items() if k != "__builtins__"}


# 1) global declaration of a supplied name, distinct mappings
text = "global counter\ncounter = 7"
g, l = {}, {"counter": 0}
exec(text, g, l)
want = (strip(g), l)
g, l = {}, {"counter": 0}
got = outcome(lambda: pyc.exec(text, g, l))
print("1) text", repr(text), "globals={}, locals={'counter': 0}")
print("   expected (builtin exec): no error; globals, locals afterwards =", want)
print("   observed (pyc.exec)    :", got, "globals afterwards =", strip(g))
if got[0] != "ok" or strip(g) != want[0]:
    bad.append(1)

# 2) the same at module level with no mappings passed (locals is globals)
counter = 0
got = outcome(lambda g=globals(): pyc.exec("global counter\ncounter = counter + 1", g, g))
print("2) module-level style call, globals is locals, existing global `counter`")
print("   expected: counter == 1, no error")
print("   observed:", got[0], "counter ==", counter)
if counter != 1:
    bad.append(2)

# 3) keys that are not legal parameter names
for key in ["class", "a b", "None", "__debug__"]:
    l = {key: 0}
    exec("y = 1", {}, l)
    want = dict(l)
    l = {key: 0}
    got = outcome(lambda: pyc.exec("y = 1", {}, l))
    print(f"3) locals={{{key!r}: 0}}, text 'y = 1'")
    print("   expected (builtin exec):", want)
    print("   observed (pyc.exec)    :", got)
    if got != ("ok", want):
        bad.append(("key", key))
sys.exit(1 if bad else 0)
