"""C11 demo7: when a tracer is instantiated, every predicate whose condition function has a `__name__` that is
also an attribute of the tracer has its condition REPLACED by that attribute (tracer.py __init__:
`getattr(self, predicate.condition.__name__)`).  The replacement is by name only and is written into the shared
predicate object.  (a) a module-level condition that merely shares its name with the handler (or with any tracer
attribute: reset, exec, eval, parse, guards, ...) stops being the condition; (b) two tracers inheriting one
conditional handler and overriding the condition method both end up with the condition of whichever was
instantiated last."""
import ast
import sys

import pyccolo as pyc

SRC = "a = 1 + 2\nb = 3 * 4\nc = 5 - 6\n"
bad = False

# ---- (b) ----------------------------------------------------------------------------------------
calls_b = []


class Base(pyc.BaseTracer):
    def wanted(self, node):
        return False

    @pyc.register_handler(pyc.after_binop, when=wanted)
    def h(self, ret, node, *_, **__):
        calls_b.append((type(self).__name__, type(node.op).__name__, node.lineno))


class AddTracer(Base):
    def wanted(self, node):
        return isinstance(node.op, ast.Add)


class MulTracer(Base):
    def wanted(self, node):
        return isinstance(node.op, ast.Mult)


add_tracer = AddTracer()
mul_tracer = MulTracer()  # merely creating it re-points AddTracer's condition
with add_tracer.tracing_enabled():
    tree = add_tracer.make_ast_rewriter("<sandbox_demo7b>").visit(ast.parse(SRC))
    exec(compile(tree, "<sandbox_demo7b>", "exec"), {})
exp_b = [("AddTracer", "Add", 1)]
print("(b) only AddTracer is active:")
print("    expected", exp_b)
print("    observed", calls_b)
bad |= calls_b != exp_b

if bad:
    print("VIOLATION: the registered condition is not the one that is evaluated")
    sys.exit(1)
sys.exit(0)
