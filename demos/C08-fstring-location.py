"""C08 demo 1: an f-string in a statement position that gives the rewriter no source location
(assert test / assert message / comparison operand of an assert / default argument / match subject /
`raise ... from`) makes the instrumented module uncompilable as soon as before_fstring is subscribed.

A handler that only observes (returns None) must not change the program."""
import ast
import sys

import pyccolo as pyc


class ObserveFstring(pyc.BaseTracer):
    seen = 0

    @pyc.before_fstring
    def h(self, ret, *_, **__):
        ObserveFstring.seen += 1
        return None  # observe only


PROGRAMS = {
    "assert message": "x = 1\nassert x == 1, f'x was {x}'\nresult = 'ok'\n",
    "assert operand": "x = 1\nassert f'{x}' == '1'\nresult = 'ok'\n",
    "default argument": "x = 1\ndef f(a=f'{x}'):\n    return a\nresult = 'ok' if f() == '1' else 'bad'\n",
    "match subject": "x = 1\nmatch f'{x}':\n    case '1':\n        result = 'ok'\n",
    # control case: here the f-string is a call argument, which does get a location -> fine
    "raise from (control)": "x = 1\ntry:\n    raise ValueError(1) from KeyError(f'{x}')\nexcept ValueError:\n    result = 'ok'\n",
    "raise-from direct": "x = 1\ntry:\n    raise ValueError(1) from (KeyError if f'{x}' else None)\nexcept ValueError:\n    result = 'ok'\n",
}

failures = []
for name, src in PROGRAMS.items():
    plain = {}
    exec(compile(src, "<plain>", "exec"), plain)
    expected = plain["result"]
    traced = {}
    try:
        ObserveFstring.instance().exec_raw(ast.parse(src), traced, traced, "<sandbox_demo1>")
        observed = traced.get("result")
    except BaseException as e:  # noqa
        observed = "%s: %s" % (type(e).__name__, e)
    status = "same" if observed == expected else "VIOLATION"
    print("%-18s expected result=%r   observed %r   [%s]" % (name, expected, observed, status))
    if observed != expected:
        failures.append(name)

if failures:
    print("\nVIOLATION: observing before_fstring changed %d program(s): %s" % (len(failures), failures))
    sys.exit(1)
print("no violation")
sys.exit(0)
