"""demo8: a complete attribute/subscript/call chain that merely sits *inside* the base of another chain
(list element, dict value, conditional operand, lambda body, operand of +) gets no after_load_complex_symbol,
although it is not a link of the outer chain.  `f(o.a)` / `x[o.a]` (argument / index) do get the event."""
import ast
import asyncio
import sys
import textwrap

import pyccolo as pyc


def trace(src, events, fname, run_async=None, env=None, silent=()):
    """Run src under a fresh tracer subscribed to `events`; return (stream, exception, env).
    stream entries: (event, node type, lineno, col_offset, source of node, repr(value))"""
    log = []

    class T(pyc.BaseTracer):
        instrument_all_files = True

        @pyc.register_handler(tuple(events))
        def h(self, ret, node, frame, event, *a, **kw):
            if isinstance(node, ast.AST):
                src_ = ast.unparse(node).split("\n")[0]
                log.append((event.value, type(node).__name__, getattr(node, "lineno", None),
                            getattr(node, "col_offset", None), src_, _r(ret)))
            else:
                log.append((event.value, None, None, None, node, _r(ret)))
            return None

        if silent:
            @pyc.register_handler(tuple(silent))
            def hs(self, ret, node, frame, event, *a, **kw):
                return None

    t = T.instance()
    env = {"__name__": "demo_mod"} if env is None else env
    exc = None
    try:
        with t.tracing_enabled():
            try:
                tree = t.make_ast_rewriter(fname).visit(ast.parse(textwrap.dedent(src)))
                exec(compile(tree, fname, "exec"), env)
                if run_async:
                    asyncio.run(env[run_async]())
            except BaseException as e:  # noqa
                exc = e
    finally:
        T.clear_instance()
    return log, exc, env


def _r(v):
    if type(v).__module__ == "builtins" and not callable(v) and " at 0x" not in repr(v):
        return repr(v)
    return "<%s>" % type(v).__name__


def report(title, expected, delivered):
    print(title)
    print("EXPECTED:")
    for e in expected:
        print("   ", e)
    print("DELIVERED:")
    for e in delivered:
        print("   ", e)
    if expected != delivered:
        print("VIOLATION: delivered stream differs from expected stream")
        sys.exit(1)
    print("no violation")
    sys.exit(0)

SRC = """
class O:
    pass
o = O(); o.a = o; o.v = 3
r1 = [o.a][0].v
r2 = (lambda: o.a)().v
r3 = (o.v + o.v).real
"""
log, exc, env = trace(SRC, [pyc.after_load_complex_symbol], "<sandbox-demo8>")
delivered = [(e[0], e[2], e[3], e[4]) for e in log if e[2] >= 5]
expected = [
    ("after_load_complex_symbol", 5, 6, "o.a"),
    ("after_load_complex_symbol", 5, 5, "[o.a][0].v"),
    ("after_load_complex_symbol", 6, 14, "o.a"),
    ("after_load_complex_symbol", 6, 5, "(lambda: o.a)().v"),
    ("after_load_complex_symbol", 7, 6, "o.v"),
    ("after_load_complex_symbol", 7, 12, "o.v"),
    ("after_load_complex_symbol", 7, 5, "(o.v + o.v).real"),
]
assert exc is None, exc
report("after_load_complex_symbol for chains nested (not linked) inside another chain", expected, delivered)
