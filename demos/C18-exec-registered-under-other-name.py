"""C18 demo9: tracer.exec / pyc.exec of a STRING registers the per-file bookkeeper (and with it the only
public way from a frame to its module_id / line table) under a sandbox name that no code object carries:
exec() draws one sandbox name for the code object, parse() draws the next one for the bookkeeper; an explicit
filename= is ignored for the bookkeeper.  Consequences: ast_bookkeeper_by_fname[frame.f_code.co_filename] fails
for every string exec, and executing the edited text of the same filename again never replaces the old
tree (all trees of 'cell_c18.py' stay registered).  With an ast.Module instead of a string the bookkeeper IS
keyed by the filename.

Expected: after exec(code, filename=F) the bookkeeper of the running code is ast_bookkeeper_by_fname[F];
after a second exec with the same F only the new tree is registered for F."""
import ast, sys
import pyccolo as pyc


class T(pyc.BaseTracer):
    def __init__(self, *a, **k):
        super().__init__(*a, **k)
        self.frames = []

    @pyc.register_handler(pyc.after_stmt)
    def h(self, ret, node, frame, event, *a, **k):
        self.frames.append((frame.f_code.co_filename, node))


if __name__ == '__main__':
    t = T.instance()
    t.exec("a = 1\nb = 2\n", {}, {}, filename='cell_c18.py')
    t.exec("c = 3\n", {}, {}, filename='cell_c18.py')          # the cell, edited and run again
    fnames = sorted({f for f, _ in t.frames})
    registered = sorted(T.ast_bookkeeper_by_fname)
    trees = [ast.unparse(n).replace('\n', '; ') for n in T.ast_node_by_id.values() if isinstance(n, ast.Module)]
    print('co_filename of the frames handlers saw:', fnames)
    print('keys of ast_bookkeeper_by_fname        :', registered, ' expected:', fnames)
    print('registered trees                       :', trees, " expected: ['c = 3']")
    t.frames.clear()
    t.exec("d = 4\n", {}, {})
    print('default name: frame', sorted({f for f, _ in t.frames}), 'bookkeeper keys', sorted(set(T.ast_bookkeeper_by_fname) - set(registered)))
    sys.exit(1 if (registered != fnames or trees != ['c = 3']) else 0)
