"""C11 demo5: the local guards compiled into a site are collected from EVERY tracer on the stack, including
tracers that do not instrument the file being rewritten.  Tracer A instruments prog_a.py and has a plain
load_name handler; tracer B only instruments prog_b.py and has a load_name handler with a local guard (which its
init_module handler initialises, the documented pattern).  prog_a.py is rewritten with B's guard test compiled
into A's sites; B's init_module is (rightly) not emitted for prog_a.py, so the program dies with NameError."""
import ast
import sys

import pyccolo as pyc

calls = []


class A(pyc.BaseTracer):
    def should_instrument_file(self, filename):
        return filename == "prog_a.py"

    @pyc.register_handler(pyc.load_name)
    def h(self, ret, node, *_, **__):
        calls.append(("A", node.id, node.lineno))


class B(pyc.BaseTracer):
    def should_instrument_file(self, filename):
        return filename == "prog_b.py"

    @pyc.register_handler(pyc.init_module)
    def init_module(self, ret, node, frame, *_, **__):
        for guard in self.local_guards_by_module_id.get(id(node), []):
            frame.f_globals[guard] = False

    @pyc.register_handler(pyc.load_name, guard=lambda node: "_G_" + node.id)
    def h(self, ret, node, frame, evt, guard, *_, **__):
        calls.append(("B", node.id, node.lineno))
        frame.f_globals[guard] = True


SRC = "x = 1\ny = x\nz = x + y\n"
a, b = A.instance(), B.instance()
err = None
env = {}
with a.tracing_enabled():
    with b.tracing_enabled():
        tree = b.make_ast_rewriter("prog_a.py").visit(ast.parse(SRC))
        rewritten = ast.unparse(tree)
        try:
            exec(compile(tree, "prog_a.py", "exec"), env)
        except Exception as e:  # noqa
            err = e

expected = [("A", "x", 2), ("A", "x", 3), ("A", "y", 3)]
print("rewritten prog_a.py (B does not instrument this file):")
print(rewritten)
print("expected handler calls:", expected, "and z == 2")
print("observed handler calls:", calls, "z ==", env.get("z"), "| exception:", repr(err))
if calls != expected or err is not None:
    print("VIOLATION: guard of a tracer that does not instrument the file is compiled into the file")
    sys.exit(1)
sys.exit(0)
