"""C06 / C07: enable_tracing() / disable_tracing() that are not well nested take the WRONG tracer off the stack.

History:  A.enable_tracing(); B.enable_tracing(); A.disable_tracing(); <site>; B.disable_tracing()
Expected at <site>: B's handlers fire (B was enabled and never disabled), A's do not.
Observed:           B is silent (it was removed from the tracer stack by A's exit), and A -- which was just
                    disabled -- still receives the events of code that is not inside a function body.
With two sys-level tracers the same history also leaves sys.settrace patched for good.
"""
import sys

import pyccolo as pyc
from pyccolo.emit_event import _TRACER_STACK

LOG = []


def make(name, sys_level=False):
    class T(pyc.BaseTracer):
        @pyc.register_raw_handler((pyc.after_stmt, pyc.before_function_body))
        def handle(self, ret, *_, **__):
            LOG.append(name)
            return ret

        if sys_level:

            @pyc.register_raw_handler(pyc.call)
            def handle_call(self, *_, **__):
                pass

    T.__name__ = T.__qualname__ = name
    return T


A, B = make("A").instance(), make("B").instance()

# code compiled earlier, under both tracers, silently
env = {}
with pyc.tracing_disabled([A, B]):
    env.update(B.exec("def f():\n    x = 1\n    return x\n", env, env))
    toplevel = compile(B.parse("y = 2", filename="<sandbox-top>"), "<sandbox-top>", "exec")


def fired(thunk):
    del LOG[:]
    thunk()
    return sorted(set(LOG))


failed = False
A.enable_tracing()
B.enable_tracing()
print("both enabled:       f() fires", fired(env["f"]), "(expected ['A', 'B'])")
A.disable_tracing()
stack = [type(t).__name__ for t in _TRACER_STACK]
print("after A.disable_tracing(): tracer stack expected ['B'], observed", stack)
got_f = fired(env["f"])
got_top = fired(lambda: exec(toplevel, {}))
print("   f()             fires: expected ['B'], observed", got_f)
print("   top-level stmt  fires: expected ['B'], observed", got_top)
failed |= got_f != ["B"] or got_top != ["B"] or stack != ["B"]
B.disable_tracing()
print("after B.disable_tracing(): tracer stack", _TRACER_STACK)

# the same with two sys-level tracers: what is left behind (C07)
orig_settrace, orig_gettrace = sys.settrace, sys.gettrace
C, D = make("C", True).instance(), make("D", True).instance()
C.enable_tracing()
D.enable_tracing()
C.disable_tracing()
D.disable_tracing()
print("sys-level pair, after both disable_tracing(): tracer stack", _TRACER_STACK)
print("   sys.settrace is the original: expected True, observed", sys.settrace is orig_settrace)
print("   sys.gettrace is the original: expected True, observed", sys.gettrace is orig_gettrace)
failed |= sys.settrace is not orig_settrace or sys.gettrace is not orig_gettrace
orig_settrace(None)
sys.exit(1 if failed else 0)
