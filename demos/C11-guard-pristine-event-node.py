"""C11 demo8: EmitterMixin.emit puts `<pristine copy of the EVENT'S NODE> if guard else <emission>` in place of
the expression it wraps.  That is only right when the wrapped expression IS the event's node.  For every event
whose node is an enclosing construct (known for before/after_subscript_slice; shown here for the others) a local
guard either changes what the program computes when set, or makes the rewritten module impossible to
rewrite/compile even when the guard is never set."""
import ast
import sys

import pyccolo as pyc

SRC = """
class O:
    def m(self, k):
        return k
o = O()
o.v = 1
lst = [1, 2, 3]
r_call = o.m(5)
r_attr = o.v
r_sub = lst[1]
g = lambda q: q + 1
r_lam = g(1)
o.v = 7
lst[0] = 9
del lst[2]
if r_attr:
    r_if = 1
for _i in range(1):
    pass
o.m(0)
"""
REF = {}
exec(SRC, REF)
KEYS = ["r_call", "r_attr", "r_sub", "r_lam", "lst"]
GUARD = "_my_guard"


def run(evt, guard_value):
    calls = []

    class T(pyc.BaseTracer):
        global_guards_enabled = False

        @pyc.register_handler(evt, guard=lambda node: GUARD)
        def h(self, ret, node, frame, event, *_, **__):
            calls.append(node.lineno)

    t = T.instance()
    env = {GUARD: guard_value}
    err = None
    try:
        with t.tracing_enabled():
            tree = t.make_ast_rewriter("<sandbox_demo8>").visit(ast.parse(SRC))
            exec(compile(tree, "<sandbox_demo8>", "exec"), env)
    except Exception as e:  # noqa
        err = e
    T.clear_instance()
    return calls, env, err


bad = False
for evt in (
    pyc.before_call,
    pyc.before_attribute_load,
    pyc.before_subscript_load,
    pyc.after_lambda_body,
    pyc.before_attribute_store,
    pyc.before_subscript_store,
    pyc.before_subscript_del,
    pyc.after_if_test,
    pyc.after_expr_stmt,
    pyc.before_function_body,
    pyc.before_for_loop_body,
):
    for guard_value in (False, True):
        calls, env, err = run(evt, guard_value)
        diffs = {k: (REF[k], env.get(k)) for k in KEYS if REF[k] != env.get(k)} if err is None else {}
        ok = err is None and not diffs and (not guard_value or not calls)
        bad |= not ok
        print(
            "%-24s guard %-5s: expected program unchanged%s; observed %s"
            % (
                evt.name,
                "SET" if guard_value else "unset",
                ", 0 handler calls" if guard_value else "",
                "ok"
                if ok
                else ("exception %r" % (err,) if err is not None else "results differ (expected, got): %r" % (diffs,)),
            )
        )
if bad:
    print("VIOLATION: with a local guard the expression is not 'evaluated untouched' / the module does not compile")
    sys.exit(1)
sys.exit(0)
