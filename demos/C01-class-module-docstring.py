import sys, ast
import pyccolo as pyc
SRC = '''"""module doc"""
from __future__ import annotations
class C:
    """class doc"""
    x = 1
class D:
    x = 2
    """not a doc"""
r = (__doc__, C.__doc__, D.__doc__)
'''
log = []
class T(pyc.BaseTracer):
    @pyc.register_raw_handler((pyc.after_string, pyc.after_expr_stmt, pyc.before_stmt, pyc.init_module, pyc.after_module_stmt))
    def h(self, ret, node, frame, evt, *a, **k):
        log.append((evt.value, type(node).__name__, getattr(node, "lineno", None)))
        return None
env = {}
exec(compile(SRC, "<plain>", "exec"), env)
t = T.instance()
with t.tracing_enabled():
    tree = t.make_ast_rewriter("<sandbox-doc>").visit(ast.parse(SRC))
    env2 = {}
    exec(compile(tree, "<sandbox-doc>", "exec"), env2)
print(env["r"]); print(env2["r"]); print(log[:6])
sys.exit(0 if env["r"] == env2["r"] else 1)
