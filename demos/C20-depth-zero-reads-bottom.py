"""C20 demo5: read-at-depth. depth=1 is the frame saved by the latest push, depth=2 the one before, ...
depth=0 and negative depths are not rejected: depth=0 silently returns the OLDEST frame (index -0 == 0) and
depth=-k the (k+1)-th oldest, i.e. the stack is read from the wrong end; only depths beyond len raise.
(With exactly one frame depth=0 and depth=1 coincide, which hides the problem in shallow tests.)
Exits 1 when the violation shows."""
import sys

import pyccolo as pyc


class T(pyc.BaseTracer):
    def __init__(self, *a, **k):
        super().__init__(*a, **k)
        self.stack = self.make_stack()
        with self.stack.register_stack_state():
            self.v = "declared"


def main():
    t = T()
    t.v = "v0"
    for i in (1, 2, 3):
        with t.stack.push():
            t.v = "v%d" % i
    # frames (oldest first): v0 v1 v2 ; current v3
    bad = 0
    for depth, exp in ((None, "v2"), (1, "v2"), (2, "v1"), (3, "v0"), (4, IndexError),
                       (0, "IndexError, or the current value 'v3'"),
                       (-1, IndexError), (-2, IndexError)):
        try:
            act = t.stack.get_field("v") if depth is None else t.stack.get_field("v", depth=depth)
        except IndexError:
            act = IndexError
        ok = act == exp or (depth == 0 and act in (IndexError, "v3"))
        print("get_field('v', depth=%-4s) expected %-42r observed %r%s" % (depth, exp, act, "" if ok else "   <-- wrong"))
        bad += not ok
    if bad:
        print("VIOLATION: depth <= 0 reads frames from the bottom of the stack instead of failing")
        return 1
    print("ok")
    return 0


if __name__ == "__main__":
    sys.exit(main())
