"""C18 demo2: the pickled node table (.pkl next to the cached bytecode) is written only after the module
body ran to completion, the bytecode before.  If an edited module raises while being imported, the new
.pyc sits next to the OLD .pkl; the next (successful) import of the same source takes the new bytecode
from the cache and registers the tree of the previous version of the file.

Expected: handlers get nodes of the current source (v2).  Observed: the tables hold the v1 tree for this
path and every handler gets node=None."""
import os, subprocess, sys, tempfile, textwrap, time

DRIVER = textwrap.dedent('''
    import ast, sys
    sys.dont_write_bytecode = False
    import pyccolo as pyc
    class T(pyc.BaseTracer):
        def should_instrument_file(self, filename):
            return filename.endswith('mod_c18_demo2.py')
        @pyc.register_handler((pyc.after_stmt,))
        def h(self, ret, node, frame, event, *a, **k):
            print('EVT', 'None' if node is None else ast.unparse(node).splitlines()[0])
    with T.instance().tracing_enabled():
        try:
            import mod_c18_demo2
        except ImportError as e:
            print('IMPORT FAILED', e)
            sys.exit(0)
    for n in T.ast_node_by_id.values():
        if isinstance(n, ast.Module):
            print('REGISTERED TREE STARTS WITH', ast.unparse(n).splitlines()[0])
''')
V1 = "x = 1\ny = x + 1\n"
V2 = textwrap.dedent('''
    import os
    p = 10
    if os.environ.get('C18_DEP_MISSING'):
        raise ImportError('dependency missing')
    q = p * 2
''').lstrip()


def run(d, extra_env=None):
    env = dict(os.environ)
    env.pop('PYTHONDONTWRITEBYTECODE', None)
    env['PYTHONPATH'] = os.pathsep.join([d] + [p for p in env.get('PYTHONPATH', '').split(os.pathsep) if p])
    env.update(extra_env or {})
    p = subprocess.run([sys.executable, os.path.join(d, 'driver.py')], cwd=d, env=env, capture_output=True, text=True)
    if p.returncode != 0:
        print(p.stderr[-2000:])
    return [l for l in p.stdout.splitlines() if l.startswith(('EVT', 'IMPORT', 'REGISTERED'))]


def main():
    d = tempfile.mkdtemp(prefix='c18_demo2_')
    mod = os.path.join(d, 'mod_c18_demo2.py')
    with open(os.path.join(d, 'driver.py'), 'w') as f:
        f.write(DRIVER)
    with open(mod, 'w') as f:
        f.write(V1)
    print('process A, v1 of the module:', run(d))
    with open(mod, 'w') as f:
        f.write(V2)
    t = time.time() + 10
    os.utime(mod, (t, t))
    print('process B, v2, import fails (environment):', run(d, {'C18_DEP_MISSING': '1'}))
    out = run(d)
    print('process C, v2, same source, import succeeds:', out)
    expected = ['EVT import os', 'EVT p = 10', "EVT if os.environ.get('C18_DEP_MISSING'):", 'EVT q = p * 2',
                'REGISTERED TREE STARTS WITH import os']
    print('expected:', expected)
    if 'EVT None' in out or 'REGISTERED TREE STARTS WITH x = 1' in out:
        print('VIOLATION: observed', out)
        return 1
    return 0


if __name__ == '__main__':
    sys.exit(main())
