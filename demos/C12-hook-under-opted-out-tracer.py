"""demo4 (C12, stack of tracers): the import hook is installed only by the FIRST tracer entering an empty stack, and
only if that tracer has should_patch_meta_path=True.  When the outermost context belongs to a tracer without it
(a user tracer with should_patch_meta_path=False, or the library's own pyc.tracing_disabled() which pushes NoopTracer),
a tracer entered inside that accepts m.py gets an uninstrumented m: no events."""
import json, os, shutil, subprocess, sys, tempfile, textwrap

import pyccolo  # from PYTHONPATH

LIB = os.path.dirname(os.path.dirname(os.path.abspath(pyccolo.__file__)))


def write(root, rel, src, mode="w"):
    path = os.path.join(root, rel)
    os.makedirs(os.path.dirname(path), exist_ok=True)
    with open(path, mode) as f:
        f.write(textwrap.dedent(src) if mode == "w" else src)
    return path


def run(root, code, *, pyargs=(), argv=None, write_bytecode=True, env_extra=None):
    """run `code` (or `argv`) in a fresh interpreter with cwd=root; returns (json after '@@' or None, CompletedProcess)"""
    env = dict(os.environ)
    for var in ("PYTHONDONTWRITEBYTECODE", "PYTHONOPTIMIZE", "PYTHONPYCACHEPREFIX"):
        env.pop(var, None)
    env["PYTHONPATH"] = os.pathsep.join([LIB, root])
    if not write_bytecode:
        env["PYTHONDONTWRITEBYTECODE"] = "1"
    env.update(env_extra or {})
    cmd = [sys.executable, *pyargs] + (list(argv) if argv else ["-c", textwrap.dedent(code)])
    p = subprocess.run(cmd, cwd=root, env=env, capture_output=True, text=True, timeout=50)
    res = None
    for line in p.stdout.splitlines():
        if line.startswith("@@"):
            res = json.loads(line[2:])
    return res, p


# a tracer module as a user would write it: accepts the files named in ACCEPT (basenames),
# logs (event, file, node type, line) for three events
TRC = '''
import json, os
import pyccolo as pyc

LOG = []
ACCEPT = {ACCEPT!r}


class T(pyc.BaseTracer):
    def should_instrument_file(self, filename):
        return os.path.basename(filename) in ACCEPT

    @pyc.register_raw_handler((pyc.after_assign_rhs, pyc.load_name, pyc.after_stmt))
    def log(self, ret, node_id, frame, event, *_, **__):
        node = self.ast_node_by_id.get(node_id)
        LOG.append([event.value, os.path.basename(frame.f_code.co_filename), type(node).__name__, getattr(node, "lineno", None)])
        return ret


def dump(**extra):
    print("@@" + json.dumps(dict(log=LOG, **extra)))
'''


SCENARIO = '''
import pyccolo as pyc, trc

class Quiet(pyc.BaseTracer):
    should_patch_meta_path = False      # this tracer itself does not care about imports

%s
trc.dump(y=m.y)
'''

VARIANTS = {
    "T alone": "with trc.T.instance().tracing_enabled():\n    import m",
    "T outside, Quiet inside": "with trc.T.instance().tracing_enabled():\n    with Quiet.instance().tracing_enabled():\n        import m",
    "Quiet outside, T inside": "with Quiet.instance().tracing_enabled():\n    with trc.T.instance().tracing_enabled():\n        import m",
    "pyc.tracing_disabled() outside, T inside": "with pyc.tracing_disabled():\n    with trc.T.instance().tracing_enabled():\n        import m",
}


def main():
    root = tempfile.mkdtemp(prefix="c12demo4_")
    try:
        write(root, "m.py", "x = 1\ny = x + 1\n")
        write(root, "trc.py", TRC.replace("{ACCEPT!r}", repr({"m.py"})))
        ref = None
        rc = 0
        for label, body in VARIANTS.items():
            got, p = run(root, SCENARIO % body, write_bytecode=False)
            assert got is not None, p.stderr
            if ref is None:
                ref = got
                assert ref["log"], "baseline delivered nothing?"
            ok = got == ref
            print("%-45s %s" % (label, "ok" if ok else "VIOLATION"))
            if not ok:
                rc = 1
                print("    expected: T accepts m.py, so the %d events of 'T alone': %s" % (len(ref["log"]), ref["log"]))
                print("    observed:", got["log"])
        return rc
    finally:
        shutil.rmtree(root, ignore_errors=True)


if __name__ == "__main__":
    sys.exit(main())
