"""demo6: two different constructs end up sharing ONE guard.

A guard is named after id(<registered pristine node>).  The registered nodes of a file are dropped when the
same file (same path and module id, as for a reloaded module or a re-run cell) is rewritten again, although
functions compiled from the earlier version are still alive and still test their guards.  The ids are then
reused by the nodes of a later rewrite, and a new body gets the same guard name as an old, still callable one:
activating the guard of the new body also silences the old one (and register_guard resets a guard that the
tracer had activated for the old one).

Property C10: activating the guard of a body silences that body; other bodies keep delivering events.
"""
import ast
import gc
import sys

import pyccolo as pyc

LOG = []


class T(pyc.BaseTracer):
    global_guards_enabled = True
    instrument_all_files = True

    @pyc.register_raw_handler((pyc.after_function_execution, pyc.after_for_loop_iter, pyc.load_name))
    def h(self, ret, node, frame, event, *a, guard=None, **kw):
        LOG.append((event.value, frame.f_code.co_name, guard))


def version(k):
    return (
        "def f%d(n):\n"
        "    acc = 0\n"
        "    for i in range(n):\n"
        "        acc += i\n"
        "    return acc\n" % k
    )


def guards_of(fn):
    return {n for n in fn.__code__.co_names if "_PYCCOLO_GUARD_" in n}


t = T.instance()
env = {}
found = None
with t.tracing_enabled():
    for k in range(60):
        # every version of the "file" defines a new function; the old ones stay referenced (env)
        tree = t.make_ast_rewriter("<demo6-cell>", module_id=4242).visit(ast.parse(version(k)))
        exec(compile(tree, "<demo6-cell>", "exec"), env)
        del tree
        gc.collect()
        for j in range(k):
            shared = guards_of(env["f%d" % j]) & guards_of(env["f%d" % k])
            if shared:
                found = (j, k, sorted(shared)[0])
                break
        if found:
            break
    if found is None:
        print("no guard name was reused in 60 rewrites: no violation shown")
        sys.exit(0)
    j, k, guard = found
    old, new = env["f%d" % j], env["f%d" % k]
    print("f%d (rewrite #%d) and f%d (rewrite #%d) both test %s" % (j, j, k, k, guard))

    def events_from(fn):
        LOG.clear()
        fn(3)
        return len([e for e in LOG if e[1] == fn.__name__])

    before = events_from(old)
    t.activate_guard(guard)  # the tracer silences (a body of) the NEW function f<k> ...
    after = events_from(old)  # ... and a body of the OLD function f<j> falls silent as well
    t.deactivate_guard(guard)
    print("events from the old function f%d: %d before, %d after activating a guard of f%d" % (j, before, after, k))
    if after != before:
        print(
            "VIOLATION: expected %d events from f%d (none of ITS guards was activated), observed %d"
            % (before, j, after)
        )
        sys.exit(1)
sys.exit(0)
