"""C04 demo 2: sys events (`return`, `call`, ...) with two stacked tracers A (activated first) and B.
For AST events the stack is folded in activation order (A then B, B is told what A left, SkipAll from A ends B).
For sys events each tracer installs its own sys.settrace function composed with the one it found, so
(a) B's handlers run BEFORE A's, (b) nothing is threaded from one tracer to the next, (c) SkipAll returned by A
does not end B (while SkipAll returned by B ends A), (d) B's `call` result Null ("do not trace this frame") is
honoured when B is alone or outermost but ignored when A is outside B."""
import sys

import pyccolo as pyc

PROG = """
def f():
    return 7
x = f()
"""
log = []


def make(name, return_outcome, call_outcome=None):
    ns = {}

    def on_return(self, ret, node, frame, *_, **__):
        if frame.f_code.co_name == "f":
            log.append((name, "return", ret))
            return return_outcome

    ns["on_return"] = pyc.register_raw_handler(pyc.return_)(on_return)
    if call_outcome is not None:

        def on_call(self, ret, node, frame, *_, **__):
            if frame.f_code.co_name == "f":
                return call_outcome

        ns["on_call"] = pyc.register_raw_handler(pyc.call)(on_call)
    return type(pyc.BaseTracer)(name, (pyc.BaseTracer,), ns)


def run(first_cls, second_cls):
    del log[:]
    with first_cls.instance():
        with second_cls.instance():
            pyc.exec(PROG, local_env={})
    first_cls.clear_instance()
    second_cls.clear_instance()
    return list(log)


problems = []

# (a) + (b): order and threading
got = run(make("A", 5), make("B", None))
expected = [("A", "return", 7), ("B", "return", 5)]
if got != expected:
    problems.append(f"(a,b) A returns 5, B returns nothing: expected call log {expected!r}, observed {got!r}")

# (c) SkipAll from the first-activated tracer
got = run(make("A", pyc.SkipAll), make("B", None))
expected = [("A", "return", 7)]
if got != expected:
    problems.append(f"(c) A returns SkipAll: expected call log {expected!r} (B ended), observed {got!r}")

# (d) Null on `call` by the inner tracer
got_alone = None
B = make("B", None, call_outcome=pyc.Null)
del log[:]
with B.instance():
    pyc.exec(PROG, local_env={})
B.clear_instance()
got_alone = list(log)
got_stacked = run(make("A", None), make("B", None, call_outcome=pyc.Null))
if ("B", "return", 7) in got_stacked and ("B", "return", 7) not in got_alone:
    problems.append(
        "(d) B's call handler leaves None (Null) for frame f: B must get no return event for f. "
        f"B alone: {got_alone!r}; A outside B: {got_stacked!r}"
    )

if problems:
    print("VIOLATION (C04, sys events across stacked tracers)")
    for p in problems:
        print(" -", p)
    sys.exit(1)
print("ok")
