"""C05: `global_guards_enabled` is decided for the whole stack (any()), so a guards-off tracer is changed by a
guards-on neighbour.

T1 (global_guards_enabled=False) records comprehension / loop / function-exit events and load_name.
  (a) kwargs: alone its after_comprehension_* emissions carry no `guard` keyword and loop / function exits carry
      guard=None; stacked with a guards-on tracer they carry guard='<name>'.
  (b) a handler written with the positional signature the library's own tests use
      `(self, ret, node, frame, event, guard, *_, **__)` works alone, but stacked every call raises
      "got multiple values for argument 'guard'" (swallowed): the handler silently stops receiving events.
  (c) the README's `TracesOnce` tracer (observing: returns None, activates the loop guard after an iteration)
      silences T1's events in later iterations although T1 has guards disabled.
"""
import contextlib
import sys

import pyccolo as pyc

SRC = "r = [x for x in (1, 2) if x]\nfor i in (1, 2, 3):\n    y = i\ndef f():\n    pass\nf()\n"
kw_log, pos_log, name_log = [], [], []


class T1(pyc.BaseTracer):
    global_guards_enabled = False

    @pyc.register_handler(
        (pyc.after_comprehension_elt, pyc.after_comprehension_if, pyc.after_for_loop_iter, pyc.after_function_execution)
    )
    def kw_handler(self, ret, node, frame, event, *_, **kwargs):
        guard = kwargs.get("guard", "<absent>")
        kw_log.append((event.name, "<absent>" if guard == "<absent>" else ("None" if guard is None else "<name>")))

    @pyc.register_handler((pyc.after_comprehension_elt, pyc.after_comprehension_if))
    def positional_handler(self, ret, node, frame, event, guard, *_, **__):
        pos_log.append((event.name, ret))

    @pyc.register_handler(pyc.load_name)
    def names(self, ret, node, frame, event, *_, **__):
        name_log.append(node.id)


class Plain(pyc.BaseTracer):  # guards on (the default), does nothing of interest
    @pyc.register_handler(pyc.after_int)
    def h(self, *_, **__):
        pass


class TracesOnce(pyc.BaseTracer):  # verbatim from the README
    @pyc.register_raw_handler((pyc.after_for_loop_iter, pyc.after_while_loop_iter))
    def after_loop_iter(self, *_, guard, **__):
        self.activate_guard(guard)


def run(classes):
    kw_log.clear(), pos_log.clear(), name_log.clear()
    with contextlib.ExitStack() as st:
        for c in classes:
            st.enter_context(c.instance())
        env = {}
        inst = classes[-1].instance()
        inst.exec_raw(SRC, env, env, filename=inst.make_sandbox_fname())
    for c in classes:
        c.clear_instance()
    return list(kw_log), list(pos_log), list(name_log)


alone = run([T1])
with_plain = run([T1, Plain])
with_once = run([T1, TracesOnce])
bad = False
if alone[0] != with_plain[0]:
    bad = True
    print("VIOLATION (C05, a): keyword arguments T1 receives depend on the neighbour's global_guards_enabled")
    print("  expected (alone)  :", alone[0])
    print("  observed (stacked):", with_plain[0])
if alone[1] != with_plain[1]:
    bad = True
    print("VIOLATION (C05, b): T1's positional-signature handler stops being called")
    print("  expected (alone)  :", alone[1])
    print("  observed (stacked):", with_plain[1])
if alone[2] != with_once[2]:
    bad = True
    print("VIOLATION (C05, c): guards-off T1 loses load_name events once the neighbour activates a loop guard")
    print("  expected (alone)            :", alone[2])
    print("  observed (with TracesOnce)  :", with_once[2])
sys.exit(1 if bad else 0)
