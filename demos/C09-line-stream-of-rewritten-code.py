"""C09 demo 7 (borderline: caused by the AST rewriting that tracer.exec / the import hook apply even for a
tracer that has sys handlers only): in sandbox / imported code the line-level part of the stream is not the
one a plain sys.settrace function sees for the same source: an extra 'line' event at the `def` line on every
call (at the first decorator-less line for decorated functions), an extra 'line' per `while` iteration, and a
frame left by an exception reports its 'return' at the `def` line instead of the raising line.
call / exception event order is unaffected."""
import sys
import textwrap
import pyccolo as pyc

log = []


class SysTracer(pyc.BaseTracer):
    @pyc.register_raw_handler((pyc.call, pyc.line, pyc.return_, pyc.exception))
    def handle(self, ret, node, frame, event, *_, **__):
        if frame.f_code.co_name in ("f", "loop", "boom"):
            log.append((event.value, frame.f_code.co_name, frame.f_lineno - frame.f_code.co_firstlineno))


PROGRAM = textwrap.dedent(
    """
    def f(x):
        y = x + 1
        return y
    def loop():
        i = 0
        while i < 2:
            i += 1
        return i
    def boom():
        raise ValueError("b")
    f(1)
    loop()
    try:
        boom()
    except ValueError:
        pass
    """
).strip()
FNAME = "<sandbox-demo7>"


def reference():
    out = []

    def rec(frame, evt, arg):
        if frame.f_code.co_filename != FNAME:
            return None
        if frame.f_code.co_name in ("f", "loop", "boom"):
            out.append((evt, frame.f_code.co_name, frame.f_lineno - frame.f_code.co_firstlineno))
        return rec

    code = compile(PROGRAM, FNAME, "exec")
    env = {}
    sys.settrace(rec)
    try:
        exec(code, env, env)
    finally:
        sys.settrace(None)
    return out


def main():
    import difflib

    expected = reference()
    env = {}
    SysTracer.instance().exec(PROGRAM, env, env, filename=FNAME)
    observed = list(log)
    if expected != observed:
        print("expected (plain sys.settrace recorder) vs observed (pyccolo handlers), unified diff:")
        for line in difflib.unified_diff([repr(e) for e in expected], [repr(e) for e in observed],
                                         "expected", "observed", lineterm="", n=1):
            print("   " + line)
        print("VIOLATION: line events / line numbers of the sandboxed program differ from a plain run")
        return 1
    print("no violation")
    return 0


if __name__ == "__main__":
    sys.exit(main())
