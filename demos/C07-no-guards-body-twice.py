"""C07: a function compiled under a tracer with global_guards_enabled = False does not run correctly once all
contexts have exited: its side effects happen twice.

History:  enter ctx(NG enabled, NG.global_guards_enabled = False); define f (appends to a list, returns its
          length); call f; exit;  call f
Expected: after the context f() appends once and returns 1 (as the uninstrumented function does).
Observed: it appends twice and returns 2: without guards the body has no test of the process-wide switch; the
          first emit call fails with NameError (the emit hook is gone from builtins) AFTER the first statement
          has run, and the `except NameError` fallback runs the whole body again.
(Known issue (1) is about functions that are half-way when the last context ends; this function is called afresh.)
"""
import sys

import pyccolo as pyc


class NG(pyc.BaseTracer):
    global_guards_enabled = False

    @pyc.register_raw_handler(pyc.after_stmt)
    def handle(self, ret, *_, **__):
        return ret


ng = NG.instance()
env = {"out": []}
with ng.tracing_enabled():
    env.update(ng.exec("def f():\n    out.append(1)\n    return len(out)\n", env, env))
    inside = (env["f"](), list(env["out"]))
del env["out"][:]
after = (env["f"](), list(env["out"]))
print("inside the context : f() ->", inside[0], "out ==", inside[1])
print("after all contexts : expected f() -> 1, out == [1]; observed f() ->", after[0], "out ==", after[1])
sys.exit(1 if after != (1, [1]) else 0)
