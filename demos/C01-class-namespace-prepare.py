"""demo9: in a class body the inserted names (_X5ix_PYCCOLO_EVT_EMIT, guards, tracing flags) are looked up
with LOAD_NAME, i.e. first in the class namespace.  A metaclass whose __prepare__ returns a mapping with
__missing__ (the "auto-numbering namespace" idiom) answers those lookups itself: the emit hook resolves to an
int and the class body dies with TypeError (any event that instruments something in the class body)."""
import ast, sys
import pyccolo as pyc

SRC = '''
class AutoNS(dict):
    def __missing__(self, key):
        if key.startswith("__"):
            raise KeyError(key)
        self[key] = value = sum(1 for k in self if not k.startswith("__"))
        return value
class AutoMeta(type):
    @classmethod
    def __prepare__(mcs, name, bases):
        return AutoNS()
    def __new__(mcs, name, bases, ns):
        return super().__new__(mcs, name, bases, dict(ns))
class Color(metaclass=AutoMeta):
    red, green, blue
r = (Color.red, Color.green, Color.blue, sorted(k for k in vars(Color) if not k.startswith("__")))
'''

class T(pyc.BaseTracer):
    should_patch_meta_path = False
    instrument_all_files = True

    @pyc.register_raw_handler((pyc.load_name,))
    def observe(self, ret, *_, **__):
        return None


env0 = {}
exec(compile(SRC, "<prog>", "exec"), env0)
print("plain       :", env0["r"])
t = T.instance()
with t.tracing_enabled():
    tree = t.make_ast_rewriter("<prog>").visit(ast.parse(SRC))
    env1 = {}
    try:
        exec(compile(tree, "<prog>", "exec"), env1)
        inst = env1["r"]
    except Exception as e:
        inst = "%s: %s" % (type(e).__name__, e)
print("instrumented:", inst)
if inst != env0["r"]:
    print("VIOLATION")
    sys.exit(1)
sys.exit(0)
