"""C18 demo1: second run through the command line entry point (runpy -> loader.get_code) gets cached
bytecode but no node tables: every handler receives node=None.

Expected: on every run, each handler is given the node of the source construct (tables re-created for
bytecode that comes from the cache).  Observed: run 1 fine, run 2 node=None for every event."""
import os, subprocess, sys, tempfile, textwrap

TRACER = textwrap.dedent('''
    import ast
    import pyccolo as pyc
    class T(pyc.BaseTracer):
        def should_instrument_file(self, filename):
            return filename.endswith('script_c18_demo1.py')
        @pyc.register_handler((pyc.after_stmt, pyc.load_name))
        def h(self, ret, node, frame, event, *a, **k):
            print('EVT', event.value, 'None' if node is None else ast.unparse(node))
''')
SCRIPT = "x = 1\ny = x + 1\n"


def main():
    d = tempfile.mkdtemp(prefix='c18_demo1_')
    with open(os.path.join(d, 'tracer_c18_demo1.py'), 'w') as f:
        f.write(TRACER)
    with open(os.path.join(d, 'script_c18_demo1.py'), 'w') as f:
        f.write(SCRIPT)
    env = dict(os.environ)
    env.pop('PYTHONDONTWRITEBYTECODE', None)
    env['PYTHONPATH'] = os.pathsep.join([d] + [p for p in env.get('PYTHONPATH', '').split(os.pathsep) if p])
    outs = []
    for i in (1, 2):
        p = subprocess.run([sys.executable, '-m', 'pyccolo', 'script_c18_demo1.py', '-t', 'tracer_c18_demo1.T'],
                           cwd=d, env=env, capture_output=True, text=True)
        evts = [l for l in p.stdout.splitlines() if l.startswith('EVT')]
        outs.append(evts)
        print('run %d:' % i)
        for l in evts:
            print('   ', l)
        if p.returncode != 0:
            print(p.stderr[-2000:])
    expected = ['EVT after_stmt x = 1', 'EVT load_name x', 'EVT after_stmt y = x + 1']
    print('expected (both runs):', expected)
    if outs[0] == expected and outs[1] != expected:
        print('VIOLATION: run 2 (bytecode from cache, no node table) observed', outs[1])
        return 1
    if outs[0] != expected:
        print('unexpected first run; cannot judge')
    return 0


if __name__ == '__main__':
    sys.exit(main())
