"""C05: a `when=` condition written as a method is bound to the LAST tracer instance created, for every instance.

T1 registers a load_name handler whose condition is a method reading instance state (`self.limit`).
T2 subclasses T1 (inherits handler and condition) with another limit.  `_InternalBaseTracer.__init__` binds
method conditions by assigning `predicate.condition = getattr(self, name)` on the Predicate object that all
instances share through the class-level handler table, so after T2's instance exists, T1's handler is
filtered (at rewrite time and at delivery) by T2's limit.  T1 stacked with T2 therefore receives a different
stream than T1 alone.
"""
import contextlib
import sys

import pyccolo as pyc

log = []


class T1(pyc.BaseTracer):
    limit = 2

    def early(self, node):
        return node.lineno < self.limit

    @pyc.register_handler(pyc.load_name, when=early)
    def h(self, ret, node, frame, event, *_, **__):
        log.append((type(self).__name__, node.id, node.lineno))


class T2(T1):
    limit = 100


SRC = "a = 1\nb = a\nc = b\n"


def run(classes):
    log.clear()
    insts = [c() for c in classes]  # direct instantiation, outermost first
    with contextlib.ExitStack() as st:
        for inst in insts:
            st.enter_context(inst)
        env = {}
        insts[-1].exec_raw(SRC, env, env, filename=insts[-1].make_sandbox_fname())
    return list(log)


t1_alone = [e for e in run([T1]) if e[0] == "T1"]
t2_alone = [e for e in run([T2]) if e[0] == "T2"]
stacked = run([T1, T2])
t1_stacked = [e for e in stacked if e[0] == "T1"]
t2_stacked = [e for e in stacked if e[0] == "T2"]
if t1_alone != t1_stacked or t2_alone != t2_stacked:
    print("VIOLATION (C05): the stream of T1 (limit=2) is filtered with T2's limit when both are active")
    print("expected T1 (alone):", t1_alone, " T2 (alone):", t2_alone)
    print("observed T1 (stacked):", t1_stacked, " T2 (stacked):", t2_stacked)
    sys.exit(1)
print("ok")
sys.exit(0)
