"""demo1: in a thread other than the main thread, every subscript `x[k]` is evaluated as `x[None]`
when a handler is registered for before_subscript_load / before_subscript_store / before_subscript_del.

The rewriter replaces the slice by a call that asks the tracer to hand back the slice it "saved" a moment
before (event _load_saved_slice). The dispatch loop skips tracers in non-main threads (and in reentrant
emissions), so nobody saves and nobody loads: the emit returns its default ret, None."""
import ast, io, sys, contextlib
import pyccolo as pyc

SRC = '''
import threading
res = {}
lst = [0, 0, 0]
def worker(k):
    res[k] = k * 2        # becomes res[None] = k * 2
    lst[k] += 1           # becomes lst[None] += 1 -> TypeError in the thread
ts = [threading.Thread(target=worker, args=(i,)) for i in range(3)]
for t in ts:
    t.start()
for t in ts:
    t.join()
print(res, lst)
'''

class T(pyc.BaseTracer):
    should_patch_meta_path = False
    instrument_all_files = True

    @pyc.register_raw_handler((pyc.before_subscript_store, pyc.before_subscript_load))
    def observe(self, ret, *_, **__):
        return None  # observe only


def run(code):
    env = {"__name__": "__main__"}
    out, err = io.StringIO(), io.StringIO()
    with contextlib.redirect_stdout(out), contextlib.redirect_stderr(err):
        exec(code, env)
    return out.getvalue(), [l for l in err.getvalue().splitlines() if "Error" in l]


plain = run(compile(SRC, "<prog>", "exec"))
t = T.instance()
with t.tracing_enabled():
    tree = t.make_ast_rewriter("<prog>").visit(ast.parse(SRC))
    inst = run(compile(tree, "<prog>", "exec"))
print("plain       :", plain)
print("instrumented:", inst)
if plain != inst:
    print("VIOLATION: subscripts evaluated in a non-main thread lose their index")
    sys.exit(1)
sys.exit(0)
