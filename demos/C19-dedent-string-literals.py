"""C19 demo2: the function's source is `textwrap.dedent`-ed before it is re-parsed.

For a function that is not at column 0 (here: module-level functions under `if True:`; the same holds
for methods and nested functions), dedent also strips the margin INSIDE multi-line string literals, so
the decorated function computes a different value than its undecorated twin; and if a continuation line
of such a literal starts at column 0 nothing is dedented and decoration fails with IndentationError.
"""
import sys
import warnings

warnings.simplefilter("ignore")
import pyccolo as pyc


class AssignTracer(pyc.BaseTracer):
    def __init__(self, *a, **k):
        super().__init__(*a, **k)
        self.evs = []

    @pyc.register_handler(pyc.after_assign_rhs)
    def handle_assign(self, ret, node, frame, *_, **__):
        self.evs.append(node.lineno)


tracer = AssignTracer.instance()
ok = True

if True:

    @tracer.instrumented
    def banner():
        text = """usage:
        --flag   do the thing
        """
        return text

    def banner_twin():
        text = """usage:
        --flag   do the thing
        """
        return text


expected, observed = banner_twin(), banner()
if expected != observed:
    ok = False
    print("silently different return value")
    print("  expected:", repr(expected))
    print("  observed:", repr(observed))

try:
    if True:

        @tracer.instrumented
        def query():
            sql = """
SELECT 1
"""
            return sql

    observed2 = ("ret", query())
except BaseException as e:  # noqa
    observed2 = ("decoration raised", type(e).__name__, str(e))
expected2 = ("ret", "\nSELECT 1\n")
if observed2 != expected2:
    ok = False
    print("second shape (literal with a line at column 0):")
    print("  expected:", expected2)
    print("  observed:", observed2)

if ok:
    print("no violation")
sys.exit(0 if ok else 1)
