"""demo7 (edge of the property: code compiled under tracing that is still running / called when tracing ends).
Every instrumented function body is wrapped in `try: <instrumented body> except NameError: <pristine body>`.
When the emit hook has been removed from builtins (tracing context exited) the first emit call raises
NameError and the handler runs the pristine body FROM THE START, after part of the instrumented body has
already run: side effects are duplicated, a half-consumed generator starts over."""
import ast, sys
import pyccolo as pyc

SRC = '''
log = []
def f(x):
    log.append(("f called", x))      # runs twice
    return x + 1
def gen():
    for i in range(3):
        yield i
it = gen()
first = next(it)
'''

def run(guards):
    class T(pyc.BaseTracer):
        should_patch_meta_path = False
        instrument_all_files = True
        global_guards_enabled = guards

        @pyc.register_raw_handler((pyc.after_return, pyc.after_for_loop_iter))
        def observe(self, ret, *_, **__):
            return None

    t = T.instance()
    env = {}
    with t.tracing_enabled():
        tree = t.make_ast_rewriter("<prog>").visit(ast.parse(SRC))
        exec(compile(tree, "<prog>", "exec"), env)
    # tracing is over; the program's objects live on
    env["f"](1)
    return env["log"], env["first"], list(env["it"])

env0 = {}
exec(compile(SRC, "<prog>", "exec"), env0)
env0["f"](1)
plain = (env0["log"], env0["first"], list(env0["it"]))
bad = False
print("plain                    :", plain)
for guards in (True, False):
    inst = run(guards)
    print("instrumented, guards=%-5s:" % guards, inst)
    bad |= inst != plain
if bad:
    print("VIOLATION: body re-executed from the start by the NameError fallback")
    sys.exit(1)
sys.exit(0)
