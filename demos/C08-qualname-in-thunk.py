"""C08 demo 6 (minor): a lambda or generator expression written inside a deferred expression is compiled
nested in the thunk, so its __qualname__ (and therefore its repr) gains a '<lambda>.<locals>.' prefix.
No frame introspection is involved: the program only reads __qualname__ / repr of its own objects.
(tracer.trace_lambda renames the thunk's co_name to '<traced_lambda>' but not its co_qualname, and
nothing strips the extra level from the code objects nested in it.)"""
import ast
import sys

import pyccolo as pyc


class Observe(pyc.BaseTracer):
    @pyc.before_assign_rhs
    def h(self, ret, *_, **__):
        return None


SRC = """
f = lambda: 1
g = (i for i in range(3))
def outer():
    inner = lambda: 2
    return inner
result = (f.__qualname__, g.__qualname__, outer().__qualname__)
"""
plain = {}
exec(compile(SRC, "<plain>", "exec"), plain)
traced = {}
Observe.instance().exec_raw(ast.parse(SRC), traced, traced, "<sandbox_demo6>")
print("expected:", plain["result"])
print("observed:", traced["result"])
if plain["result"] != traced["result"]:
    print("VIOLATION (minor): __qualname__ of objects created inside a deferred expression differs")
    sys.exit(1)
print("no violation")
sys.exit(0)
