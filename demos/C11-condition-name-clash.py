"""C11 demo7: when a tracer is instantiated, every predicate whose condition function has a `__name__` that is
also an attribute of the tracer has its condition REPLACED by that attribute (tracer.py __init__:
`getattr(self, predicate.condition.__name__)`).  The replacement is by name only and is written into the shared
predicate object.  (a) a module-level condition that merely shares its name with the handler (or with any tracer
attribute: reset, exec, eval, parse, guards, ...) stops being the condition; (b) two tracers inheriting one
conditional handler and overriding the condition method both end up with the condition of whichever was
instantiated last."""
import ast
import sys

import pyccolo as pyc

SRC = "a = 1 + 2\nb = 3 * 4\nc = 5 - 6\n"
bad = False

# ---- (a) ----------------------------------------------------------------------------------------
calls = []


def additions(node):
    return isinstance(node.op, ast.Add)


class T(pyc.BaseTracer):
    @pyc.register_handler(pyc.after_binop, when=additions)
    def additions(self, ret, node, *_, **__):  # the handler has the same name as the condition
        calls.append(node.lineno)


t = T.instance()
err = None
try:
    with t.tracing_enabled():
        tree = t.make_ast_rewriter("<sandbox_demo7>").visit(ast.parse(SRC))
        exec(compile(tree, "<sandbox_demo7>", "exec"), {})
except Exception as e:  # noqa
    err = e
print("(a) condition `additions` (a module-level function), handler also called `additions`:")
print("    expected handler calls at lines [1]; observed", calls, "| exception:", repr(err))
bad |= calls != [1] or err is not None

if bad:
    print("VIOLATION: the registered condition is not the one that is evaluated")
    sys.exit(1)
sys.exit(0)
