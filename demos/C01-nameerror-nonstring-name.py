"""demo6: every instrumented function body is wrapped in `try: ... except NameError as e:` whose handler
evaluates `(e.name or "").startswith("_X5ix")`.  NameError.name can be any object (`NameError(msg, name=obj)`,
or a subclass attribute), so a program raising such an error gets AttributeError instead of its NameError."""
import ast, sys
import pyccolo as pyc

SRC = '''
class Symbol:
    def __init__(self, s): self.s = s
def lookup(sym):
    raise NameError("unknown symbol %s" % sym.s, name=sym)
try:
    lookup(Symbol("foo"))
    r = "no error"
except Exception as e:
    r = (type(e).__name__, str(e), type(e.__context__).__name__)
'''

class T(pyc.BaseTracer):
    should_patch_meta_path = False
    instrument_all_files = True

    @pyc.register_raw_handler((pyc.after_stmt,))   # any event
    def observe(self, ret, *_, **__):
        return None


env0 = {}
exec(compile(SRC, "<prog>", "exec"), env0)
t = T.instance()
with t.tracing_enabled():
    tree = t.make_ast_rewriter("<prog>").visit(ast.parse(SRC))
    env1 = {}
    exec(compile(tree, "<prog>", "exec"), env1)
print("plain       :", env0["r"])
print("instrumented:", env1["r"])
if env0["r"] != env1["r"]:
    print("VIOLATION: a different exception type reaches the caller")
    sys.exit(1)
sys.exit(0)
