"""C08 demo 5: "If a handler returns a replacement computation or a plain value, that is what the program
uses instead." A plain replacement VALUE that happens to be callable (a function, a class, a bound
method, any object with __call__) is not used as the value: emit_event._make_ret only wraps
non-callables, so the library CALLS the replacement (with no arguments; with both operands for
before_binop/before_compare) and the program sees the call's result -- or its TypeError.
The same handler on the value event after_assign_rhs replaces correctly."""
import ast
import sys

import pyccolo as pyc

REPLACEMENT = dict            # the value the handler wants the program to see: the class `dict` itself


class ReplaceDeferred(pyc.BaseTracer):
    @pyc.before_assign_rhs(when=lambda node: isinstance(node, ast.Constant) and node.value == "placeholder")
    def h(self, ret, *_, **__):
        return REPLACEMENT


class ReplaceValue(pyc.BaseTracer):
    @pyc.after_assign_rhs(when=lambda node: isinstance(node, ast.Constant) and node.value == "placeholder")
    def h(self, ret, *_, **__):
        return REPLACEMENT


class ReplaceArg(pyc.BaseTracer):
    @pyc.before_argument(when=lambda node: isinstance(node, ast.Constant) and node.value == "placeholder")
    def h(self, ret, *_, **__):
        return len                # replace the key function by `len`


SRC1 = "factory = 'placeholder'\n"
SRC2 = "r = sorted(['ccc', 'a', 'bb'], key='placeholder')\n"

g_val = {}
ReplaceValue.instance().exec_raw(ast.parse(SRC1), g_val, g_val, "<sandbox_demo5a>")
g_def = {}
ReplaceDeferred.instance().exec_raw(ast.parse(SRC1), g_def, g_def, "<sandbox_demo5b>")
print("after_assign_rhs  handler returns `dict`: factory = %r" % (g_val["factory"],))
print("before_assign_rhs handler returns `dict`: factory = %r   (expected %r)" % (g_def["factory"], REPLACEMENT))

g_arg = {}
try:
    ReplaceArg.instance().exec_raw(ast.parse(SRC2), g_arg, g_arg, "<sandbox_demo5c>")
    obs = g_arg["r"]
except BaseException as e:  # noqa
    obs = "%s: %s" % (type(e).__name__, e)
print("before_argument   handler returns `len` : r = %r   (expected ['a', 'bb', 'ccc'])" % (obs,))

if g_def["factory"] is not REPLACEMENT or obs != ["a", "bb", "ccc"]:
    print("VIOLATION: a callable replacement value is called instead of being used")
    sys.exit(1)
print("no violation")
sys.exit(0)
