"""C06: a KeyboardInterrupt in a handler that user code catches INSIDE the context leaves the tracer half
switched off for the rest of that (enabled) context: function bodies compiled under tracing go silent, while
lambdas, loops and statements outside functions keep firing; a sys-level tracer loses its sys events.

History:  enter ctx(A enabled); try: call f (handler raises KeyboardInterrupt) except KeyboardInterrupt: pass;
          call f; call lam; exit
Expected: both later sites fire A's handlers (A is active, innermost context enabled) -- or, if Ctrl-C is meant
          to switch the tracer off, neither does.
Observed: f is silent, lam fires.
"""
import sys

import pyccolo as pyc

LOG = []


class A(pyc.BaseTracer):
    boom = False

    @pyc.register_raw_handler((pyc.after_stmt, pyc.before_function_body, pyc.before_lambda_body))
    def handle(self, ret, node, frame, evt, *_, **__):
        LOG.append(evt.value)
        if self.boom:
            self.boom = False
            raise KeyboardInterrupt()
        return ret


a = A.instance()
env = {}
with a.tracing_disabled():
    env.update(a.exec("def f():\n    x = 1\n    return x\nlam = lambda: 3\n", env, env))


def fired(thunk):
    del LOG[:]
    thunk()
    return sorted(set(LOG))


with a.tracing_enabled():
    control = (fired(env["f"]), fired(env["lam"]))
    a.boom = True
    try:
        env["f"]()
    except KeyboardInterrupt:
        pass
    state = (a in pyc.emit_event._TRACER_STACK, a._is_tracing_hard_disabled, a._is_tracing_enabled)
    got_f, got_lam = fired(env["f"]), fired(env["lam"])
print("control (before the interrupt): f fires", control[0], "lam fires", control[1])
print("after the interrupt was caught, same context: (on stack, hard disabled, enabled) =", state)
print("   f   fires: expected", control[0], "observed", got_f)
print("   lam fires: expected", control[1], "observed", got_lam)
sys.exit(1 if (got_f != control[0] or got_lam != control[1]) else 0)
