"""C09 demo 5: the sandbox's own scaffolding frames (the `<module>` frame of the generated wrapper and the
generated `..._pyccolo_sandbox` function) are recognised only by COUNTING 'call' events in the sandbox file
(_num_sandbox_calls_seen, never reset when a sandbox starts).  The handler stream of  tracer.exec(program)
therefore
  (a) contains line/return events of the scaffolding frames as soon as any third-party trace function is
      installed (those frames are then traced locally on behalf of the third party, and the counter is >= 2
      by the time their later events arrive) -- the stream depends on who else is tracing;
  (b) contains the scaffolding frames' call events when exec is nested in sandbox code (counter already >= 2)
      or runs with instrument=False inside an active context (counter not consulted);
  (c) conversely, exec_raw -- which has ONE scaffolding frame, not two -- loses the program's first call."""
import sys
import pyccolo as pyc

log = []


class AllTracer(pyc.BaseTracer):
    @pyc.register_raw_handler((pyc.call, pyc.line, pyc.return_, pyc.exception))
    def handle(self, ret, node, frame, event, *_, **__):
        log.append((event.value, frame.f_code.co_name))


class CallTracer(pyc.BaseTracer):
    @pyc.register_raw_handler(pyc.call)
    def handle(self, ret, node, frame, event, *_, **__):
        log.append((event.value, frame.f_code.co_name))


PROGRAM = """
def f():
    return 1
x = f()
y = f()
"""


def third_party(frame, evt, arg):
    return third_party


def scaffold(entries):
    return [e for e in entries if e[1] == "<module>" or e[1].endswith("_pyccolo_sandbox")]


def main():
    bad = False
    t = AllTracer.instance()

    # (a) same program, with and without a third-party tracer
    del log[:]
    t.exec(PROGRAM, {}, {})
    alone = list(log)
    del log[:]
    sys.settrace(third_party)
    try:
        t.exec(PROGRAM, {}, {})
    finally:
        sys.settrace(None)
    with_third = list(log)
    print("(a) handler stream of tracer.exec(PROGRAM)")
    print("    expected (= stream without a third party): %d events, scaffolding events: []" % len(alone))
    print("    observed with a third-party tracer installed: %d events, scaffolding events: %r"
          % (len(with_third), scaffold(with_third)))
    if with_third != alone:
        bad = True
    AllTracer.clear_instance()

    c = CallTracer.instance()
    # (b1) nested exec
    del log[:]
    c.exec("t.exec(PROGRAM, {}, {})", {"t": c, "PROGRAM": PROGRAM}, {})
    nested = list(log)
    print("(b1) call events of a tracer.exec nested in sandbox code")
    print("    expected: [('call', 'f'), ('call', 'f')]")
    print("    observed:", nested)
    if nested != [("call", "f"), ("call", "f")]:
        bad = True
    # (b2) instrument=False inside an active context
    del log[:]
    with c:
        c.exec(PROGRAM, {}, {}, instrument=False)
    noinstr = list(log)
    print("(b2) call events of tracer.exec(PROGRAM, instrument=False) inside `with tracer:`")
    print("    expected: [('call', 'f'), ('call', 'f')]")
    print("    observed:", noinstr)
    if noinstr != [("call", "f"), ("call", "f")]:
        bad = True
    # (c) exec_raw
    del log[:]
    c.exec_raw(PROGRAM, {}, {}, filename="<sandbox-demo-raw>")
    raw = [e for e in log if e[1] != "<module>"]
    print("(c) call events of tracer.exec_raw(PROGRAM, ...) (functions only)")
    print("    expected: [('call', 'f'), ('call', 'f')]")
    print("    observed:", raw)
    if raw != [("call", "f"), ("call", "f")]:
        bad = True
    if bad:
        print("VIOLATION: scaffolding frames delivered / a program frame taken for scaffolding")
        return 1
    print("no violation")
    return 0


if __name__ == "__main__":
    sys.exit(main())
