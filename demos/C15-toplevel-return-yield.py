"""C15 demo1: top-level `return` / `yield` are accepted by pyc.exec (Python: SyntaxError).

`return <dict>` makes exec hand back a mapping that is NOT the program's bindings,
`return <non-dict>` blows up inside the scaffold with AttributeError,
`yield` turns the scaffold into a generator: the program is silently never run.
"""
import sys
import pyccolo as pyc

bad = []


def outcome(fn):
    try:
        return ("returned", fn())
    except BaseException as e:  # noqa
        return ("raised", type(e).__name__, str(e))


def py_exec(text):
    g, l = {}, {}
    exec(text, g, l)
    return l


side_effects = []
cases = [
    ("x = 1\nreturn {'forged': 99}", {}),
    ("x = 1\nreturn 5", {}),
    ("log.append('ran')\nyield 5", {"log": side_effects}),
]
for text, l in cases:
    want = outcome(lambda: py_exec(text))
    got = outcome(lambda: pyc.exec(text, {}, dict(l)))
    ok = got[0] == "raised" and got[1] == "SyntaxError"
    print("text     :", repr(text))
    print("expected :", want[:2], "(builtin exec: SyntaxError, nothing runs)")
    print("observed :", got)
    if not ok:
        bad.append(text)
print("side effects of the `yield` program (it never ran):", side_effects)
sys.exit(1 if bad else 0)
