"""C17: a plain `import` in a worker thread, made while the main thread is importing an
instrumented module, poisons the bytecode cache of the tracer: main's later traced import of the
worker's module yields NO events (in this process and, the cache being on disk, in later ones).

TraceLoader.get_code runs importlib's own get_code inside patch_cache_handlers(), which swaps the
CODE of importlib.util.cache_from_source / source_from_cache process-wide.  A worker thread that
imports a module in that window (the finder is a no-op off the main thread, so this is an ordinary
uninstrumented import) computes the pyccolo-signed cache name for it and writes its UNinstrumented
bytecode there.  The next traced import finds a fresh cache entry under the tracer's signature.
Tracers with requires_ast_bookkeeping = True are saved by the missing node table (they recompile
on every import, the poisoned entry staying in place); with requires_ast_bookkeeping = False the
uninstrumented code is used.
(b) Same window, other symptom: when main leaves the window while the worker is still inside the
patched cache_from_source, the names the patched code needs have been popped from importlib's
globals and the worker's plain import raises NameError.
Deterministic: main parks inside a `when=` condition that the rewriter calls during get_code; in (b)
the worker parks in the tracer's should_instrument_file, called from make_cache_signature.
"""
import os
import shutil
import sys
import tempfile
import threading

import pyccolo as pyc

sys.dont_write_bytecode = False  # the bytecode cache must be in use
main_parked, worker_done = threading.Event(), threading.Event()
state = {"park": False}
log = []


def cond(node):
    if state["park"] and threading.current_thread() is threading.main_thread():
        state["park"] = False
        main_parked.set()
        worker_done.wait(10)
    return True


class T(pyc.BaseTracer):
    requires_ast_bookkeeping = False

    def should_instrument_file(self, filename):
        return os.path.basename(filename).startswith("c17_demo13_mod")

    @pyc.register_raw_handler(pyc.after_stmt)
    def on_after_stmt(self, ret, node_id, frame, event, *_, **__):
        log.append(os.path.basename(frame.f_code.co_filename))

    @pyc.register_handler(pyc.load_name, when=cond)
    def on_load_name(self, *_, **__):
        pass


def run(tmp, with_worker):
    for mod in ("c17_demo13_mod_a", "c17_demo13_mod_b"):
        sys.modules.pop(mod, None)
    shutil.rmtree(os.path.join(tmp, "__pycache__"), ignore_errors=True)
    main_parked.clear()
    worker_done.clear()

    def worker():
        main_parked.wait(10)
        import c17_demo13_mod_b  # noqa: F401  (plain import: no tracer serves this thread)

        sys.modules.pop("c17_demo13_mod_b", None)
        worker_done.set()

    t = T.instance()
    with t:
        th = None
        if with_worker:
            state["park"] = True
            th = threading.Thread(target=worker)
            th.start()
        import c17_demo13_mod_a  # noqa: F401

        if th is not None:
            th.join()
    cache = sorted(os.listdir(os.path.join(tmp, "__pycache__")))
    del log[:]
    with t:  # later, no other thread around
        import c17_demo13_mod_b  # noqa: F401,F811
    return list(log), cache


def part_b(tmp):
    """the worker is still inside the patched cache_from_source when main leaves the window"""
    b_main_parked, b_worker_parked, b_main_done = (threading.Event() for _ in range(3))
    b_state = {"park": True}

    def cond_b(node):
        if b_state["park"] and threading.current_thread() is threading.main_thread():
            b_state["park"] = False
            b_main_parked.set()
            b_worker_parked.wait(10)
        return True

    class T2(pyc.BaseTracer):
        requires_ast_bookkeeping = False

        def should_instrument_file(self, filename):
            if threading.current_thread() is not threading.main_thread() and not b_worker_parked.is_set():
                # called from make_cache_signature, i.e. from the patched cache_from_source, in the worker
                b_worker_parked.set()
                b_main_done.wait(10)
            return os.path.basename(filename).startswith("c17_demo13_mod")

        @pyc.register_handler(pyc.load_name, when=cond_b)
        def on_load_name(self, *_, **__):
            pass

    result = []

    def worker():
        b_main_parked.wait(10)
        try:
            import c17_demo13_mod_d  # noqa: F401

            result.append("imported")
        except BaseException as exc:
            result.append(repr(exc))

    th = threading.Thread(target=worker)
    th.start()
    with T2.instance():
        import c17_demo13_mod_c  # noqa: F401
    b_main_done.set()
    th.join()
    return result[0]


def main():
    tmp = tempfile.mkdtemp()
    for name in ("c17_demo13_mod_a", "c17_demo13_mod_b", "c17_demo13_mod_c", "c17_demo13_mod_d"):
        with open(os.path.join(tmp, name + ".py"), "w") as f:
            f.write("a = 1\nb = a + 1\n")
    sys.path.insert(0, tmp)
    try:
        expected, _ = run(tmp, with_worker=False)
        observed, cache = run(tmp, with_worker=True)
        T.clear_instance()
        worker_import = part_b(tmp)
    finally:
        shutil.rmtree(tmp, ignore_errors=True)
    print("(a) main: `with tracer: import c17_demo13_mod_b`, after a worker imported it during main's import of mod_a")
    print(f"  expected after_stmt events: {expected}")
    print(f"  observed after_stmt events: {observed}")
    print(f"  cache directory after the worker's import: {cache}")
    print("(b) worker: plain `import c17_demo13_mod_d`, main leaves TraceLoader.get_code meanwhile")
    print("  expected: imported")
    print(f"  observed: {worker_import}")
    return 1 if observed != expected or worker_import != "imported" else 0


if __name__ == "__main__":
    sys.exit(main())
