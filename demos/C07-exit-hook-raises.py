"""C07: an exception raised by exit_tracing_hook() cuts the context's cleanup short.

(a) alone: the emit hook / thunk / lambda names (and the guard names) stay in builtins after the last context.
(b) inside another tracer's context: the saved-thunk executor in builtins stays bound to the tracer that has
    just left, so the OUTER tracer's before_stmt handler (which replaces a statement) makes the program die
    with an AssertionError from the library.
"""
import builtins
import sys

import pyccolo as pyc
from pyccolo.emit_event import _TRACER_STACK


class Hooked(pyc.BaseTracer):
    def exit_tracing_hook(self):
        raise RuntimeError("exit hook failed")

    @pyc.register_raw_handler(pyc.after_stmt)
    def handle_stmt(self, ret, *_, **__):
        return ret


class Replacer(pyc.BaseTracer):
    """replaces every assignment statement by one that records 42"""

    @pyc.register_handler(pyc.before_stmt)
    def handle_before_stmt(self, ret, node, *_, **__):
        import ast

        if isinstance(node, ast.Assign):
            return "RESULT.append(42)"
        return ret


def hook_names():
    return sorted(k for k in dir(builtins) if k.startswith("_X5ix") and "ENABLED" not in k)


failed = False

# (a)
t = Hooked.instance()
before = hook_names()
try:
    with t.tracing_enabled():
        t.exec("def f():\n    for i in range(2):\n        pass\n", {}, {})
except RuntimeError as e:
    print("(a) the with statement raised:", repr(e))
after = hook_names()
print("(a) tracer stack after:", _TRACER_STACK)
print("(a) _X5ix names in builtins  expected:", before)
print("(a)                          observed:", after)
failed |= before != after
for k in after:
    delattr(builtins, k)

# (b)
r = Replacer.instance()
with r.tracing_enabled():
    g = {"RESULT": []}
    g.update(r.exec("def prog():\n    x = 1\n", g, g))
    g["prog"]()
    print("(b) control: outer tracer replaces the statement: RESULT ==", g["RESULT"], "(expected [42])")
    del g["RESULT"][:]
    try:
        with t.tracing_enabled():
            pass
    except RuntimeError as e:
        pass
    thunk_owner = getattr(builtins, "_X5ix_PYCCOLO_EXEC_SAVED_THUNK").__self__
    print("(b) saved-thunk executor in builtins belongs to: expected", r, "observed", thunk_owner)
    failed |= thunk_owner is not r
    try:
        g["prog"]()
        print("(b) after the inner tracer left: RESULT ==", g["RESULT"], "(expected [42])")
        failed |= g["RESULT"] != [42]
    except AssertionError as e:
        print("(b) after the inner tracer left: expected RESULT == [42], observed AssertionError from exec_saved_thunk")
        failed = True
sys.exit(1 if failed else 0)
