"""C18 demo8: nodes handed to handlers carry library-internal names.

(a) copy_ast replaces every `parent` attribute by the marker '_X5ix_has_parent_Xix54321' before pickling
    and restores it on the copy only for nodes that are somebody's child: the root of the registered tree
    keeps the marker string as its `parent` (a tree whose nodes carry parent links, root.parent = None, is
    what many AST tools produce).
(b) exec_raw given a string rewrites it twice (parse() already rewrites): the registered "original" tree is
    the output of the first rewriting, so handlers are given the library's own emission calls as nodes and
    see every event of the source twice.

Expected: walking up from any delivered node ends at the Module whose parent is None; ast.unparse of a
delivered node is text of the user's source."""
import ast, sys
import pyccolo as pyc


class T(pyc.BaseTracer):
    def __init__(self, *a, **k):
        super().__init__(*a, **k)
        self.seen = []

    @pyc.register_handler((pyc.after_stmt, pyc.load_name))
    def h(self, ret, node, frame, event, *a, **k):
        self.seen.append((event.value, node))


def part_a(t):
    tree = ast.parse("x = 1\ny = x + 1\n")
    tree.parent = None
    for n in ast.walk(tree):
        for c in ast.iter_child_nodes(n):
            c.parent = n
    t.seen.clear()
    t.exec(tree, {}, {})
    bad = False
    for evt, node in t.seen:
        cur, chain = node, []
        while isinstance(cur, ast.AST):
            chain.append(type(cur).__name__)
            cur = cur.parent
        print('(a) %-10s %-28s parent chain ends in %r (expected None)' % (evt, ' > '.join(chain), cur))
        bad = bad or cur is not None
    return bad


def part_b(t):
    t.seen.clear()
    env = {}
    t.exec_raw("x = 1\ny = x + 1\n", env, env, filename='raw_c18_demo8.py')
    texts = [(evt, ast.unparse(n)) for evt, n in t.seen if n is not None]
    print('(b) expected nodes: after_stmt x = 1 / load_name x / after_stmt y = x + 1')
    for evt, s in texts:
        print('    observed  %-10s %s' % (evt, s[:110]))
    return any('PYCCOLO' in s for _, s in texts)


if __name__ == '__main__':
    t = T.instance()
    a = part_a(t)
    b = part_b(t)
    sys.exit(1 if (a or b) else 0)
