"""demo1 (C13, optimisation levels): under `python -O` / `-OO` / PYTHONOPTIMIZE every import of a module a
tracer accepts raises ValueError from the cache-name handling, whatever the cache contains (empty here)."""
import json, os, shutil, subprocess, sys, tempfile, textwrap

import pyccolo  # from PYTHONPATH

LIB = os.path.dirname(os.path.dirname(os.path.abspath(pyccolo.__file__)))


def write(root, rel, src, mode="w"):
    path = os.path.join(root, rel)
    os.makedirs(os.path.dirname(path), exist_ok=True)
    with open(path, mode) as f:
        f.write(textwrap.dedent(src) if mode == "w" else src)
    return path


def run(root, code, *, pyargs=(), argv=None, write_bytecode=True, env_extra=None):
    """run `code` (or `argv`) in a fresh interpreter with cwd=root; returns (json after '@@' or None, CompletedProcess)"""
    env = dict(os.environ)
    for var in ("PYTHONDONTWRITEBYTECODE", "PYTHONOPTIMIZE", "PYTHONPYCACHEPREFIX"):
        env.pop(var, None)
    env["PYTHONPATH"] = os.pathsep.join([LIB, root])
    if not write_bytecode:
        env["PYTHONDONTWRITEBYTECODE"] = "1"
    env.update(env_extra or {})
    cmd = [sys.executable, *pyargs] + (list(argv) if argv else ["-c", textwrap.dedent(code)])
    p = subprocess.run(cmd, cwd=root, env=env, capture_output=True, text=True, timeout=50)
    res = None
    for line in p.stdout.splitlines():
        if line.startswith("@@"):
            res = json.loads(line[2:])
    return res, p


# a tracer module as a user would write it: accepts the files named in ACCEPT (basenames),
# logs (event, file, node type, line) for three events
TRC = '''
import json, os
import pyccolo as pyc

LOG = []
ACCEPT = {ACCEPT!r}


class T(pyc.BaseTracer):
    def should_instrument_file(self, filename):
        return os.path.basename(filename) in ACCEPT

    @pyc.register_raw_handler((pyc.after_assign_rhs, pyc.load_name, pyc.after_stmt))
    def log(self, ret, node_id, frame, event, *_, **__):
        node = self.ast_node_by_id.get(node_id)
        LOG.append([event.value, os.path.basename(frame.f_code.co_filename), type(node).__name__, getattr(node, "lineno", None)])
        return ret


def dump(**extra):
    print("@@" + json.dumps(dict(log=LOG, **extra)))
'''


SCENARIO = '''
import trc
err = None
try:
    with trc.T.instance().tracing_enabled():
        import other      # not accepted
        import m          # accepted
    ns = dict(y=m.y, z=other.z)
except Exception as e:
    err, ns = repr(e), None
trc.dump(err=err, ns=ns)
'''


def fresh_root():
    root = tempfile.mkdtemp(prefix="c12demo1_")
    write(root, "m.py", "x = 1\ny = x + 1\n")
    write(root, "other.py", "z = 3\n")
    write(root, "trc.py", TRC.replace("{ACCEPT!r}", repr({"m.py"})))
    return root


def main():
    roots = []
    try:
        root = fresh_root(); roots.append(root)
        base, p = run(root, SCENARIO, write_bytecode=False)
        assert base and base["err"] is None and base["log"], (base, p.stderr)
        bad = []
        for label, kw in [
            ("-O, bytecode writing on", dict(pyargs=("-O",))),
            ("-O, dont_write_bytecode", dict(pyargs=("-O",), write_bytecode=False)),
            ("-OO", dict(pyargs=("-OO",))),
            ("PYTHONOPTIMIZE=1", dict(env_extra={"PYTHONOPTIMIZE": "1"})),
        ]:
            root = fresh_root(); roots.append(root)   # empty cache every time
            got, p = run(root, SCENARIO, **kw)
            ok = got is not None and got["err"] is None and got["log"] == base["log"] and got["ns"] == base["ns"]
            print("%-28s %s" % (label, "ok" if ok else "VIOLATION"))
            if not ok:
                bad.append(label)
                print("   expected: err=None ns=%r and the %d events of the unoptimised run" % (base["ns"], len(base["log"])))
                print("   observed: err=%r ns=%r events=%d" % (got and got["err"], got and got["ns"], len(got["log"]) if got else -1))
                if got is None:
                    print(p.stderr[-600:])
        return 1 if bad else 0
    finally:
        for r in roots:
            shutil.rmtree(r, ignore_errors=True)


if __name__ == "__main__":
    sys.exit(main())
