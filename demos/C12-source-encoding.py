"""demo5 (C12, accepted modules behave like the plain module): TraceLoader.get_data decodes the source of an accepted
module and hands it on re-encoded as UTF-8 while the text still carries its PEP 263 coding line; the compiler then
decodes the UTF-8 bytes with the declared codec.  A latin-1 (cp1252, ...) module gets different string constants
under tracing than under a plain import."""
import json, os, shutil, subprocess, sys, tempfile, textwrap

import pyccolo  # from PYTHONPATH

LIB = os.path.dirname(os.path.dirname(os.path.abspath(pyccolo.__file__)))


def write(root, rel, src, mode="w"):
    path = os.path.join(root, rel)
    os.makedirs(os.path.dirname(path), exist_ok=True)
    with open(path, mode) as f:
        f.write(textwrap.dedent(src) if mode == "w" else src)
    return path


def run(root, code, *, pyargs=(), argv=None, write_bytecode=True, env_extra=None):
    """run `code` (or `argv`) in a fresh interpreter with cwd=root; returns (json after '@@' or None, CompletedProcess)"""
    env = dict(os.environ)
    for var in ("PYTHONDONTWRITEBYTECODE", "PYTHONOPTIMIZE", "PYTHONPYCACHEPREFIX"):
        env.pop(var, None)
    env["PYTHONPATH"] = os.pathsep.join([LIB, root])
    if not write_bytecode:
        env["PYTHONDONTWRITEBYTECODE"] = "1"
    env.update(env_extra or {})
    cmd = [sys.executable, *pyargs] + (list(argv) if argv else ["-c", textwrap.dedent(code)])
    p = subprocess.run(cmd, cwd=root, env=env, capture_output=True, text=True, timeout=50)
    res = None
    for line in p.stdout.splitlines():
        if line.startswith("@@"):
            res = json.loads(line[2:])
    return res, p


# a tracer module as a user would write it: accepts the files named in ACCEPT (basenames),
# logs (event, file, node type, line) for three events
TRC = '''
import json, os
import pyccolo as pyc

LOG = []
ACCEPT = {ACCEPT!r}


class T(pyc.BaseTracer):
    def should_instrument_file(self, filename):
        return os.path.basename(filename) in ACCEPT

    @pyc.register_raw_handler((pyc.after_assign_rhs, pyc.load_name, pyc.after_stmt))
    def log(self, ret, node_id, frame, event, *_, **__):
        node = self.ast_node_by_id.get(node_id)
        LOG.append([event.value, os.path.basename(frame.f_code.co_filename), type(node).__name__, getattr(node, "lineno", None)])
        return ret


def dump(**extra):
    print("@@" + json.dumps(dict(log=LOG, **extra)))
'''


SCENARIO = '''
import trc
%s
trc.dump(S=lat.S, N=lat.N, NAME=lat.NAME)
'''


def main():
    root = tempfile.mkdtemp(prefix="c12demo5_")
    try:
        src = "# -*- coding: latin-1 -*-\nS = 'café'\nN = len(S)\nNAME = 'Müller'.upper()\n"
        write(root, "lat.py", src.encode("latin-1"), mode="wb")
        write(root, "trc.py", TRC.replace("{ACCEPT!r}", repr({"lat.py"})))
        plain, p = run(root, SCENARIO % "import lat", write_bytecode=False)
        traced, p2 = run(root, SCENARIO % "with trc.T.instance().tracing_enabled():\n    import lat", write_bytecode=False)
        assert plain and traced, (p.stderr, p2.stderr)
        ns = lambda r: {k: r[k] for k in ("S", "N", "NAME")}
        if ns(plain) != ns(traced):
            print("VIOLATION")
            print("  expected (plain import):", ns(plain))
            print("  observed (accepted by the tracer, %d events delivered):" % len(traced["log"]), ns(traced))
            return 1
        print("ok")
        return 0
    finally:
        shutil.rmtree(root, ignore_errors=True)


if __name__ == "__main__":
    sys.exit(main())
