"""demo1: `async for` loops get no before_for_loop_body / after_for_loop_iter events."""
import ast
import asyncio
import sys
import textwrap

import pyccolo as pyc


def trace(src, events, fname, run_async=None, env=None, silent=()):
    """Run src under a fresh tracer subscribed to `events`; return (stream, exception, env).
    stream entries: (event, node type, lineno, col_offset, source of node, repr(value))"""
    log = []

    class T(pyc.BaseTracer):
        instrument_all_files = True

        @pyc.register_handler(tuple(events))
        def h(self, ret, node, frame, event, *a, **kw):
            if isinstance(node, ast.AST):
                src_ = ast.unparse(node).split("\n")[0]
                log.append((event.value, type(node).__name__, getattr(node, "lineno", None),
                            getattr(node, "col_offset", None), src_, _r(ret)))
            else:
                log.append((event.value, None, None, None, node, _r(ret)))
            return None

        if silent:
            @pyc.register_handler(tuple(silent))
            def hs(self, ret, node, frame, event, *a, **kw):
                return None

    t = T.instance()
    env = {"__name__": "demo_mod"} if env is None else env
    exc = None
    try:
        with t.tracing_enabled():
            try:
                tree = t.make_ast_rewriter(fname).visit(ast.parse(textwrap.dedent(src)))
                exec(compile(tree, fname, "exec"), env)
                if run_async:
                    asyncio.run(env[run_async]())
            except BaseException as e:  # noqa
                exc = e
    finally:
        T.clear_instance()
    return log, exc, env


def _r(v):
    if type(v).__module__ == "builtins" and not callable(v) and " at 0x" not in repr(v):
        return repr(v)
    return "<%s>" % type(v).__name__


def report(title, expected, delivered):
    print(title)
    print("EXPECTED:")
    for e in expected:
        print("   ", e)
    print("DELIVERED:")
    for e in delivered:
        print("   ", e)
    if expected != delivered:
        print("VIOLATION: delivered stream differs from expected stream")
        sys.exit(1)
    print("no violation")
    sys.exit(0)

SRC = """
async def agen():
    for i in range(2):
        yield i
async def main():
    async for k in agen():
        pass
"""
log, exc, _ = trace(SRC, [pyc.before_for_loop_body, pyc.after_for_loop_iter], "<sandbox-demo1>", run_async="main")
delivered = [(e[0], e[1], e[2]) for e in log]
# one before/after pair per iteration of each of the two loops; the async-for body (line 6) runs while the
# generator's for loop (line 3) is suspended at its yield
expected = [
    ("before_for_loop_body", "For", 3),
    ("before_for_loop_body", "AsyncFor", 6),
    ("after_for_loop_iter", "AsyncFor", 6),
    ("after_for_loop_iter", "For", 3),
    ("before_for_loop_body", "For", 3),
    ("before_for_loop_body", "AsyncFor", 6),
    ("after_for_loop_iter", "AsyncFor", 6),
    ("after_for_loop_iter", "For", 3),
]
assert exc is None, exc
report("async for: loop bracket events", expected, delivered)
