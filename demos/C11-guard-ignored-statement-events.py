"""C11 demo4: `guard=` on statement-level events is silently ignored.  The statement inserter builds these
emissions itself (not through EmitterMixin.emit): no guard test is compiled in, no `guards_by_handler_spec_id`
is passed, the handler receives guard=None, and it keeps being called while the guard name is set in the module."""
import ast
import sys

import pyccolo as pyc

SRC = """
x = 1
y = 2
def f():
    z = 3
    return z
for i in range(2):
    f()
"""
GUARD = "_my_guard"
results = {}
for evt in (
    pyc.before_stmt,
    pyc.after_stmt,
    pyc.after_module_stmt,
    pyc.exit_module,
    pyc.after_function_execution,
    pyc.after_for_loop_iter,
):
    calls = []

    class T(pyc.BaseTracer):
        global_guards_enabled = False

        @pyc.register_handler(evt, guard=lambda node: GUARD)
        def h(self, ret, node, frame, event, *args, **__):
            # args[0] is the local guard name the handler is told about
            calls.append((getattr(node, "lineno", None), args[0]))

    t = T.instance()
    with t.tracing_enabled():
        tree = t.make_ast_rewriter("<sandbox_demo4>").visit(ast.parse(SRC))
        # the guard is SET in the running module from the very start: the handler must never run
        exec(compile(tree, "<sandbox_demo4>", "exec"), {GUARD: True})
    T.clear_instance()
    results[evt.name] = calls

# control: the same registration on an expression event is honoured
calls = []


class C(pyc.BaseTracer):
    @pyc.register_handler(pyc.after_call, guard=lambda node: GUARD)
    def h(self, ret, node, frame, event, *args, **__):
        calls.append((node.lineno, args[0]))


t = C.instance()
with t.tracing_enabled():
    tree = t.make_ast_rewriter("<sandbox_demo4>").visit(ast.parse(SRC))
    exec(compile(tree, "<sandbox_demo4>", "exec"), {GUARD: True})
print("control after_call with %s set: expected 0 calls, observed %d" % (GUARD, len(calls)))

bad = False
for name, calls in results.items():
    print("%-26s guard %s is set -> expected 0 handler calls, observed %d %s" % (name, GUARD, len(calls), calls[:3]))
    bad |= len(calls) > 0
if bad:
    print("VIOLATION: local guard not honoured on statement-level events")
    sys.exit(1)
sys.exit(0)
