"""demo7: guard-exempt handlers are only honoured for loop bodies.  Once the guard of a FUNCTION body or of a
COMPREHENSION element is active, a handler registered with exempt_from_guards=True stops receiving events
from it, exactly like an ordinary handler (for a `for` / `while` body it keeps receiving them).

Property C10: "... deliver no events from that body (except to handlers registered as guard-exempt) ..."
"""
import ast
import sys
from collections import Counter

import pyccolo as pyc

LOG = []


class T(pyc.BaseTracer):
    global_guards_enabled = True
    instrument_all_files = True

    @pyc.register_raw_handler(
        (pyc.after_for_loop_iter, pyc.after_function_execution, pyc.after_comprehension_elt)
    )
    def bracket(self, ret, node, frame, event, *a, guard=None, **kw):
        self.activate_guard(guard)  # every body is guarded off after its first iteration / call / element

    @pyc.register_raw_handler(pyc.load_name, exempt_from_guards=True)
    def exempt(self, ret, node, frame, event, *a, **kw):
        LOG.append(self.ast_node_by_id[node].id)


SRC = """
def f(a):
    return a
r = [f(1), f(2), f(3)]
c = [e for e in range(3)]
for i in range(3):
    u = i
"""
env = {}
t = T.instance()
with t.tracing_enabled():
    exec(compile(t.make_ast_rewriter("<demo7>").visit(ast.parse(SRC)), "<demo7>", "exec"), env)
n = Counter(LOG)
print("results:", env["r"], env["c"], env["u"])
print("guard-exempt load_name handler, events per body (3 executions each, guard activated after the first):")
print("   for-loop body   (`i`):", n["i"], "(expected 3)")
print("   function body   (`a`):", n["a"], "(expected 3)")
print("   comprehension   (`e`):", n["e"], "(expected 3)")
if n["i"] == 3 and (n["a"] != 3 or n["e"] != 3):
    print(
        "VIOLATION: the guard-exempt handler was expected to keep receiving the events of guarded-off bodies "
        "(as it does for the loop): observed %d/3 for the function body and %d/3 for the comprehension element"
        % (n["a"], n["e"])
    )
    sys.exit(1)
sys.exit(0)
