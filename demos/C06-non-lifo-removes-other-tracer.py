"""C05 (a tracer leaving the stack): deactivating the OUTER tracer first removes the INNER one from the stack.

A and B both record load_name.  A.enable_tracing(); B.enable_tracing(); a function is compiled under both;
A.disable_tracing().  From then on B is the only active tracer and must receive what it receives alone
(one load_name per call of f).  The cleanup callback does `del _TRACER_STACK[-1]` instead of removing the tracer
that is leaving, so B is dropped from the stack (A stays in it, disabled), FUNCTION_TRACING_ENABLED is computed
from the wrong stack, and B receives nothing; code rewritten afterwards is delivered to the disabled A as well.
"""
import sys

import pyccolo as pyc

log = []


def mk(tag):
    class T(pyc.BaseTracer):
        @pyc.register_handler(pyc.load_name)
        def h(self, ret, node, frame, event, *_, **__):
            log.append((tag, node.id))

    T.__name__ = tag
    return T


A, B = mk("A"), mk("B")
a, b = A.instance(), B.instance()
env = {"x": 1}
a.enable_tracing()
b.enable_tracing()
b.exec_raw("def f():\n    return x\n", env, env, filename=b.make_sandbox_fname())
env["f"]()
both = list(log)
log.clear()
a.disable_tracing()  # non-LIFO: the outer tracer leaves first
stack_after = [type(t).__name__ for t in pyc._TRACER_STACK]
env["f"]()
old_code = list(log)
log.clear()
b.exec_raw("x", env, env, filename=b.make_sandbox_fname())
new_code = list(log)
try:
    b.disable_tracing()
except Exception:
    pass

expected_old, expected_new = [("B", "x")], [("B", "x")]
if old_code != expected_old or new_code != expected_new or stack_after != ["B"]:
    print("VIOLATION (C05): after A.disable_tracing() B should be the only tracer served")
    print("both active           :", both)
    print("stack after A left    : expected ['B'], observed", stack_after)
    print("call of f (old code)  : expected", expected_old, "observed", old_code)
    print("newly rewritten code  : expected", expected_new, "observed", new_code)
    sys.exit(1)
print("ok")
sys.exit(0)
