"""C14 demo 3: a non-ASCII character earlier on the line: recorded columns are characters, AST columns are bytes

Run with pyccolo importable (PYTHONPATH); exits 1 and prints expected vs observed when the violation shows, 0 otherwise."""
import ast
import sys

import pyccolo as pyc
from pyccolo.syntax_augmentation import (
    AugmentationSpec,
    AugmentationType,
    make_syntax_augmenter,
)


def make_tracer(specs):
    """A tracer declaring `specs`; its handlers log (kind, name, lineno, tokens) for every node that
    get_augmentations() reports as augmented, at load_name / after_attribute_load / after_binop."""
    specs = list(specs)
    log = []

    class Tr(pyc.BaseTracer):
        @property
        def syntax_augmentation_specs(self):
            return specs

        def _note(self, kind, name, node):
            augs = self.get_augmentations(id(node))
            if augs:
                log.append((kind, name, node.lineno, tuple(sorted(s.token for s in augs))))

        @pyc.load_name
        def _h_name(self, ret, node, *_, **__):
            self._note("Name", node.id, node)
            return ret

        @pyc.after_attribute_load
        def _h_attr(self, ret, node, *_, **__):
            self._note("Attribute", node.attr, node)
            return ret

        @pyc.after_binop
        def _h_binop(self, ret, node, *_, **__):
            self._note("BinOp", type(node.op).__name__, node)
            return ret

    tracer = Tr.instance()
    tracer.aug_log = log
    return tracer


PRELUDE = (
    "class O:\n"
    "    def __init__(self, **kw):\n"
    "        self.__dict__.update(kw)\n"
    "a = O(b=O(c=5), n=1)\n"
    "x = 3\n"
    "y = 4\n"
    "f = abs\n"
)
N_PRELUDE = PRELUDE.count("\n")


class _Recorder:
    """stands in for the AstRewriter: the augmenter only calls register_augmented_position on it"""

    def __init__(self):
        self.positions = []

    def register_augmented_position(self, spec, lineno, col_offset):
        self.positions.append((lineno, col_offset))


def augment(src, spec):
    """the library's text transformation for one spec: (rewritten text, recorded (line, col) of each hit)"""
    rec = _Recorder()
    return make_syntax_augmenter(rec, spec)(src), rec.positions


def run(specs, body):
    """exec PRELUDE + body under a fresh tracer; returns (env or exception, sorted log)"""
    tracer = make_tracer(specs)
    try:
        env = tracer.exec(PRELUDE + body, {})
    except BaseException as e:  # noqa
        return e, sorted(tracer.aug_log)
    return env, sorted(tracer.aug_log)


failures = []


def check(what, expected, observed):
    ok = expected == observed
    print(("ok   " if ok else "FAIL ") + what)
    if not ok:
        print("     expected:", expected)
        print("     observed:", observed)
        failures.append(what)


def finish():
    if failures:
        print("%d violation(s) shown" % len(failures))
        sys.exit(1)
    print("no violation shown")
    sys.exit(0)
# ---- demo 3: a non-ASCII character earlier on the line: recorded columns are characters, AST columns are bytes ----
binop = AugmentationSpec(AugmentationType.binop, "|>", "|")
dot = AugmentationSpec(AugmentationType.dot, "?.", ".")
prefix = AugmentationSpec(AugmentationType.prefix, "$", "")

L = N_PRELUDE + 1
res, log = run([dot, prefix, binop], "s = 'e'; z = a?.b.c |> $x\n")
check(
    "control (ASCII string literal before the tokens)",
    [("Attribute", "b", L, ("?.",)), ("BinOp", "BitOr", L, ("|>",)), ("Name", "x", L, ("$",))],
    log,
)
res, log = run([dot, prefix, binop], "s = '\u00e9'; z = a?.b.c |> $x\n")
check(
    "a string literal with one two-byte character before the tokens",
    [("Attribute", "b", L, ("?.",)), ("BinOp", "BitOr", L, ("|>",)), ("Name", "x", L, ("$",))],
    log,
)
res, log = run([dot], "\u00e9 = a\nz = \u00e9?.b\n")
check("non-ASCII identifier as the object: \u00e9?.b", [("Attribute", "b", L + 1, ("?.",))], log)

res, log = run([prefix], "z = {'\u00fcber': $x}\n")
check("prefix token after a non-ASCII dict key", [("Name", "x", L, ("$",))], log)

# an EXTRA node: the character column of the token coincides with the byte column of another name
res, log = run([prefix], "z = ('\u00e9\u00e9\u00e9', y, $x)\n")
check("('\u00e9\u00e9\u00e9', y, $x): exactly x is marked", [("Name", "x", L, ("$",))], log)
finish()
