"""demo3: function bodies that start with `global` / `nonlocal` declarations.

(a) `def f(): global G; "text"; ...`  -- in Python "text" is NOT a docstring (it is not the first statement);
    the rewritten function has f.__doc__ == "text".
(b) `def f(): global G`               -- a body made of declarations only; the rewritten module does not
    compile ("empty body on FunctionDef").

Property C10 quantifies over functions with global/nonlocal declarations and docstrings; results must be
identical to the plain run whichever guards are toggled (here: none is, the rewrite alone is enough).
"""
import ast
import sys

import pyccolo as pyc

SRC_A = """
G = 0
def bump(d):
    global G
    "not a docstring: a declaration comes first"
    G += d
    return G
def outer():
    n = 0
    def step():
        nonlocal n
        "neither is this"
        n += 1
        return n
    return step
out = [bump(2), bump.__doc__, outer().__doc__]
"""

SRC_B = """
G = 1
def declares_only():
    global G
out = [declares_only()]
"""


class T(pyc.BaseTracer):
    global_guards_enabled = True
    instrument_all_files = True

    @pyc.register_raw_handler((pyc.after_function_execution, pyc.after_for_loop_iter))
    def h(self, ret, node, frame, event, *a, guard=None, **kw):
        pass


def plain(src):
    env = {}
    exec(compile(src, "<plain>", "exec"), env)
    return env["out"]


def traced(src, name):
    env = {}
    t = T.instance()
    with t.tracing_enabled():
        try:
            tree = t.make_ast_rewriter(name).visit(ast.parse(src))
            exec(compile(tree, name, "exec"), env)
        except Exception as e:
            return "%s: %s" % (type(e).__name__, e)
    return env["out"]


bad = False
for label, src in (("(a) declaration then string", SRC_A), ("(b) declarations only", SRC_B)):
    exp, obs = plain(src), traced(src, "<demo3-%s>" % label[1])
    print(label)
    print("   plain :", exp)
    print("   traced:", obs)
    if exp != obs:
        bad = True
        print("   VIOLATION: expected %r, observed %r" % (exp, obs))
sys.exit(1 if bad else 0)
