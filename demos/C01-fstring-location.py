"""demo4: with a handler on after_fstring, an f-string that is not nested in a node whose visitor sets a
source location (assert message, default argument, `with` item, `match` subject, class keyword ...) is
wrapped in an emit call without lineno/col_offset: compile() of the rewritten tree raises TypeError, so the
program does not run at all."""
import ast, sys
import pyccolo as pyc

SRC = '''
def check(x):
    assert x > 0, f"bad value {x}"
    return x
r = check(1)
'''

class T(pyc.BaseTracer):
    should_patch_meta_path = False
    instrument_all_files = True

    @pyc.register_raw_handler((pyc.after_fstring,))
    def observe(self, ret, *_, **__):
        return None


env0 = {}
exec(compile(SRC, "<prog>", "exec"), env0)
print("plain       : r =", env0["r"])
t = T.instance()
failure = None
with t.tracing_enabled():
    tree = t.make_ast_rewriter("<prog>").visit(ast.parse(SRC))
    try:
        env1 = {}
        exec(compile(tree, "<prog>", "exec"), env1)
        print("instrumented: r =", env1["r"])
    except Exception as e:
        failure = e
        print("instrumented: %s: %s" % (type(e).__name__, e))
if failure is not None or env0["r"] != env1.get("r"):
    print("VIOLATION: instrumented program cannot even be compiled")
    sys.exit(1)
sys.exit(0)
